use std::time::{Duration, Instant};
use stun_agent::*;
use stun_rs::attributes::stun::*;
use stun_rs::methods::BINDING;
use stun_rs::*;

#[test]
fn d1_double_fingerprint() {
    let msg = StunMessageBuilder::new(BINDING, MessageClass::Request)
        .with_attribute(Software::new("x").unwrap())
        .with_attribute(Fingerprint::default())
        .build();
    let mut buf = vec![0u8; 200];
    let n = MessageEncoderBuilder::default().build().encode(&mut buf, &msg).unwrap();
    let mut wire = buf[..n].to_vec();
    // append a second FINGERPRINT attribute with a bogus value
    wire.extend_from_slice(&[0x80, 0x28, 0x00, 0x04, 1, 2, 3, 4]);
    let l = (wire.len() - 20) as u16;
    wire[2..4].copy_from_slice(&l.to_be_bytes());
    let (m, _) = MessageDecoderBuilder::default().build().decode(&wire).unwrap();
    println!("attrs = {}", m.attributes().len());
    assert_eq!(m.attributes().len(), 2, "second FINGERPRINT must be ignored");
}

#[test]
fn d2_timeout_frees_slot_and_late_response() {
    let mut c = StunClienteBuilder::new(TransportReliability::Reliable(Duration::from_secs(1)))
        .with_max_transactions(1)
        .build()
        .unwrap();
    let t0 = Instant::now();
    let id = c.send_request(BINDING, StunAttributes::default(), vec![0; 100], t0).unwrap();
    let _ = c.events();
    c.on_timeout(t0 + Duration::from_secs(2));
    let ev = c.events();
    println!("{:?}", ev);
    // late response
    let resp = StunMessageBuilder::new(BINDING, MessageClass::SuccessResponse)
        .with_transaction_id(id)
        .build();
    let mut buf = vec![0u8; 100];
    let n = MessageEncoderBuilder::default().build().encode(&mut buf, &resp).unwrap();
    let r = c.on_buffer_recv(&buf[..n], t0 + Duration::from_secs(3));
    println!("late response -> {:?} events {:?}", r, c.events());
    let r2 = c.send_request(BINDING, StunAttributes::default(), vec![0; 100], t0 + Duration::from_secs(4));
    println!("send after timeout -> {:?}", r2);
    assert!(r.is_err(), "late response must be discarded");
}

#[test]
fn d3_nonce_cookie_non_ascii() {
    let n = Nonce::new("obMatJos2abc\u{c3}\u{a9}").unwrap();
    let r = std::panic::catch_unwind(|| n.security_features().is_ok());
    assert!(r.is_ok(), "security_features panicked");
}

#[test]
fn d4_password_algorithms_clone_add() {
    let mut a = PasswordAlgorithms::default();
    a.add(PasswordAlgorithm::new(Algorithm::from(AlgorithmId::MD5)));
    let b = a.clone();
    let r = std::panic::catch_unwind(move || { let mut a = a; a.add(PasswordAlgorithm::new(Algorithm::from(AlgorithmId::SHA256))); a.iter().count() });
    drop(b);
    assert!(r.is_ok(), "add after clone panicked");
}

#[test]
fn d5_encode_64k() {
    use stun_rs::attributes::turn::Data;
    let msg = StunMessageBuilder::new(BINDING, MessageClass::Request)
        .with_attribute(Data::new(vec![0u8; 65520]))
        .build();
    let mut buf = vec![0u8; 70000];
    let r = std::panic::catch_unwind(move || MessageEncoderBuilder::default().build().encode(&mut buf, &msg).map_err(|e| e.to_string()));
    println!("{:?}", r.as_ref().map(|x| x.clone()));
    assert!(r.is_ok(), "encode panicked");
}

#[test]
fn d6_username_roundtrip_not_identity() {
    // constructor validates (prepare) but the decoder transforms (enforce)
    for s in ["a\u{00A0}b", "e\u{0301}", "\u{212B}", "A\u{2003}B"] {
        let u = UserName::new(s).unwrap();
        let orig = u.as_str().to_string();
        let msg = StunMessageBuilder::new(BINDING, MessageClass::Request)
            .with_attribute(u)
            .build();
        let mut buf = vec![0u8; 200];
        let n = MessageEncoderBuilder::default().build().encode(&mut buf, &msg).unwrap();
        let (m, _) = MessageDecoderBuilder::default().build().decode(&buf[..n]).unwrap();
        let d = m.get::<UserName>().unwrap().expect_user_name().as_str().to_string();
        assert_eq!(orig, d, "USERNAME changed across encode/decode");
    }
}
