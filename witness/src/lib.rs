//! E5: compile-fail witnesses for type-level facts the rules rely on. Each witness is paired with a
//! compiling twin that differs only in the offending line, so a witness whose paths are merely wrong
//! (which would also "fail to compile") is noticed.

/// W1 (C13 R13.6): a `StunPacket` cannot be written through - retransmissions share an immutable buffer.
/// ```compile_fail,E0594
/// use stun_agent::{StunAttributes, StunClienteBuilder, StunClientEvent, TransportReliability, RttConfig};
/// use stun_rs::methods::BINDING;
/// let mut c = StunClienteBuilder::new(TransportReliability::Unreliable(RttConfig::default())).build().unwrap();
/// c.send_request(BINDING, StunAttributes::default(), vec![0; 64], std::time::Instant::now()).unwrap();
/// for e in c.events() {
///     if let StunClientEvent::OutputPacket(p) = e {
///         p[0] = 1; // assignment through Deref<Target = [u8]>
///     }
/// }
/// ```
/// twin:
/// ```
/// use stun_agent::{StunAttributes, StunClienteBuilder, StunClientEvent, TransportReliability, RttConfig};
/// use stun_rs::methods::BINDING;
/// let mut c = StunClienteBuilder::new(TransportReliability::Unreliable(RttConfig::default())).build().unwrap();
/// c.send_request(BINDING, StunAttributes::default(), vec![0; 64], std::time::Instant::now()).unwrap();
/// for e in c.events() {
///     if let StunClientEvent::OutputPacket(p) = e {
///         let _b = p[0];
///     }
/// }
/// ```
pub struct W1;

/// W2 (C02 R2.2): a `MessageMethod` above 0xFFF cannot be forged outside the crate (the field is `pub(crate)`).
/// ```compile_fail,E0603
/// let _m = stun_rs::MessageMethod(0x1000);
/// ```
/// twin:
/// ```
/// use std::convert::TryFrom;
/// assert!(stun_rs::MessageMethod::try_from(0x1000u16).is_err());
/// let _m = stun_rs::MessageMethod::try_from(0x0FFFu16).unwrap();
/// ```
pub struct W2;

/// W3 (C19 R19.3): an `ErrorCode` outside 300..=699 cannot be built by a struct literal (private fields).
/// ```compile_fail,E0451
/// let _e = stun_rs::ErrorCode { error_code: 999, reason: String::new() };
/// ```
/// twin:
/// ```
/// assert!(stun_rs::ErrorCode::new(999, "x").is_err());
/// let _e = stun_rs::ErrorCode::new(420, "x").unwrap();
/// ```
pub struct W3;

/// W4 (C18 R18.1): decoder options cannot be changed after `build()` (private fields).
/// ```compile_fail,E0616
/// let mut ctx = stun_rs::DecoderContextBuilder::default().build();
/// ctx.validation = true;
/// ```
/// twin:
/// ```
/// let ctx = stun_rs::DecoderContextBuilder::default().with_validation().build();
/// assert!(ctx.validate());
/// ```
pub struct W4;
