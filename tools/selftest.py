#!/usr/bin/env python3
"""Seeded-variant self-test (informational): for every confirmed mutant under /verif/seeded, apply its patch to a
scratch clone of /repo, run the quick check of every claimed property against that clone and record which checks
report a violation.  Nothing here is a registered check; results go to seeded/MATRIX.json.
usage: selftest.py [--jobs N] [--target-only] [prefix ...]      (prefix: C03 or C03-m2)
--target-only: run only the check of the mutant's own property (6x faster); the rows of the other checks are kept from the
existing seeded/MATRIX.json (they are then as old as that file's `_commit_full`)."""
import json, os, shutil, subprocess, sys, tempfile, time
V = os.path.dirname(os.path.dirname(os.path.abspath(__file__)))
props = [c["property_id"] for c in json.load(open(os.path.join(V, "MANIFEST.json")))["checks"]]
args = sys.argv[1:]
jobs = 1
worker = None
if "--jobs" in args:
    i = args.index("--jobs")
    jobs = int(args[i + 1])
    del args[i:i + 2]
if "--worker" in args:
    i = args.index("--worker")
    worker = (int(args[i + 1]), int(args[i + 2]), args[i + 3])
    del args[i:i + 4]
target_only = "--target-only" in args
only = [a for a in args if not a.startswith("--")]
seeds = sorted(d for d in os.listdir(os.path.join(V, "seeded"))
               if os.path.isfile(os.path.join(V, "seeded", d, "patch.diff")))
if only:
    seeds = [s for s in seeds if any(s.startswith(o) for o in only)]


def run_checks(env, which=None):
    row = {}
    for p in (which or props):
        r = subprocess.run([os.path.join(V, "bin", "verif"), "check", p], env=env, stdout=subprocess.PIPE, stderr=subprocess.STDOUT, text=True)
        if r.returncode != 0:
            rules = sorted({l.strip().split(":")[0].replace("rule ", "") for l in r.stdout.splitlines() if l.startswith("  rule ")})
            row[p] = rules[:4]
    return row


def work(my_seeds, with_base, out_file):
    scratch = tempfile.mkdtemp(prefix="selftest-")
    repo = os.path.join(scratch, "repo")
    subprocess.check_call(["git", "clone", "-q", "/repo", repo])
    env = dict(os.environ, RUSTUN_REPO=repo, VERIF_OUT_DIR=os.path.join(scratch, "out"))
    if worker is not None:
        env["VERIF_TARGET_DIR"] = os.path.join(scratch, "target")
    matrix = {}
    try:
        if with_base:
            matrix["_unchanged_tree"] = run_checks(env)
        for sd in my_seeds:
            patch = os.path.join(V, "seeded", sd, "patch.diff")
            a = subprocess.run(["git", "-C", repo, "apply", patch], stdout=subprocess.PIPE, stderr=subprocess.STDOUT, text=True)
            if a.returncode != 0:
                matrix[sd] = {"error": "patch does not apply: " + a.stdout[-200:]}
                continue
            tgt = sd.split("-")[0]
            row = run_checks(env, [tgt] if target_only else None)
            matrix[sd] = {"target": tgt, "caught_by": row, "caught_by_target": tgt in row}
            subprocess.check_call(["git", "-C", repo, "checkout", "-q", "--", "."])
            print(sd, "->", ",".join(sorted(row)) or "NOT CAUGHT", flush=True)
    finally:
        shutil.rmtree(scratch, ignore_errors=True)
    json.dump(matrix, open(out_file, "w"), indent=1, sort_keys=True)


t0 = time.time()
if worker is not None:
    k, n, out_file = worker
    work(seeds[k::n], k == 0, out_file)
    sys.exit(0)
parts = []
if jobs <= 1:
    f = tempfile.mktemp(prefix="matrix-part-")
    work(seeds, True, f)
    parts.append(f)
else:
    procs = []
    for k in range(jobs):
        f = tempfile.mktemp(prefix="matrix-part-%d-" % k)
        parts.append(f)
        procs.append(subprocess.Popen([sys.executable, os.path.abspath(__file__), "--worker", str(k), str(jobs), f] + only +
                                      (["--target-only"] if target_only else [])))
    for p in procs:
        p.wait()
matrix = {}
for f in parts:
    if os.path.exists(f):
        matrix.update(json.load(open(f)))
        os.remove(f)
matrix["_wall_s"] = round(time.time() - t0)
matrix["_commit"] = subprocess.run(["git", "-C", V, "rev-parse", "--short", "HEAD"], stdout=subprocess.PIPE, text=True).stdout.strip()
dst = os.path.join(V, "seeded", "MATRIX.json")
if target_only and os.path.exists(dst):
    # keep the rows of the other checks from the last full run; replace the target's own verdict
    old = json.load(open(dst))
    for k, v in matrix.items():
        if k.startswith("_") or not isinstance(v, dict) or "target" not in v:
            continue
        prev = old.get(k, {}).get("caught_by", {}) if isinstance(old.get(k), dict) else {}
        merged = {p: r for p, r in prev.items() if p != v["target"]}
        merged.update(v["caught_by"])
        v["caught_by"] = merged
    matrix["_commit_full"] = old.get("_commit_full", old.get("_commit"))
    matrix["_commit_target_only"] = matrix.pop("_commit")
    matrix["_commit"] = matrix["_commit_target_only"]
    old.update(matrix)
    matrix = old
elif only and os.path.exists(dst):        # partial run: merge into the existing matrix
    old = json.load(open(dst))
    old.update(matrix)
    matrix = old
json.dump(matrix, open(dst, "w"), indent=1, sort_keys=True)
n = [k for k in matrix if not k.startswith("_")]
print("%d mutants, %d caught by their target property's check, %d caught by some check; unchanged tree alarms: %s"
      % (len(n), sum(1 for k in n if matrix[k].get("caught_by_target")), sum(1 for k in n if matrix[k].get("caught_by")),
         matrix.get("_unchanged_tree")))
