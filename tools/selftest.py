#!/usr/bin/env python3
"""Seeded-variant self-test (informational): for every confirmed mutant under /verif/seeded, apply its patch to a
scratch copy of /repo, run the quick check of every claimed property against that copy and record which checks
report a violation.  Nothing here is a registered check; results go to seeded/MATRIX.json."""
import json, os, shutil, subprocess, sys, tempfile, time
V = os.path.dirname(os.path.dirname(os.path.abspath(__file__)))
props = [c["property_id"] for c in json.load(open(os.path.join(V, "MANIFEST.json")))["checks"]]
only = [a for a in sys.argv[1:] if not a.startswith("--")]
seeds = sorted(d for d in os.listdir(os.path.join(V, "seeded")) if os.path.isdir(os.path.join(V, "seeded", d)))
if only:
    seeds = [s for s in seeds if any(s.startswith(o) for o in only)]
scratch = tempfile.mkdtemp(prefix="selftest-")
repo = os.path.join(scratch, "repo")
out = os.path.join(scratch, "out")
subprocess.check_call(["git", "clone", "-q", "/repo", repo])
matrix = {}
env = dict(os.environ, RUSTUN_REPO=repo, VERIF_OUT_DIR=out)
t0 = time.time()
try:
    base = {}
    for p in props:
        r = subprocess.run([os.path.join(V, "bin", "verif"), "check", p], env=env, stdout=subprocess.PIPE, stderr=subprocess.STDOUT, text=True)
        base[p] = r.returncode
    matrix["_unchanged_tree"] = base
    for sd in seeds:
        patch = os.path.join(V, "seeded", sd, "patch.diff")
        a = subprocess.run(["git", "-C", repo, "apply", patch], stdout=subprocess.PIPE, stderr=subprocess.STDOUT, text=True)
        if a.returncode != 0:
            matrix[sd] = {"error": "patch does not apply: " + a.stdout[-200:]}
            continue
        row = {}
        for p in props:
            r = subprocess.run([os.path.join(V, "bin", "verif"), "check", p], env=env, stdout=subprocess.PIPE, stderr=subprocess.STDOUT, text=True)
            if r.returncode == 1:
                rules = sorted({l.strip().split(":")[0].replace("rule ", "") for l in r.stdout.splitlines() if l.startswith("  rule ")})
                row[p] = rules[:4]
        matrix[sd] = {"target": sd.split("-")[0], "caught_by": row, "caught_by_target": sd.split("-")[0] in row}
        subprocess.check_call(["git", "-C", repo, "checkout", "-q", "--", "."])
        print(sd, "->", ",".join(sorted(row)) or "NOT CAUGHT", flush=True)
finally:
    shutil.rmtree(scratch, ignore_errors=True)
matrix["_wall_s"] = round(time.time() - t0)
json.dump(matrix, open(os.path.join(V, "seeded", "MATRIX.json"), "w"), indent=1, sort_keys=True)
n = [k for k in matrix if not k.startswith("_")]
print("%d mutants, %d caught by their target property's check, %d caught by some check"
      % (len(n), sum(1 for k in n if matrix[k].get("caught_by_target")), sum(1 for k in n if matrix[k].get("caught_by"))))
