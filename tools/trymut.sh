#!/bin/bash
# usage: trymut.sh <patch.diff> <Cxx> [<Cyy> ...] ; applies the patch to /repo, runs the quick checks, reverts.
set -u
P=$(readlink -f "$1"); shift
cd /repo || exit 2
if [ -n "$(git status --porcelain --untracked-files=no)" ]; then echo "/repo not clean"; exit 2; fi
if ! git apply --check "$P" 2>/dev/null; then echo "PATCH DOES NOT APPLY: $P"; exit 3; fi
git apply "$P"
cd /verif
for c in "$@"; do
  out=$(./bin/verif check $c 2>&1)
  rc=$?
  echo "== $c rc=$rc"
  echo "$out" | grep -E "^VIOLATION|^  rule|KNOWN|obligations" | cut -c1-400 | head -${TRYMUT_LINES:-8}
done
git -C /repo checkout -- .
