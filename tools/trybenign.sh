#!/bin/bash
# usage: trybenign.sh <name (file under seeded/benign without .diff)> <Cxx> ... ; applies to the scratch clone /tmp/bt/repo
set -u
N=$1; shift
mkdir -p /tmp/bt; [ -d /tmp/bt/repo ] || git clone -q /repo /tmp/bt/repo
cd /tmp/bt/repo && git checkout -q -- . && git clean -fdq && git apply /verif/seeded/benign/$N.diff || exit 3
cd /verif
for c in "$@"; do
  out=$(RUSTUN_REPO=/tmp/bt/repo VERIF_OUT_DIR=/tmp/bt/out VERIF_TARGET_DIR=/tmp/bt/target ./bin/verif check $c 2>&1)
  echo "== $N $c: $(echo "$out" | tail -1)"
  echo "$out" | grep -E "^  rule" | cut -c1-${TRY_W:-420} | head -${TRY_LINES:-4}
done
