#!/bin/bash
# usage: confirm_mutant.sh <Cxx> <k>   (uses the scratch worktree /tmp/mut-<Cxx> and /tmp/mutout-<Cxx>/m<k>)
# confirms: suite passes with the mutant, demo fails with it and passes without it; then stores it under /verif/seeded
set -u
ID=$1; K=$2
WT=/tmp/mut-$ID; OUT=/tmp/mutout-$ID/m$K
[ -d "$WT" ] || { echo "no worktree $WT"; exit 2; }
cd $WT
git checkout -q -- . ; git clean -fdq -e target
LOC=$(python3 -c "import json;print(json.load(open('$OUT/meta.json'))['demo_location'])")
CRATE=$(echo $LOC | cut -d/ -f1)
TNAME=$(basename $LOC .rs)
export CARGO_TARGET_DIR=$WT/target CARGO_NET_OFFLINE=true
git apply --check $OUT/patch.diff || { echo "patch does not apply"; exit 3; }
git apply $OUT/patch.diff
SUITE=$(cargo test --workspace --no-fail-fast --offline 2>&1 | grep -E "^test result" | awk '{p+=$4; f+=$6} END {print p" passed "f" failed"}')
mkdir -p $(dirname $LOC); cp $OUT/demo.rs $LOC
DEMO_MUT=$(cargo test -p $CRATE --test $TNAME --offline 2>&1 | grep -E "^test result" | head -1)
git checkout -q -- .
DEMO_CLEAN=$(cargo test -p $CRATE --test $TNAME --offline 2>&1 | grep -E "^test result" | head -1)
rm -f $LOC; git clean -fdq -e target
echo "$ID m$K: suite-with-mutant: $SUITE | demo-with-mutant: $DEMO_MUT | demo-clean: $DEMO_CLEAN"
if echo "$SUITE" | grep -q " 0 failed" && echo "$DEMO_MUT" | grep -q "FAILED" && echo "$DEMO_CLEAN" | grep -q "test result: ok"; then
  D=/verif/seeded/$ID-m$K; mkdir -p $D
  cp $OUT/patch.diff $D/patch.diff; cp $OUT/demo.rs $D/demo.rs
  python3 - <<PY
import json
m=json.load(open("$OUT/meta.json"))
m["confirmed"]={"suite_with_mutant":"$SUITE","demo_with_mutant":"$DEMO_MUT","demo_without_mutant":"$DEMO_CLEAN",
 "how":"applied patch.diff in a scratch worktree of /repo HEAD, ran cargo test --workspace --no-fail-fast --offline, then the demo test with and without the patch"}
json.dump(m,open("$D/meta.json","w"),indent=1)
PY
  echo "  stored $D"
else
  echo "  NOT CONFIRMED"
fi
