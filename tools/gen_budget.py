#!/usr/bin/env python3
"""(Re)generate anchors/panic_budget.json from the currently undischarged sites of C03/C14/C19.
Existing entries keep their reason; new entries get a reason derived from the site class and MUST be
reviewed by hand.  Never run by a registered check."""
import json, os, sys, subprocess, glob
V = "/verif"
path = os.path.join(V, "anchors", "panic_budget.json")
old = {}
if os.path.exists(path):
    for e in json.load(open(path))["entries"]:
        old[(e["fn"], e["site"])] = e
if "--keep" not in sys.argv:
    json.dump({"entries": []}, open(path, "w"))
need = {}
for prop in sys.argv[1:]:
    if prop.startswith("--"):
        continue
    subprocess.run([os.path.join(V, "bin", "verif"), "check", prop], stdout=subprocess.DEVNULL)
    for f in glob.glob(os.path.join(V, "violations", prop + "-*.json")):
        d = json.load(open(f))
        r = d.get("replay") or {}
        if "function" in r and "site" in r:
            k = (r["function"], r["site"])
            n = len(r["undischarged"])
            e = need.setdefault(k, {"fn": k[0], "site": k[1], "max": 0, "props": [], "why_undischarged": r["undischarged"][0]["why"]})
            e["max"] = max(e["max"], n)
            if prop not in e["props"]:
                e["props"].append(prop)
entries = []
for k, e in sorted(need.items()):
    o = old.get(k)
    e["reason"] = o["reason"] if o and o.get("reason") and not o["reason"].startswith("TODO") else "TODO"
    if o and o.get("requires"):
        e["requires"] = o["requires"]
    entries.append(e)
json.dump({"entries": entries}, open(path, "w"), indent=1)
print(len(entries), "entries;", sum(1 for e in entries if e["reason"] == "TODO"), "need a reason")
