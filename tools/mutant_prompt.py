#!/usr/bin/env python3
"""Print the prompt given to a fresh sub-agent that must break one property (no /verif content)."""
import json, sys
pid = sys.argv[1]
start = int(sys.argv[2]) if len(sys.argv) > 2 else 1
ks = "%d, %d, %d" % (start, start + 1, start + 2)
for l in open('/verif/properties.jsonl'):
    p = json.loads(l)
    if p['id'] == pid:
        break
else:
    sys.exit("no such property")
print(f"""You are helping to evaluate a verification effort by playing the adversary. Work ONLY inside the git worktree /tmp/mut-{pid} (a checkout of the Rust workspace sancane/rustun: crates stun-rs = STUN/TURN/ICE message codec, stun-agent = sans-IO STUN client, stun-vectors = RFC 5769 vectors). Do NOT read, list or touch /verif or /repo (you may not look at anything there); do not use the network (there is none; always pass --offline to cargo, and use CARGO_TARGET_DIR=/tmp/mut-{pid}/target).

The property under attack (behavioural, about the library as a user sees it):

  id: {pid}
  title: {p['title']}
  statement: {p['statement']}
  quantified over: {p['quantifier']['text']}
  code the property is anchored in: {', '.join(p['anchors']['files'])}
  mechanisms meant to make it hold: {'; '.join(m['name'] + ' (' + m['where'] + ')' for m in p['anchors']['mechanism'])}

Your task: produce THREE different, independent source changes ("mutants") to the library code (not tests) of this workspace. Each mutant must
  1. break the property above (make the stated behaviour false for some input / history / schedule),
  2. still compile, and still pass the complete existing test suite unchanged: `cd /tmp/mut-{pid} && CARGO_TARGET_DIR=/tmp/mut-{pid}/target cargo test --workspace --no-fail-fast --offline` must report 0 failures (unit, integration and doc tests),
  3. be realistic: the kind of slip or 'simplification' a maintainer could plausibly commit (a dropped or reordered statement, a condition weakened or inverted on one branch, a wrong constant or offset, a check moved after the effect it should guard, state updated on the wrong path, two sites that each look fine alone but disagree). Not a gratuitous `panic!()` or an obviously hostile edit.
  4. need something SPECIFIC to manifest - a particular interleaving or multi-step sequence of operations, an unusual but legal input, a fault at a particular point, a boundary value - rather than something any ordinary use would expose at once.
  5. differ from each other in WHERE and HOW they break the property (different functions / different clauses of the statement where possible). Small diffs (1-15 changed lines each).

For each mutant k = {ks} create the directory /tmp/mutout-{pid}/m<k>/ containing:
  - patch.diff : `git diff` of ONLY that mutant against the worktree's HEAD (apply-able with `git apply` on a clean checkout; paths relative to the repository root),
  - demo.rs : a self-contained Rust integration test file (uses only the public API of stun-rs / stun-agent, placed so it can be dropped as e.g. stun-agent/tests/demo_{pid.lower()}_m<k>.rs or stun-rs/tests/demo_{pid.lower()}_m<k>.rs - say which in meta.json) with one or more #[test] functions that PASS on the unmodified code and FAIL with the mutant applied, demonstrating the broken behaviour,
  - meta.json : {{"property": "{pid}", "where": "<file::function>", "what": "<one paragraph: what was changed and which clause of the property breaks>", "needs": "<what specific input/sequence/interleaving is needed to manifest>", "demo_location": "<relative path where demo.rs must be placed>", "ran": ["<commands you ran and their outcome>"]}}.

Procedure for each mutant: start from a clean tree (`git -C /tmp/mut-{pid} checkout -- . && git -C /tmp/mut-{pid} clean -fdq -e target`), make the edit, run the full test suite (must pass), save the diff, add the demo test, confirm it fails with the mutant and passes without it (revert the edit, re-run the demo), then clean the tree again. Never commit. Verify everything you claim by actually running it; if a candidate mutant is caught by the existing tests, discard it and find another. When done, leave the worktree clean (the target dir may stay) and reply with a short summary per mutant (file/function, what breaks, how the demo shows it).""")
