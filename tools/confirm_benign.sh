#!/bin/bash
# usage: confirm_benign.sh <Cxx> <k>  (uses /tmp/ben-<Cxx> and /tmp/benout-<Cxx>/r<k>): suite must pass with the patch
set -u
ID=$1; K=$2
WT=/tmp/ben-$ID; OUT=/tmp/benout-$ID/r$K
[ -d "$WT" ] || { echo "no worktree $WT"; exit 2; }
cd $WT
git checkout -q -- . ; git clean -fdq -e target
export CARGO_TARGET_DIR=$WT/target CARGO_NET_OFFLINE=true
git apply --check $OUT/patch.diff || { echo "$ID r$K: patch does not apply"; exit 3; }
git apply $OUT/patch.diff
SUITE=$(cargo test --workspace --no-fail-fast --offline 2>&1 | grep -E "^test result" | awk '{p+=$4; f+=$6} END {print p" passed "f" failed"}')
git checkout -q -- . ; git clean -fdq -e target
echo "$ID r$K: suite-with-refactoring: $SUITE"
if echo "$SUITE" | grep -q " 0 failed" && ! echo "$SUITE" | grep -q "^0 passed"; then
  mkdir -p /verif/seeded/benign
  cp $OUT/patch.diff /verif/seeded/benign/$ID-r$K.diff
  python3 - <<PY
import json
m=json.load(open("$OUT/meta.json"))
m["confirmed"]={"suite_with_refactoring":"$SUITE","how":"applied patch.diff in a scratch worktree of /repo HEAD, ran cargo test --workspace --no-fail-fast --offline"}
json.dump(m,open("/verif/seeded/benign/$ID-r$K.meta.json","w"),indent=1)
PY
  echo "  stored /verif/seeded/benign/$ID-r$K.diff"
else
  echo "  NOT CONFIRMED"
fi
