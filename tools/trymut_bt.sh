#!/bin/bash
# usage: trymut_bt.sh <seeded mutant name, e.g. C09-m10> <Cxx> ... ; applies seeded/<name>/patch.diff to the scratch clone ${BT:-/tmp/bt}/repo
# (never touches /repo), runs the quick checks there
set -u
N=$1; shift
mkdir -p ${BT:-/tmp/bt}; [ -d ${BT:-/tmp/bt}/repo ] || git clone -q /repo ${BT:-/tmp/bt}/repo
cd ${BT:-/tmp/bt}/repo && git checkout -q -- . && git clean -fdq && git apply /verif/seeded/$N/patch.diff || exit 3
cd /verif
for c in "$@"; do
  out=$(RUSTUN_REPO=${BT:-/tmp/bt}/repo VERIF_OUT_DIR=${BT:-/tmp/bt}/out VERIF_TARGET_DIR=${BT:-/tmp/bt}/target ./bin/verif check $c 2>&1)
  echo "== $N $c: $(echo "$out" | tail -1)"
  echo "$out" | grep -E "^  rule" | cut -c1-${TRY_W:-300} | head -${TRY_LINES:-3}
done
cd ${BT:-/tmp/bt}/repo && git checkout -q -- . && git clean -fdq
