#!/usr/bin/env python3
"""Print the prompt given to a fresh sub-agent that must produce behaviour-PRESERVING refactorings of the code a
property is anchored in (no /verif content).  Used to test the checks for false alarms."""
import json, sys
pid = sys.argv[1]
start = int(sys.argv[2]) if len(sys.argv) > 2 else 1          # number of the first refactoring (later rounds: 4, 7, ..)
ks = "%d, %d, %d" % (start, start + 1, start + 2)
hard = len(sys.argv) > 3 and sys.argv[3] == "hard"
HARD = """
  5. go beyond the most obvious clean-ups (early returns, let-else, renaming, named constants on their own): aim for STRUCTURAL changes a maintainer might still commit - a different loop form (iterator adapters such as zip / chain / take / skip / rev / fold / try_for_each / chunks / windows, or the reverse: an explicit index loop), different slicing APIs (split_at, split_first, first_chunk, get(..), strip_prefix, array conversions with try_from / try_into), different control flow (match on tuples, matches!, combinators such as map_or / and_then / ok_or / then_some / filter, bool::then), moving code between functions (extract or inline helpers, methods instead of free functions, const generics), a different but equivalent intermediate representation (tuple or small struct instead of separate locals, Option instead of flag + value), equivalent arithmetic or comparisons written differently. Every such change must still be exactly equivalent for every input.""" if hard else ""
for l in open('/verif/properties.jsonl'):
    p = json.loads(l)
    if p['id'] == pid:
        break
else:
    sys.exit("no such property")
print(f"""You are helping to evaluate a verification effort. Work ONLY inside the git worktree /tmp/ben-{pid} (a checkout of the Rust workspace sancane/rustun: crates stun-rs = STUN/TURN/ICE message codec, stun-agent = sans-IO STUN client, stun-vectors = RFC 5769 vectors). Do NOT read, list or touch /verif or /repo; do not use the network (there is none; always pass --offline to cargo, and use CARGO_TARGET_DIR=/tmp/ben-{pid}/target).

A behavioural property of the library (for context - your changes must NOT break it):

  id: {pid}
  title: {p['title']}
  statement: {p['statement']}
  code the property is anchored in: {', '.join(p['anchors']['files'])}
  mechanisms meant to make it hold: {'; '.join(m['name'] + ' (' + m['where'] + ')' for m in p['anchors']['mechanism'])}

Your task: produce THREE different, independent BEHAVIOUR-PRESERVING refactorings of the library code (not tests) in the functions this property is anchored in. Each refactoring must
  1. leave the observable behaviour exactly as it is for EVERY input, call order and configuration (same results, same errors and error kinds, same events in the same order, same bytes written, no new panics - in particular do not introduce indexing, slicing, unwrap or arithmetic that could panic where the original returned an error, and keep every bounds check that guards a slice),
  2. compile without new warnings and pass the complete existing test suite: `cd /tmp/ben-{pid} && CARGO_TARGET_DIR=/tmp/ben-{pid}/target cargo test --workspace --no-fail-fast --offline` must report 0 failures,
  3. be the kind of clean-up a maintainer would really commit, and be NON-trivial (15-70 changed lines): e.g. rename locals and reorder independent statements; replace a `match` by `if let`/`let else` or the reverse; turn nested ifs into early returns; hoist a repeated expression into a local or a named constant; replace a hand-written loop by an iterator chain or the reverse (only where bounds stay checked); use an equivalent std API (`copy_from_slice` for `clone_from_slice`, `u16::from_be_bytes` for a byteorder read after the same length check, `get(..).ok_or(..)?` for check-then-index with the same error); extract a private helper function or inline one; flatten or split a condition; change `x >= n` into `!(x < n)` or reorder the operands of a commutative operation; introduce an intermediate struct/tuple. Combine several of these in one refactoring.
  4. differ from the other two in WHICH functions they touch and WHICH techniques they use.{HARD}

Be careful and conservative about equivalence: if you are not sure a rewrite is equivalent for every input (integer overflow, empty inputs, error precedence when two checks could both fail, evaluation order with side effects), do not use it.

For each refactoring k = {ks} create the directory /tmp/benout-{pid}/r<k>/ containing:
  - patch.diff : `git diff` of ONLY that refactoring against the worktree's HEAD (apply-able with `git apply` on a clean checkout),
  - meta.json : {{"property": "{pid}", "where": ["<file::function>", ...], "what": "<what was rewritten>", "why_equivalent": "<the argument, point by point>", "ran": ["<commands you ran and their outcome>"]}}.

Procedure for each: start from a clean tree (`git -C /tmp/ben-{pid} checkout -- . && git -C /tmp/ben-{pid} clean -fdq -e target`), make the edit, run the full test suite (must pass; the suite has one known flaky test that fails about once in 250 runs because of `buffer[35] += 1` on a random byte - re-run if only that one fails), save the diff, clean the tree again. Never commit. When done, leave the worktree clean and reply with a short summary per refactoring.""")
