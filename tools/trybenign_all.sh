#!/bin/bash
# usage: trybenign_all.sh <name> ; applies seeded/benign/<name>.diff to the scratch clone /tmp/bt/repo and runs all 19 checks (8 at a time)
set -u
N=$1
mkdir -p /tmp/bt; [ -d /tmp/bt/repo ] || git clone -q /repo /tmp/bt/repo
cd /tmp/bt/repo && git checkout -q -- . && git clean -fdq && git apply /verif/seeded/benign/$N.diff || exit 3
cd /verif
export RUSTUN_REPO=/tmp/bt/repo VERIF_OUT_DIR=/tmp/bt/out VERIF_TARGET_DIR=/tmp/bt/target
./bin/verif check C12 > /tmp/bt/log-C12 2>&1      # first one alone: extracts the facts
for i in $(seq -w 1 19); do echo C$i; done | grep -v C12 | xargs -P 8 -I{} sh -c './bin/verif check {} > /tmp/bt/log-{} 2>&1'
for i in $(seq -w 1 19); do
  if ! tail -1 /tmp/bt/log-C$i | grep -q " 0 violation"; then
    echo "== $N C$i: $(tail -1 /tmp/bt/log-C$i)"
    grep -E "^  rule" /tmp/bt/log-C$i | cut -c1-${TRY_W:-420} | head -${TRY_LINES:-4}
  fi
done
echo "== $N done"
