#!/bin/bash
# usage: trybenign_all.sh <name> ; applies seeded/benign/<name>.diff to the scratch clone ${BT:-/tmp/bt}/repo and runs all 19 checks (8 at a time)
set -u
N=$1
mkdir -p ${BT:-/tmp/bt}; [ -d ${BT:-/tmp/bt}/repo ] || git clone -q /repo ${BT:-/tmp/bt}/repo
cd ${BT:-/tmp/bt}/repo && git checkout -q -- . && git clean -fdq && git apply /verif/seeded/benign/$N.diff || exit 3
cd /verif
export RUSTUN_REPO=${BT:-/tmp/bt}/repo VERIF_OUT_DIR=${BT:-/tmp/bt}/out VERIF_TARGET_DIR=${BT:-/tmp/bt}/target
./bin/verif check C12 > ${BT:-/tmp/bt}/log-C12 2>&1      # first one alone: extracts the facts
for i in $(seq -w 1 19); do echo C$i; done | grep -v C12 | xargs -P 8 -I{} sh -c './bin/verif check {} > ${BT:-/tmp/bt}/log-{} 2>&1'
for i in $(seq -w 1 19); do
  if ! tail -1 ${BT:-/tmp/bt}/log-C$i | grep -q " 0 violation"; then
    echo "== $N C$i: $(tail -1 ${BT:-/tmp/bt}/log-C$i)"
    grep -E "^  rule" ${BT:-/tmp/bt}/log-C$i | cut -c1-${TRY_W:-420} | head -${TRY_LINES:-4}
  fi
done
echo "== $N done"
