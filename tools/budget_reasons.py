#!/usr/bin/env python3
"""Fill the reviewed reasons of anchors/panic_budget.json (one-off helper used while reviewing; the reasons
below were written by hand after reading each function)."""
import json, re
P = "/verif/anchors/panic_budget.json"
RULES = [
 (r"StunPacketDecoder::decode", r".*", "stream reassembler: every index/copy/arithmetic site is governed by the class invariant (current_size < 20 before the header is complete, current_size < expected_size <= buffer.len() afterwards); the invariant and the safety of every site under it are PROVED by C16 R16.4 (Fourier-Motzkin over the path conditions), evaluated as the premise of this entry; the entry itself pins the number of such sites so a new one is reported", "reassembler invariant (C16 R16.4)"),
 (r"rtt::RttCalcuator::update", r"time-arith", "Duration arithmetic on RTT samples (differences of caller-supplied Instants) and RTO estimates: overflows only beyond ~5.8e11 years; depends on the caller's clock, not on received bytes"),
 (r"StunPacket as std::ops::Deref>::deref", r"vec-index", "StunPacket::new(buffer, size) is crate-private and only called with size <= buffer.len() (encode_buffer: size returned by the encoder for that buffer, encoder contract R14.4; StunPacketDecoder: packet size <= buffer.len() proved by C16 R16.4)", "reassembler invariant (C16 R16.4)"),
 (r"MessageType as std::convert::From<u16>>::from", r"unwrap", "operands are masked to 2 bits (class) and 12 bits (method) before the fallible conversions, which therefore cannot fail: bit provenance decided under C02 R2.2"),
 (r"Fingerprint as std::convert::From<&\[u8; FINGERPRINT_SIZE\]>>::from", r"unwrap", "DecodableFingerprint::decode only fails on fewer than 4 bytes; the argument is a &[u8; 4]"),
 (r"registry::DecoderRegistry::register", r"explicit-panic", "assert! on duplicate registration inside the lazy initialiser; requires pairwise distinct type codes, decided under C01 R1.2", "C01 R1.2"),
 (r"requested_transport::RequestedTrasport as .*EncodeAttributeValue>::encode", r"explicit-panic", "debug_assert-style assert on the size returned by ProtocolNumber::encode, which is the constant 1"),
 (r"(additional_address_family|requested_address_family|requested_transport).*EncodeAttributeValue>::encode", r"slice-index", "reserved bytes raw_value[n..4] after check_buffer_boundaries(raw_value, 4); n is the size returned by the 1-byte field encoder (constant 1)"),
 (r"channel_number::ChannelNumber as .*DecodeAttributeValue>::decode", r"slice-index", "raw[2..] after u16::decode(raw) returned Ok, which implies len(raw) >= 2 (callee contract: check_buffer_boundaries(raw_value, 2) inside u16::decode)"),
 (r"channel_number::ChannelNumber as .*EncodeAttributeValue>::encode", r"slice-index", "raw[2..] after u16::encode(raw) returned Ok, which implies len(raw) >= 2"),
 (r"password_algorithm::PasswordAlgorithm as .*DecodeAttributeValue>::decode", r"assert\|Overflow:Add", "param_length + 4 in u16: reached only after check_buffer_boundaries(raw_value, 4 + param_length) succeeded and an attribute value is at most 65531 bytes (16-bit message length), so param_length <= 65527"),
 (r"password_algorithm::PasswordAlgorithm as .*EncodeAttributeValue>::encode", r"assert\|Overflow:Add", "4 + parameter length + padding of an in-memory Vec (< 2^63)"),
 (r"password_algorithm::PasswordAlgorithm as .*EncodeAttributeValue>::encode", r"slice-op", "destination raw_value[4..4+len] and source parameters both have length len (same local)"),
 (r"password_algorithms::PasswordAlgorithms as .*DecodeAttributeValue>::decode", r"assert\|Overflow:Add", "running size bounded by the attribute value length (each step is followed by check_buffer_boundaries(raw_value, total_size))"),
 (r"password_algorithms::PasswordAlgorithms as .*DecodeAttributeValue>::decode", r"slice-index", "raw_value[total_size..]: total_size was bounds-checked in the previous iteration (loop-carried fact; the in-iteration check after the padding is discharged by the prover and its removal is reported)"),
 (r"password_algorithms::PasswordAlgorithms as .*EncodeAttributeValue>::encode", r".*", "running size over in-memory algorithms; each write is preceded by the nested encoder's own bounds check on raw_value[size..] and fill_padding_value checks the padding (loop-carried facts)"),
 (r"unknown_attributes::UnknownAttributes as .*DecodeAttributeValue>::decode", r".*", "i ranges over 0..len/2 after the odd-length early return, so 2*i + 2 <= len (relational loop fact)"),
 (r"unknown_attributes::UnknownAttributes as .*EncodeAttributeValue>::encode", r".*", "i ranges over the in-memory list after check_buffer_boundaries(raw_value, 2*n) (relational loop fact)"),
 (r"user_hash::UserHash as .*DecodeAttributeValue>::decode::\{closure", r"slice-op", "the closure runs only under raw_value.len() == USER_HASH_SIZE (bool::then on that comparison); destination is a Vec of USER_HASH_SIZE zeros"),
 (r"(user_hash::UserHash|turn::data::Data|mobility_ticket::MobilityTicket|strings::QuotedString|types::ErrorCode|impl stun_rs::Encode for &str) as .*Encode(AttributeValue)?>::encode|common::<impl stun_rs::Encode for &str>::encode", r"slice-op", "clone_from_slice into raw_value[..len] (or [4..len+4]) from a source of length len: both lengths are the same local; the range itself is discharged by the prover against check_buffer_boundaries"),
 (r"message_integrity(_sha256)?::MessageIntegrity(Sha256)? as .*>::post_encode", r"slice-op", "copy_from_slice(&hmac) into raw_value[..N]: hmac-sha1 / hmac-sha256 return exactly 20 / 32 bytes"),
 (r"raw::RawAttributesIter<'a> as fallible_iterator::FallibleIterator>::next", r".*", "struct invariant pos <= buffer.len(): pos starts at 0, grows only by a size that RawAttribute::decode bounds-checked plus padding, and next() returns Err as soon as pos > len (every caller stops on Err: FallibleIterator protocol)", "attribute iterator invariant (C03 R3.5)"),
 (r"context::MessageDecoder::decode", r".*", "index = 20 + iter.pos() <= 20 + msg_length <= buffer.len() (RawMessage::decode checked 20 + msg_length; iterator invariant pos <= len(attributes)); position counts loop iterations", "attribute iterator invariant (C03 R3.5)"),
 (r"context::MessageEncoder::encode", r".*", "loop-carried facts of the encode loop: coded_index = 20 + length where every previous iteration bounds-checked its header, value (encoder contract: returned size <= checked length) and padding inside `attributes`; the header check against 20 and the per-iteration checks are discharged by the prover", "encode loop invariant (C14 R14.6)"),
 (r"raw::get_input_text", r".*", "pos comes from the attribute iterator (pos <= len(attributes)), so index = pos + 20 <= buffer length checked by RawMessage::decode; out = buffer[..index].to_vec() has at least 20 bytes for out[2..4]", "attribute iterator invariant (C03 R3.5)"),
 (r"strings::formatted_quoted_string_from", r".*", "pos counts leading/trailing removable characters, all of which are single-byte ASCII (CR, LF, SP, HTAB, DQUOTE), so char counts equal byte offsets and fall on char boundaries", "is_removable_character accepts only code points < 0x80"),
 (r"common::socket_addr_xor", r".*", "i comes from enumerate().take(4) resp. take(16).skip(4): 24 - 8*i in 0..=24 and i - 4 in 0..12 (iterator adaptor bounds, not modelled)"),
 (r"address_port::.*SocketAddr>::decode", r"assert\|Overflow:Add", "size = 4 + (4 | 16)"),
 (r"address_port::.*SocketAddr>::encode", r"slice-index", "raw_value[4..20] after check_buffer_boundaries(raw_value, encoded_size_(addr)) with encoded_size_ = 20 for IPv6 (match-arm correlation not modelled; the IPv4 range is discharged via the minimum 8)"),
 (r"address_port::encoded_size_", r".*", "4 + (4 | 16)"),
 (r"types::ErrorCode::class", r".*", "error_code - error_code % 100 cannot underflow; (error_code - number) / 100 is in 3..=6 because ErrorCode::new / decode only build values in 300..=699 (private fields)", "range test in ErrorCode::new and ErrorCode::decode"),
 (r"types::ErrorCode::number", r".*", "error_code % 100 < 256"),
]
d = json.load(open(P))
todo = 0
for e in d["entries"]:
    for r in RULES:
        if re.search(r[0], e["fn"]) and re.search(r[1], e["site"]):
            e["reason"] = r[2]
            if len(r) > 3:
                e["requires"] = r[3]
            break
    else:
        todo += 1
        print("NO REASON:", e["fn"], e["site"])
    e.pop("why_undischarged", None)
json.dump(d, open(P, "w"), indent=1)
print(len(d["entries"]), "entries,", todo, "without reason")
