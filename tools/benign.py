#!/usr/bin/env python3
"""Benign-edit self-test (informational): apply every behaviour-preserving refactor under seeded/benign/*.diff (each
one separately, then the hand-written b*.diff all together) to a scratch clone of /repo and run the quick check of
every claimed property.  Every check must stay silent.  Results: seeded/BENIGN.json.  Not a registered check.
usage: benign.py [--jobs N] [name-prefix ...]"""
import glob, json, os, shutil, subprocess, sys, tempfile, time
V = os.path.dirname(os.path.dirname(os.path.abspath(__file__)))
props = [c["property_id"] for c in json.load(open(os.path.join(V, "MANIFEST.json")))["checks"]]
args = sys.argv[1:]
jobs, worker = 1, None
if "--jobs" in args:
    i = args.index("--jobs"); jobs = int(args[i + 1]); del args[i:i + 2]
if "--worker" in args:
    i = args.index("--worker"); worker = (int(args[i + 1]), int(args[i + 2]), args[i + 3]); del args[i:i + 4]
only = [a for a in args if not a.startswith("--")]
diffs = sorted(glob.glob(os.path.join(V, "seeded", "benign", "*.diff")))
cases = [[d] for d in diffs]
hand = [d for d in diffs if os.path.basename(d).startswith("b")]
if hand:
    cases.append(hand)


def name_of(case):
    return os.path.basename(case[0])[:-5] if len(case) == 1 else "all-together"


if only:
    cases = [c for c in cases if any(name_of(c).startswith(o) for o in only)]


def work(my_cases, out_file):
    scratch = tempfile.mkdtemp(prefix="benign-")
    repo = os.path.join(scratch, "repo")
    subprocess.check_call(["git", "clone", "-q", "/repo", repo])
    env = dict(os.environ, RUSTUN_REPO=repo, VERIF_OUT_DIR=os.path.join(scratch, "out"))
    if worker is not None:
        env["VERIF_TARGET_DIR"] = os.path.join(scratch, "target")
    res = {}
    try:
        for case in my_cases:
            name = name_of(case)
            ok = True
            for d in case:
                a = subprocess.run(["git", "-C", repo, "apply", d], stdout=subprocess.PIPE, stderr=subprocess.STDOUT, text=True)
                if a.returncode != 0:
                    res[name] = {"error": "patch does not apply: " + a.stdout[-200:], "silent": False}
                    ok = False
                    break
            if ok:
                alarms = {}
                for p in props:
                    r = subprocess.run([os.path.join(V, "bin", "verif"), "check", p], env=env, stdout=subprocess.PIPE, stderr=subprocess.STDOUT, text=True)
                    if r.returncode != 0:
                        alarms[p] = [l.strip()[:300] for l in r.stdout.splitlines() if l.startswith("  rule ")][:3]
                res[name] = {"alarms": alarms, "silent": not alarms}
                print(name, "->", "silent" if not alarms else "ALARM " + ",".join(sorted(alarms)), flush=True)
            subprocess.check_call(["git", "-C", repo, "checkout", "-q", "--", "."])
            subprocess.check_call(["git", "-C", repo, "clean", "-fdq"])
    finally:
        shutil.rmtree(scratch, ignore_errors=True)
    json.dump(res, open(out_file, "w"), indent=1, sort_keys=True)


t0 = time.time()
if worker is not None:
    k, n, out_file = worker
    work(cases[k::n], out_file)
    sys.exit(0)
parts = []
if jobs <= 1:
    f = tempfile.mktemp(prefix="benign-part-"); work(cases, f); parts.append(f)
else:
    procs = []
    for k in range(jobs):
        f = tempfile.mktemp(prefix="benign-part-%d-" % k); parts.append(f)
        procs.append(subprocess.Popen([sys.executable, os.path.abspath(__file__), "--worker", str(k), str(jobs), f] + only))
    for p in procs:
        p.wait()
res = {}
for f in parts:
    if os.path.exists(f):
        res.update(json.load(open(f))); os.remove(f)
dst = os.path.join(V, "seeded", "BENIGN.json")
if only and os.path.exists(dst):
    old = json.load(open(dst)); old.update(res); res = old
res["_wall_s"] = round(time.time() - t0)
json.dump(res, open(dst, "w"), indent=1, sort_keys=True)
bad = [k for k, v in res.items() if not k.startswith("_") and not v.get("silent")]
print("%d cases, alarms on: %s" % (len([k for k in res if not k.startswith('_')]), bad or "none"))
sys.exit(0 if not bad else 1)
