#!/usr/bin/env python3
"""Benign-edit self-test (informational): apply every behaviour-preserving refactor under seeded/benign/*.diff (each
one separately, then all together) to a scratch clone of /repo and run the quick check of every claimed property.
Every check must stay silent.  Results: seeded/BENIGN.json.  Nothing here is a registered check."""
import glob, json, os, shutil, subprocess, sys, tempfile, time
V = os.path.dirname(os.path.dirname(os.path.abspath(__file__)))
props = [c["property_id"] for c in json.load(open(os.path.join(V, "MANIFEST.json")))["checks"]]
diffs = sorted(glob.glob(os.path.join(V, "seeded", "benign", "*.diff")))
scratch = tempfile.mkdtemp(prefix="benign-")
repo = os.path.join(scratch, "repo")
subprocess.check_call(["git", "clone", "-q", "/repo", repo])
env = dict(os.environ, RUSTUN_REPO=repo, VERIF_OUT_DIR=os.path.join(scratch, "out"))
res = {}
t0 = time.time()


def run_all():
    row = {}
    for p in props:
        r = subprocess.run([os.path.join(V, "bin", "verif"), "check", p], env=env, stdout=subprocess.PIPE, stderr=subprocess.STDOUT, text=True)
        if r.returncode != 0:
            row[p] = [l.strip()[:300] for l in r.stdout.splitlines() if l.startswith("  rule ")][:3]
    return row


try:
    cases = [[d] for d in diffs] + ([diffs] if "--together" in sys.argv or len(sys.argv) == 1 else [])
    for case in cases:
        name = os.path.basename(case[0])[:-5] if len(case) == 1 else "all-together"
        ok = True
        for d in case:
            a = subprocess.run(["git", "-C", repo, "apply", d], stdout=subprocess.PIPE, stderr=subprocess.STDOUT, text=True)
            if a.returncode != 0:
                res[name] = {"error": "patch does not apply: " + a.stdout[-200:]}
                ok = False
                break
        if ok:
            alarms = run_all()
            res[name] = {"alarms": alarms, "silent": not alarms}
            print(name, "->", "silent" if not alarms else "ALARM " + ",".join(sorted(alarms)), flush=True)
        subprocess.check_call(["git", "-C", repo, "checkout", "-q", "--", "."])
finally:
    shutil.rmtree(scratch, ignore_errors=True)
res["_wall_s"] = round(time.time() - t0)
json.dump(res, open(os.path.join(V, "seeded", "BENIGN.json"), "w"), indent=1, sort_keys=True)
sys.exit(0 if all(v.get("silent") for k, v in res.items() if not k.startswith("_")) else 1)
