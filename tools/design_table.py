#!/usr/bin/env python3
"""Regenerate the seeded-mutant catalogue in DESIGN.md (section 6.1) from seeded/*/meta.json, seeded/MATRIX.json and
seeded/BENIGN.json."""
import json, os, re
V = os.path.dirname(os.path.dirname(os.path.abspath(__file__)))
mx = json.load(open(os.path.join(V, "seeded", "MATRIX.json"))) if os.path.exists(os.path.join(V, "seeded", "MATRIX.json")) else {}
rows = []
for d in sorted(os.listdir(os.path.join(V, "seeded"))):
    mp = os.path.join(V, "seeded", d, "meta.json")
    if not os.path.exists(mp):
        continue
    m = json.load(open(mp))
    where = re.sub(r"\s+", " ", m.get("where", ""))[:90].replace("|", "/")
    what = re.sub(r"\s+", " ", m.get("what", ""))[:150].replace("|", "/")
    r = mx.get(d, {})
    cb = r.get("caught_by")
    if cb is None:
        caught = "(not in the last matrix run)"
    else:
        caught = ", ".join("%s (%s)" % (p, " ".join(rs[:2])) for p, rs in sorted(cb.items())) or "**none**"
    rows.append("| %s | `%s` | %s… | %s |" % (d, where, what, caught))
n = [k for k in mx if not k.startswith("_")]
head = ["%d confirmed mutants; matrix of commit %s: %d caught by the target property's own check, %d by at least one check; "
        "alarms on the unchanged scratch clone: %s." % (len(rows), mx.get("_commit", "?"), sum(1 for k in n if mx[k].get("caught_by_target")),
                                                       sum(1 for k in n if mx[k].get("caught_by")), mx.get("_unchanged_tree") or "none"), "",
        "| mutant | where | what (abridged from the author's meta.json) | checks that report it (first rules) |", "|---|---|---|---|"]
bn = os.path.join(V, "seeded", "BENIGN.json")
tail = []
if os.path.exists(bn):
    b = json.load(open(bn))
    tail = ["", "Benign refactors (`seeded/benign/*.diff`, `tools/benign.py`; each applied alone and all together, every check must stay silent):", ""]
    for k in sorted(b):
        if not k.startswith("_"):
            tail.append("* `%s`: %s" % (k, "silent" if b[k].get("silent") else "ALARM %s" % sorted(b[k].get("alarms", {}))))
txt = "\n".join(head + rows + tail)
p = os.path.join(V, "DESIGN.md")
s = open(p).read()
if "<!-- SEEDED-TABLE-BEGIN -->" in s:
    s = re.sub(r"<!-- SEEDED-TABLE-BEGIN -->.*<!-- SEEDED-TABLE-END -->", lambda _m: "<!-- SEEDED-TABLE-BEGIN -->\n" + txt + "\n<!-- SEEDED-TABLE-END -->", s, flags=re.S)
else:
    s = s.replace("SEEDED_TABLE_PLACEHOLDER", "<!-- SEEDED-TABLE-BEGIN -->\n" + txt + "\n<!-- SEEDED-TABLE-END -->")
open(p, "w").write(s)
print("%d rows" % len(rows))
