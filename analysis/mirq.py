"""Queries over one MIR body: definitions of locals, value origins, borrowed roots, call sites by
callee / receiver, aggregates, classification of switch edges and of returned values.

Nothing here looks at text or positions: callees are resolved def-paths, receivers are places
(`(*self).transactions`), events are enum variants of the constructed aggregate.
"""
import re
from .facts import place_str, operand_place, operand_local, const_int, field_path, CallSite
from .cfg import cfg_of


class Def:
    __slots__ = ("kind", "block", "idx", "rv", "call", "place")

    def __init__(self, kind, block, idx, rv=None, call=None, place=None):
        self.kind = kind      # 'assign' | 'call' | 'arg'
        self.block = block
        self.idx = idx
        self.rv = rv
        self.call = call
        self.place = place


class Origin:
    """where a value comes from.  kind in:
       place  - (a borrow of / copy of) a place that is not a temporary: .place, .borrow (None|'&'|'&mut')
       call   - result of a call: .call (CallSite)
       const  - constant operand: .op
       agg    - aggregate rvalue: .rv
       rv     - any other rvalue: .rv
       arg    - function argument local: .local
    """
    __slots__ = ("kind", "place", "borrow", "call", "op", "rv", "local", "neg", "via")

    def __init__(self, kind, **kw):
        self.kind = kind
        self.place = kw.get("place")
        self.borrow = kw.get("borrow")
        self.call = kw.get("call")
        self.op = kw.get("op")
        self.rv = kw.get("rv")
        self.local = kw.get("local")
        self.neg = kw.get("neg", False)
        self.via = kw.get("via", ())

    def __repr__(self):
        return "<Origin %s %s>" % (self.kind, self.call or self.place or self.local or "")


class Q:
    def __init__(self, body):
        self.body = body
        self.cfg = cfg_of(body)
        self.defs = {}
        for l in range(1, body.arg_count + 1):
            self.defs.setdefault(l, []).append(Def("arg", -1, -1))
        for bi, b in enumerate(body.blocks):
            if b["cleanup"]:
                continue
            for si, s in enumerate(b["stmts"]):
                if s["k"] == "assign":
                    p = s["place"]
                    self.defs.setdefault(p["l"], []).append(
                        Def("assign", bi, si, rv=s["rv"], place=p))
                elif s["k"] == "setdiscr":
                    p = s["place"]
                    self.defs.setdefault(p["l"], []).append(Def("setdiscr", bi, si, place=p))
            t = b["term"]
            if t["k"] == "call":
                p = t["dest"]
                self.defs.setdefault(p["l"], []).append(
                    Def("call", bi, "term", call=CallSite(body, bi, t), place=p))
        self._calls = [c for c in body.calls() if not body.blocks[c.block]["cleanup"]]

    # ------------------------------------------------------------------ definitions
    def whole_defs(self, local):
        """definitions that assign the whole local (no projection)."""
        return [d for d in self.defs.get(local, []) if d.kind == "arg" or not d.place["p"]]

    def single_def(self, local):
        # writes *through* a reference local ((*r).f = .., (*r)[i] = ..) do not redefine the local itself
        ds = [d for d in self.defs.get(local, [])
              if d.kind == "arg" or not d.place["p"] or d.place["p"][0]["k"] != "deref"]
        if len(ds) == 1 and (ds[0].kind == "arg" or not ds[0].place["p"]):
            return ds[0]
        return None

    # ------------------------------------------------------------------ origins
    def origins(self, op_or_local, depth=12, _seen=None):
        """set of Origins of a value (operand or local), following copies, moves, reborrows and
        transparent casts through temporaries."""
        if _seen is None:
            _seen = set()
        if isinstance(op_or_local, int):
            local = op_or_local
            proj = []
        else:
            op = op_or_local
            if op["k"] == "const":
                return [Origin("const", op=op)]
            pl = op["place"]
            local, proj = pl["l"], pl["p"]
        if proj:
            # a projected place: is it a deref of a temp reference?  (*_23) -> root of _23
            if proj[0]["k"] == "deref" and len(proj) == 1:
                outs = []
                for o in self.origins(local, depth - 1, _seen):
                    if o.kind == "place" and o.borrow:
                        outs.append(Origin("place", place=o.place, borrow=None))
                    else:
                        outs.append(Origin("place", place={"l": local, "p": proj}))
                return outs
            root = self.resolve_place({"l": local, "p": proj})
            return [Origin("place", place=root)]
        if depth <= 0 or local in _seen:
            return [Origin("place", place={"l": local, "p": []})]
        _seen = _seen | {local}
        ds = self.whole_defs(local)
        if not ds:
            return [Origin("place", place={"l": local, "p": []})]
        named = self.body.debug_name(local) is not None
        outs = []
        for d in ds:
            if d.kind == "arg":
                outs.append(Origin("arg", local=local))
            elif d.kind == "call":
                outs.append(Origin("call", call=d.call))
            elif d.kind == "assign":
                rv = d.rv
                k = rv["k"]
                if k == "use":
                    outs.extend(self.origins(rv["op"], depth - 1, _seen))
                elif k in ("ref", "rawptr"):
                    root = self.resolve_place(rv["place"])
                    outs.append(Origin("place", place=root, borrow="&mut" if rv.get("mut") else "&"))
                elif k == "cast" and (rv["cast"].startswith("PointerCoercion") or rv["cast"] in ("Transmute", "PtrToPtr")):
                    outs.extend(self.origins(rv["op"], depth - 1, _seen))
                elif k == "aggregate":
                    outs.append(Origin("agg", rv=rv))
                elif k == "unop" and rv["op"] == "Not":
                    for o in self.origins(rv["a"], depth - 1, _seen):
                        o.neg = not o.neg
                        outs.append(o)
                else:
                    outs.append(Origin("rv", rv=rv))
            else:
                outs.append(Origin("rv", rv=None))
        if named and len(outs) > 1:
            pass
        return outs

    def origin(self, op_or_local):
        """the single origin, or None when the value has several possible origins."""
        o = self.origins(op_or_local)
        return o[0] if len(o) == 1 else None

    def resolve_place(self, place, depth=10):
        """rewrite a place rooted at a temporary reference into the place it borrows:
           (*_21) with _21 = &mut (*self).transactions  ->  (*self).transactions"""
        p = place
        for _ in range(depth):
            proj = p["p"]
            if not proj or proj[0]["k"] != "deref":
                return p
            l = p["l"]
            if 1 <= l <= self.body.arg_count:
                return p
            d = self.single_def(l)
            if d is None or d.kind != "assign":
                return p
            rv = d.rv
            if rv["k"] == "ref" or rv["k"] == "rawptr":
                base = rv["place"]
                p = {"l": base["l"], "p": base["p"] + proj[1:]}
            elif rv["k"] == "use" and rv["op"]["k"] in ("copy", "move"):
                base = rv["op"]["place"]
                p = {"l": base["l"], "p": base["p"] + proj}
            else:
                return p
        return p

    def borrowed_root(self, op):
        """for a reference-typed operand: the place it points to (after resolving temporaries), else None"""
        for o in self.origins(op):
            if o.kind == "place":
                return o.place
            if o.kind == "arg":
                return {"l": o.local, "p": [{"k": "deref"}]}
        return None

    def self_fields(self, place):
        """if the place lies inside `*self` (first argument), its field-name path, else None."""
        if place is None:
            return None
        p = self.resolve_place(place)
        if p["l"] != 1 or self.body.arg_count < 1:
            return None
        if self.body.debug_name(1) != "self":
            return None
        return tuple(field_path(p))

    def receiver_fields(self, cs):
        """field path below self of the first argument (receiver) of a call, else None"""
        if not cs.args:
            return None
        a = cs.args[0]
        if a["k"] == "const":
            return None
        outs = self.origins(a)
        res = set()
        for o in outs:
            if o.kind == "place":
                res.add(self.self_fields(o.place))
            elif o.kind == "arg" and o.local == 1:
                res.add(())
            else:
                res.add(None)
        if len(res) == 1:
            return res.pop()
        return None

    # ------------------------------------------------------------------ calls
    def calls(self, regex=None, receiver=None):
        """call sites (non-cleanup) whose resolved callee path matches `regex`; receiver: required
        field path below self of the first argument, e.g. ('transactions',)"""
        r = re.compile(regex) if regex else None
        out = []
        for c in self._calls:
            if r is not None and not (r.search(c.callee_path) or r.search(c.decl_path)):
                continue
            if receiver is not None and self.receiver_fields(c) != tuple(receiver):
                continue
            out.append(c)
        return out

    def call_blocks(self, regex=None, receiver=None):
        return sorted({c.block for c in self.calls(regex, receiver)})

    # ------------------------------------------------------------------ aggregates / events
    def aggregates(self, adt_regex, variant=None):
        """(block, stmt index, rvalue) of aggregate constructions of an ADT variant"""
        r = re.compile(adt_regex)
        out = []
        for bi, b in enumerate(self.body.blocks):
            if b["cleanup"]:
                continue
            for si, s in enumerate(b["stmts"]):
                if s["k"] != "assign":
                    continue
                rv = s["rv"]
                if rv["k"] == "aggregate" and rv.get("agg") == "adt" and r.search(rv["adt"]):
                    if variant is None or rv["variant_name"] == variant:
                        out.append((bi, si, rv))
        return out

    def variants_of(self, op, adt_regex):
        """set of variant names an operand of enum type may hold when every origin is an aggregate
        construction (or a move of one); None in the set = unknown origin."""
        r = re.compile(adt_regex)
        out = set()
        for o in self.origins(op):
            if o.kind == "agg" and o.rv.get("agg") == "adt" and r.search(o.rv["adt"]):
                out.add(o.rv["variant_name"])
            else:
                out.add(None)
        return out

    # ------------------------------------------------------------------ switch edges
    def switch_on(self, block):
        """describe what a switch terminator tests.  returns dict:
             origin: Origin of the tested value (after Not / copies) or None
             discr_of: place whose discriminant is tested (for `discriminant(x)` rvalues) or None
             neg: bool (an odd number of Not)
           or None when the block does not end in a switch."""
        t = self.body.blocks[block]["term"]
        if t["k"] != "switch":
            return None
        outs = self.origins(t["discr"])
        if len(outs) != 1:
            return {"origin": None, "discr_of": None, "neg": False, "term": t}
        o = outs[0]
        if o.kind == "rv" and o.rv is not None and o.rv["k"] == "discr":
            return {"origin": o, "discr_of": self.resolve_place(o.rv["place"]), "neg": o.neg, "term": t}
        return {"origin": o, "discr_of": None, "neg": o.neg, "term": t}

    def bool_edges(self, block):
        """for a switch on a bool-like value: (true_target, false_target) taking Not into account,
        with respect to the *origin* value; None if not a two-way 0/otherwise switch."""
        t = self.body.blocks[block]["term"]
        if t["k"] != "switch" or len(t["targets"]) != 1:
            return None
        v, tgt = t["targets"][0]
        if int(v) != 0:
            return None
        false_t, true_t = tgt, t["otherwise"]
        info = self.switch_on(block)
        if info and info["neg"]:
            false_t, true_t = true_t, false_t
        return true_t, false_t

    def variant_edges(self, block, enum_adt=None):
        """for a switch over an enum discriminant: {variant_index: target, 'otherwise': target}"""
        t = self.body.blocks[block]["term"]
        if t["k"] != "switch":
            return None
        d = {int(v): tgt for v, tgt in t["targets"]}
        d["otherwise"] = t["otherwise"]
        return d

    def switches_testing_call(self, regex, receiver=None):
        """switch blocks whose tested value is the result of a call matching regex.
        returns list of (switch_block, CallSite, neg)"""
        out = []
        calls = {id(c.term): c for c in self.calls(regex, receiver)}
        for bi, b in enumerate(self.body.blocks):
            if b["cleanup"] or b["term"]["k"] != "switch":
                continue
            info = self.switch_on(bi)
            o = info["origin"] if info else None
            if o is None:
                continue
            if o.kind == "call" and id(o.call.term) in calls:
                out.append((bi, calls[id(o.call.term)], info["neg"]))
        return out

    # ------------------------------------------------------------------ returns
    def return_blocks(self):
        return [bi for bi, b in enumerate(self.body.blocks) if not b["cleanup"] and b["term"]["k"] == "return"]

    def result_writes(self):
        """assignments to the return place _0 classified: list of (block, kind, detail) with kind in
        'Ok','Err','residual' (from_residual call), 'call' (tail position call), 'other'."""
        out = []
        for d in self.defs.get(0, []):
            if d.kind == "assign":
                rv = d.rv
                if rv["k"] == "aggregate" and rv.get("agg") == "adt" and rv["adt"].endswith("::Result"):
                    out.append((d.block, rv["variant_name"], rv))
                elif rv["k"] == "aggregate" and rv.get("agg") == "adt" and rv["adt"].endswith("::Option"):
                    out.append((d.block, rv["variant_name"], rv))
                else:
                    out.append((d.block, "other", rv))
            elif d.kind == "call":
                c = d.call
                if re.search(r"FromResidual.*::from_residual", c.callee_path) or re.search(r"FromResidual.*::from_residual", c.decl_path):
                    out.append((d.block, "residual", c))
                else:
                    out.append((d.block, "call", c))
        return out


_qcache = {}


def q_of(body):
    k = id(body)
    if k not in _qcache:
        _qcache[k] = Q(body)
    return _qcache[k]
