"""Run the fact extractor (driver) over /repo's current working tree, with the real build's flags.

Facts are cached under /verif/.cache/facts/<sha256 of the sources + driver>/<config>/ ; a changed
tree hashes differently and is re-extracted.  cargo's freshness cache is defeated by deleting the
workspace members' fingerprints before every extraction, and extraction fails closed when a fact
file for an expected crate is missing.
"""
import hashlib, os, shutil, subprocess, sys, time, json, itertools

VERIF = os.path.dirname(os.path.dirname(os.path.abspath(__file__)))
REPO = os.environ.get("RUSTUN_REPO", "/repo")
CACHE = os.path.join(VERIF, ".cache")
DRIVER = os.path.join(CACHE, "driver-target", "release", "rustun-facts")
ALL_FEATURES = ["discovery", "experiments", "ice", "mobility", "turn"]


class ExtractError(Exception):
    pass


def _unlimit():
    """the address-space limit bin/verif puts on the analysis itself does not apply to the compiler"""
    import resource
    try:
        _s, hard = resource.getrlimit(resource.RLIMIT_AS)
        resource.setrlimit(resource.RLIMIT_AS, (hard, hard))
    except Exception:
        pass


def nightly_sysroot():
    return subprocess.check_output(["rustc", "+nightly", "--print", "sysroot"], text=True).strip()


def build_driver(force=False):
    env = dict(os.environ, CARGO_TARGET_DIR=os.path.join(CACHE, "driver-target"), CARGO_NET_OFFLINE="true")
    r = subprocess.run(["cargo", "+nightly", "build", "--release", "--offline"], preexec_fn=_unlimit,
                       cwd=os.path.join(VERIF, "driver"), env=env, stdout=subprocess.PIPE,
                       stderr=subprocess.STDOUT, text=True)
    if r.returncode != 0 or not os.path.exists(DRIVER):
        raise ExtractError("driver build failed:\n" + r.stdout[-4000:])
    return DRIVER


def ensure_driver():
    src_m = max(os.path.getmtime(os.path.join(VERIF, "driver", "src", f))
                for f in os.listdir(os.path.join(VERIF, "driver", "src")))
    if not os.path.exists(DRIVER) or os.path.getmtime(DRIVER) < src_m:
        build_driver()
    return DRIVER


def tree_hash(repo=None):
    repo = repo or REPO
    h = hashlib.sha256()
    files = []
    for root, dirs, fs in os.walk(repo):
        dirs[:] = sorted(d for d in dirs if d not in ("target", ".git"))
        for f in sorted(fs):
            if f.endswith(".rs") or f in ("Cargo.toml", "Cargo.lock"):
                files.append(os.path.join(root, f))
    for p in files:
        h.update(os.path.relpath(p, repo).encode())
        h.update(b"\0")
        with open(p, "rb") as fh:
            h.update(fh.read())
        h.update(b"\0")
    with open(ensure_driver(), "rb") as fh:
        h.update(hashlib.sha256(fh.read()).digest())
    return h.hexdigest()[:24]


# configuration name -> (cargo package args, feature list or None, expected crates, extra rustflags)
def config_spec(name):
    if name == "agent":
        return (["-p", "stun-rs", "-p", "stun-agent", "-p", "stun-vectors"], None,
                ["stun_rs", "stun_agent", "stun_vectors"], "")
    if name == "full":
        return (["-p", "stun-rs"], ALL_FEATURES, ["stun_rs"], "")
    if name == "full-nodebug":
        return (["-p", "stun-rs"], ALL_FEATURES, ["stun_rs"], " -Cdebug-assertions=off -Coverflow-checks=off")
    if name == "agent-nodebug":
        return (["-p", "stun-rs", "-p", "stun-agent"], None, ["stun_rs", "stun_agent"],
                " -Cdebug-assertions=off -Coverflow-checks=off")
    if name.startswith("feat-"):
        fs = [f for f in name[5:].split("+") if f]
        return (["-p", "stun-rs"], fs, ["stun_rs"], "")
    raise ExtractError("unknown config " + name)


def feature_subset_configs():
    out = []
    for r in range(len(ALL_FEATURES) + 1):
        for c in itertools.combinations(ALL_FEATURES, r):
            out.append("feat-" + "+".join(c))
    return out


def facts_dir(config, repo=None):
    return os.path.join(CACHE, "facts", tree_hash(repo), config)


def extract(config, repo=None, quiet=True):
    """returns the directory holding the fact files of `config` for the current tree."""
    repo = repo or REPO
    out = facts_dir(config, repo)
    pkgs, feats, expected, extra_flags = config_spec(config)
    marker = os.path.join(out, ".complete")

    def complete():
        return os.path.exists(marker) and all(os.path.exists(os.path.join(out, c + ".json")) for c in expected)

    def touch():
        # prune_cache() keeps what was used within the last hour: mark this tree's facts as in use (a long session that
        # analysed many scratch trees once pruned the facts of the tree a concurrent check was reading)
        try:
            os.utime(os.path.dirname(out), None)
        except OSError:
            pass
    if complete():
        touch()
        return out
    # VERIF_TARGET_DIR: a private cargo target directory (used by the parallel self-test workers; facts stay shared,
    # they are keyed by the hash of the analysed tree)
    tgt = os.path.join(os.environ.get("VERIF_TARGET_DIR") or os.path.join(CACHE, "target"), "nodebug" if "nodebug" in config else "dbg")
    os.makedirs(tgt, exist_ok=True)
    # the cargo target directory is shared by every check process: extractions are serialised with an exclusive
    # file lock (checks of several properties may run concurrently and must not disturb each other's build)
    import fcntl
    # two locks: the fact directory of this (tree, config) - processes with private target directories may still
    # analyse identical trees - and the cargo target directory
    os.makedirs(os.path.dirname(out), exist_ok=True)
    lock_out = open(out.rstrip("/") + ".lock", "w")
    fcntl.flock(lock_out, fcntl.LOCK_EX)
    lockf = open(os.path.join(tgt, ".verif-extract.lock"), "w")
    fcntl.flock(lockf, fcntl.LOCK_EX)
    try:
        if complete():          # another process extracted the same tree while we waited
            touch()
            return out
        r_ = _extract_locked(config, repo, out, tgt, pkgs, feats, expected, extra_flags, marker, quiet)
        touch()
        return r_
    finally:
        fcntl.flock(lockf, fcntl.LOCK_UN)
        lockf.close()
        fcntl.flock(lock_out, fcntl.LOCK_UN)
        lock_out.close()


def _extract_locked(config, repo, out, tgt, pkgs, feats, expected, extra_flags, marker, quiet):
    if os.path.exists(out):
        shutil.rmtree(out)
    os.makedirs(out)
    # defeat cargo's freshness cache for the workspace members
    fp = os.path.join(tgt, "debug", ".fingerprint")
    if os.path.isdir(fp):
        for d in os.listdir(fp):
            if d.startswith("stun-"):
                shutil.rmtree(os.path.join(fp, d), ignore_errors=True)
    env = dict(os.environ)
    env.update({
        "LD_LIBRARY_PATH": os.path.join(nightly_sysroot(), "lib") + ":" + env.get("LD_LIBRARY_PATH", ""),
        "RUSTFLAGS": "-Zmir-opt-level=0 -Awarnings" + extra_flags,
        "RUSTC_WORKSPACE_WRAPPER": ensure_driver(),
        "RUSTUN_FACTS_DIR": out,
        "CARGO_TARGET_DIR": tgt,
        "CARGO_NET_OFFLINE": "true",
    })
    cmd = ["cargo", "+nightly", "check", "--offline", "--lib"] + pkgs
    if feats is not None:
        cmd += ["--no-default-features"]
        if feats:
            cmd += ["--features", ",".join(feats)]
    t0 = time.time()
    r = subprocess.run(cmd, cwd=repo, env=env, stdout=subprocess.PIPE, stderr=subprocess.STDOUT, text=True, preexec_fn=_unlimit)
    if r.returncode != 0:
        raise ExtractError("cargo check failed for config %s:\n%s" % (config, r.stdout[-6000:]))
    missing = [c for c in expected if not os.path.exists(os.path.join(out, c + ".json"))]
    if missing:
        raise ExtractError("fact files missing for %s in config %s (driver not run?)\n%s"
                           % (missing, config, r.stdout[-2000:]))
    with open(marker, "w") as f:
        json.dump({"config": config, "wall_s": round(time.time() - t0, 2), "cmd": cmd}, f)
    if not quiet:
        print("extracted %s in %.1fs -> %s" % (config, time.time() - t0, out), file=sys.stderr)
    return out


def prune_cache(keep=12, min_age_s=3600):
    """drop old fact directories, never one that a concurrent check could still be reading"""
    base = os.path.join(CACHE, "facts")
    if not os.path.isdir(base):
        return
    now = time.time()
    ds = sorted((os.path.getmtime(os.path.join(base, d)), d) for d in os.listdir(base))
    for m, d in ds[:-keep]:
        if now - m > min_age_s:
            shutil.rmtree(os.path.join(base, d), ignore_errors=True)
