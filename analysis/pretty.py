"""Readable dump of a body's MIR facts (development aid and `verif explain`)."""
from .facts import place_str


def op_str(body, op):
    k = op["k"]
    if k in ("copy", "move"):
        return ("move " if k == "move" else "") + place_str(body, op["place"])
    if k == "const":
        if "fn" in op:
            return "fn:" + (op["fn"].get("rfull") or op["fn"]["full"])
        if "bits" in op:
            return "const %s%s" % (op.get("sval", op["bits"]), "_" + body.tystr(op["ty"]))
        if "str" in op:
            return "const %r" % op["str"]
        if "named" in op:
            return "const " + op["named"]
        return "const " + op.get("s", "?")
    return "?" + k


def rv_str(body, rv):
    k = rv["k"]
    if k == "use":
        return op_str(body, rv["op"])
    if k == "ref":
        return ("&mut " if rv["mut"] else "&") + place_str(body, rv["place"])
    if k == "rawptr":
        return "&raw " + place_str(body, rv["place"])
    if k == "cast":
        return "%s as %s (%s)" % (op_str(body, rv["op"]), body.tystr(rv["to"]), rv["cast"])
    if k == "binop":
        return "%s(%s, %s)" % (rv["op"], op_str(body, rv["a"]), op_str(body, rv["b"]))
    if k == "unop":
        return "%s(%s)" % (rv["op"], op_str(body, rv["a"]))
    if k == "discr":
        return "discriminant(%s)" % place_str(body, rv["place"])
    if k == "aggregate":
        ops = ", ".join(op_str(body, o) for o in rv["ops"])
        if rv["agg"] == "adt":
            return "%s::%s { %s }" % (rv["adt"], rv["variant_name"], ops)
        if rv["agg"] == "closure":
            return "closure %s [%s]" % (rv["closure"], ops)
        return "%s(%s)" % (rv["agg"], ops)
    if k == "repeat":
        return "[%s; %s]" % (op_str(body, rv["op"]), rv["n"])
    return rv.get("s", k)


def term_str(body, t):
    k = t["k"]
    if k == "goto":
        return "goto bb%d" % t["target"]
    if k == "switch":
        return "switch(%s) [%s, otherwise: bb%d]" % (
            op_str(body, t["discr"]), ", ".join("%s: bb%d" % (v, b) for v, b in t["targets"]), t["otherwise"])
    if k == "call":
        return "%s = %s(%s) -> %s%s" % (
            place_str(body, t["dest"]), op_str(body, t["func"]),
            ", ".join(op_str(body, a) for a in t["args"]),
            "bb%d" % t["target"] if t["target"] is not None else "!",
            " unwind bb%d" % t["unwind"] if t.get("unwind") is not None else "")
    if k == "drop":
        return "drop(%s) -> bb%d" % (place_str(body, t["place"]), t["target"])
    if k == "assert":
        return "assert(%s%s, %s(%s)) -> bb%d" % (
            "" if t["expected"] else "!", op_str(body, t["cond"]), t["msg"],
            ", ".join(op_str(body, o) for o in t["ops"]), t["target"])
    return k


def dump(body, cleanup=False):
    out = ["fn %s  [%s]  %s:%d" % (body.path, body.key, body.file, body.line)]
    for i, l in enumerate(body.locals):
        n = body.debug_name(i)
        out.append("  let _%d: %s%s" % (i, body.tystr(l["ty"]), "  // " + n if n else ""))
    for bi, b in enumerate(body.blocks):
        if b["cleanup"] and not cleanup:
            continue
        out.append(" bb%d%s:" % (bi, " (cleanup)" if b["cleanup"] else ""))
        for s in b["stmts"]:
            if s["k"] == "assign":
                out.append("    %s = %s    // L%s" % (place_str(body, s["place"]), rv_str(body, s["rv"]), s["line"]))
            elif s["k"] == "setdiscr":
                out.append("    discriminant(%s) = %d" % (place_str(body, s["place"]), s["variant"]))
            else:
                out.append("    " + s.get("s", s["k"]))
        out.append("    " + term_str(body, b["term"]) + "    // L%s" % b["term"]["line"])
    return "\n".join(out)
