"""E1: panic-site inventory over the call graph reachable from given entry points.

A *site* is (function, kind, detail): a MIR Assert terminator (bounds / overflow / division) or a
call whose resolved callee is in the reviewed may-panic table.  Reachability follows resolved
callees, fans out calls on type parameters / dyn to every workspace impl of the trait method,
follows closures from their creation site, reified function pointers and workspace Drop impls.
"""
import re
from .cfg import cfg_of

# ---- reviewed table: std / core / alloc callees that may panic (regex on the resolved path) -> kind
MAY_PANIC = [
    (r"^std::option::Option::<.*>::(unwrap|expect)$|^core::option::Option::<.*>::(unwrap|expect)$", "unwrap"),
    (r"^std::result::Result::<.*>::(unwrap|expect|unwrap_err|expect_err)$", "unwrap"),
    (r"^core::slice::index::<impl std::ops::Index<.*> for \[.*\]>::index$", "slice-index"),
    (r"^core::slice::index::<impl std::ops::IndexMut<.*> for \[.*\]>::index_mut$", "slice-index"),
    (r"^<std::vec::Vec<.*> as std::ops::Index<.*>>::index$|^<std::vec::Vec<.*> as std::ops::IndexMut<.*>>::index_mut$", "vec-index"),
    (r"^core::str::traits::<impl std::ops::Index<.*> for str>::index$|^core::str::traits::<impl std::ops::IndexMut<.*> for str>::index_mut$", "str-index"),
    (r"^<std::string::String as std::ops::Index<.*>>::index$", "str-index"),
    (r"^<std::collections::HashMap<.*> as std::ops::Index<.*>>::index$", "map-index"),
    (r"^core::slice::<impl \[.*\]>::(copy_from_slice|clone_from_slice|split_at|split_at_mut|swap|copy_within|chunks|chunks_exact|windows|rotate_left|rotate_right)$", "slice-op"),
    (r"^std::vec::Vec::<.*>::(remove|swap_remove|insert|drain|split_off|truncate_front)$", "vec-op"),
    (r"^core::str::<impl str>::(split_at|split_at_mut)$", "str-op"),
    (r"^std::string::String::(remove|insert|insert_str|drain|split_off|replace_range)$", "str-op"),
    (r"^<std::time::Instant as std::ops::(Add|Sub)<std::time::Duration>>::(add|sub)$", "time-arith"),
    (r"^<std::time::Instant as std::ops::(AddAssign|SubAssign)<std::time::Duration>>::", "time-arith"),
    (r"^<std::time::Duration as std::ops::(Add|Sub|Mul<u32>|Div<u32>|AddAssign|SubAssign|MulAssign<u32>|DivAssign<u32>)>::", "time-arith"),
    (r"^<u32 as std::ops::Mul<std::time::Duration>>::mul$", "time-arith"),
    (r"^std::time::Duration::(mul_f32|mul_f64|div_f32|div_f64|from_secs_f32|from_secs_f64|new)$", "time-arith"),
    (r"^core::panicking::|^std::rt::begin_panic|^std::rt::panic_fmt|^core::panicking::panic_fmt|^std::panicking::", "explicit-panic"),
    (r"^core::option::expect_failed|^core::result::unwrap_failed|^core::slice::index::slice_|^core::str::slice_error_fail", "explicit-panic"),
    (r"^std::sync::Arc::<.*>::(new_cyclic)$", "other"),
    (r"^std::cell::RefCell::<.*>::(borrow|borrow_mut)$", "refcell"),
    (r"^<byteorder::BigEndian as byteorder::ByteOrder>::(read|write)_(u16|u24|u32|u48|u64|u128|i16|i32|i64|uint|int)$", "byteorder"),
    (r"^<byteorder::LittleEndian as byteorder::ByteOrder>::(read|write)_", "byteorder"),
    (r"^std::iter::Iterator::step_by|^std::iter::Iterator::array_chunks", "other"),
]
MAY_PANIC = [(re.compile(r), k) for r, k in MAY_PANIC]

# third-party / std callees reviewed as non-panicking for every argument (or returning Result/Option)
# anything from a third-party crate that is neither here nor in MAY_PANIC fails closed.
THIRD_PARTY_SAFE = [
    r"^crc::", r"^<crc::", r"^hmac_sha1::", r"^hmac_sha256::", r"^md5::", r"^<md5::", r"^precis_", r"^<precis_",
    r"^quoted_string_parser::", r"^<quoted_string_parser::", r"^rand::", r"^<rand::", r"^rand_core::", r"^enumflags2::", r"^<enumflags2::",
    r"^bounded_integer::", r"^log::", r"^<log::", r"^lazy_static::", r"^<lazy_static::", r"^fallible_iterator::", r"^<.* as fallible_iterator::",
    r"^base64::", r"^<base64::", r"^<.* as base64::", r"^hostname_validator::", r"^byteorder::", r"^<byteorder::", r"^paste::",
]
THIRD_PARTY_SAFE = [re.compile(r) for r in THIRD_PARTY_SAFE]
STD_PREFIX = re.compile(r"^<?(&(mut )?)?(\[.*\] as |\(.*\) as )?(std|core|alloc)::|^<.* as (std|core|alloc)::|^<(u8|u16|u32|u64|u128|usize|i8|i16|i32|i64|isize|bool|char|str|f32|f64|\[|&|\()")


class Site:
    __slots__ = ("fn", "kind", "detail", "block", "line", "callee", "term")

    def __init__(self, fn, kind, detail, block, line, callee=None, term=None):
        self.fn = fn
        self.kind = kind
        self.detail = detail
        self.block = block
        self.line = line
        self.callee = callee
        self.term = term

    @property
    def key(self):
        return "%s|%s|%s" % (self.fn.path, self.kind, self.detail)

    def where(self):
        return "%s:%s" % (self.fn.file, self.line)


def panic_kind(path):
    for r, k in MAY_PANIC:
        if r.search(path):
            return k
    return None


def reachable(prog, entries, stop=()):
    """workspace bodies reachable from the entry bodies; returns (set of keys, parent map for paths,
    list of unresolved/indirect call sites seen, set of external callee paths)"""
    stop_rx = [re.compile(s) for s in stop]
    drop_impls = {}
    for im in prog.impls:
        if im.get("trait_name") in ("std::ops::Drop", "core::ops::Drop"):
            for it in im["items"]:
                if it["name"] == "drop" and it["key"] in prog.bodies:
                    drop_impls[im["types"][im["self_ty"]]["s"].split("<")[0]] = prog.bodies[it["key"]]
    seen = {}
    work = []
    for b in entries:
        seen[b.key] = None
        work.append(b)
    externals = {}
    indirect = []
    while work:
        b = work.pop()
        if any(r.search(b.path) for r in stop_rx):
            continue
        nxt = []
        for c in b.calls():
            if b.blocks[c.block]["cleanup"]:
                continue
            if c.fn is None:
                indirect.append(c)
                continue
            cands = prog.callees(c)
            if cands:
                nxt.extend(cands)
            else:
                externals.setdefault(c.callee_path, []).append(c)
                # closures / fn items passed as arguments to external higher-order functions
        # closures created here, fn items reified or passed by value
        for bi, blk in enumerate(b.blocks):
            if blk["cleanup"]:
                continue
            for s in blk["stmts"]:
                if s["k"] != "assign":
                    continue
                rv = s["rv"]
                if rv["k"] == "aggregate" and rv.get("agg") == "closure":
                    cb = prog.bodies.get(rv["closure"])
                    if cb is not None:
                        nxt.append(cb)
                ops = []
                if rv["k"] in ("use", "cast"):
                    ops.append(rv.get("op"))
                elif rv["k"] == "aggregate":
                    ops.extend(rv["ops"])
                for o in ops:
                    if isinstance(o, dict) and o["k"] == "const" and "fn" in o:
                        fnr = o["fn"]
                        k = fnr.get("rkey") if fnr.get("resolved") else fnr["key"]
                        if k in prog.bodies:
                            nxt.append(prog.bodies[k])
                        else:
                            nxt.extend(prog.impl_candidates(fnr["key"]))
            t = blk["term"]
            if t["k"] == "call":
                for a in t["args"]:
                    if a["k"] == "const" and "fn" in a:
                        fnr = a["fn"]
                        k = fnr.get("rkey") if fnr.get("resolved") else fnr["key"]
                        if k in prog.bodies:
                            nxt.append(prog.bodies[k])
                        else:
                            nxt.extend(prog.impl_candidates(fnr["key"]))
            elif t["k"] == "drop":
                tys = b.tystr(t["ty"])
                for name, db in drop_impls.items():
                    if name in tys:
                        nxt.append(db)
        for nb in nxt:
            if nb.key not in seen:
                seen[nb.key] = b.key
                work.append(nb)
    return seen, externals, indirect


def call_path(prog, seen, key):
    out = []
    guard = 0
    while key is not None and guard < 40:
        out.append(prog.bodies[key].path)
        key = seen.get(key)
        guard += 1
    return out[::-1]


def sites_of(body):
    """all potential panic sites of one body (non-cleanup blocks)."""
    out = []
    for bi, blk in enumerate(body.blocks):
        if blk["cleanup"]:
            continue
        t = blk["term"]
        if t["k"] == "assert":
            msg = t["msg"]
            if msg in ("MisalignedPointerDereference", "NullPointerDereference"):
                continue
            detail = msg + (":" + t["binop"] if "binop" in t else "")
            if msg == "Overflow" and t["ops"]:
                o = t["ops"][0]
                ty = None
                if o["k"] == "const":
                    ty = body.tystr(o["ty"])
                elif not o["place"]["p"]:
                    ty = body.tystr(body.locals[o["place"]["l"]]["ty"])
                elif o["place"]["p"][-1].get("ty") is not None:
                    ty = body.tystr(o["place"]["p"][-1]["ty"])
                detail += ":" + str(ty)
            out.append(Site(body, "assert", detail, bi, t["line"], term=t))
        elif t["k"] in ("call", "tailcall"):
            f = t["func"]
            if f["k"] == "const" and "fn" in f:
                fn = f["fn"]
                path = fn.get("rpath") if fn.get("resolved") else fn["full"]
                full = fn.get("rfull") or fn["full"]
                k = panic_kind(full) or panic_kind(path)
                if k is not None:
                    from .absint import strip_generics
                    out.append(Site(body, k, strip_generics(path), bi, t.get("fn_line", t["line"]), callee=full, term=t))
                if t.get("target") is None and k is None:
                    out.append(Site(body, "diverging-call", path, bi, t["line"], callee=full, term=t))
    return out


def unclassified_externals(externals):
    """external callee paths that are neither std/core/alloc nor reviewed third-party"""
    bad = []
    for p in externals:
        if STD_PREFIX.search(p):
            continue
        if any(r.search(p) for r in THIRD_PARTY_SAFE):
            continue
        if panic_kind(p):
            continue
        bad.append(p)
    return sorted(bad)
