"""Obligation bookkeeping, evidence and violation files, known findings."""
import json, os, time, sys

VERIF = os.path.dirname(os.path.dirname(os.path.abspath(__file__)))
OUT = os.environ.get("VERIF_OUT_DIR") or VERIF      # selftest runs redirect evidence / violations


def load_known_findings():
    """returns {(property, key): text} for 'finding:' lines only ('fixed:' lines suppress nothing)."""
    out = {}
    p = os.path.join(VERIF, "known_findings.txt")
    if not os.path.exists(p):
        return out
    for line in open(p):
        line = line.strip()
        if not line.startswith("finding:"):
            continue
        rest = line[len("finding:"):].strip()
        parts = rest.split(None, 2)
        prop = key = None
        for part in parts[:2]:
            if part.startswith("property="):
                prop = part[len("property="):]
            if part.startswith("key="):
                key = part[len("key="):]
        if prop and key:
            out[(prop, key)] = parts[2] if len(parts) > 2 else ""
    return out


class Ctx:
    """collects obligations for one property check run."""

    def __init__(self, prop, tier, seed=0):
        self.prop = prop
        self.tier = tier
        self.seed = seed
        self.t0 = time.time()
        self.obligations = []      # dicts: rule, key, ok, detail, where
        self.samples = []
        self.notes = {}
        self.functions = set()
        self.configs = []
        self.assumptions = []
        self.explanation = ""
        self.rules = {}            # rule id -> description
        self.extra = {}
        self._seen = set()

    # ---- recording
    def rule(self, rid, text):
        self.rules[rid] = text

    def ob(self, rule, key, ok, detail="", where=None, sample=None, replay=None):
        """one obligation = one rule instance. key: stable, no line numbers."""
        o = {"rule": rule, "key": "%s:%s" % (rule, key), "ok": bool(ok), "detail": detail}
        if (o["key"], o["ok"]) in self._seen:
            return ok
        self._seen.add((o["key"], o["ok"]))
        if where:
            o["where"] = where
        if replay is not None:
            o["replay"] = replay
        self.obligations.append(o)
        if sample is not None and len(self.samples) < 12:
            self.samples.append(sample)
        elif ok and len(self.samples) < 6:
            self.samples.append({"rule": rule, "instance": key, "verdict": "holds", "detail": detail[:300],
                                 "where": where})
        return ok

    def violation(self, rule, key, detail, where=None, replay=None):
        return self.ob(rule, key, False, detail, where, replay=replay)

    def anchor_missing(self, rule, what):
        return self.ob(rule, "anchor-missing:%s" % what, False,
                       "anchor missing (fail closed): %s" % what, replay={"kind": "anchor-missing", "name": what})

    def floor(self, rule, what, count, minimum):
        """fail closed when a rule matched fewer instances than were confirmed by hand."""
        ok = count >= minimum
        if os.environ.get("VERIF_FLOORS"):
            with open(os.environ["VERIF_FLOORS"], "a") as f:
                f.write("%s\t%s\t%s\t%d\t%d\n" % (self.prop if hasattr(self, "prop") else "?", rule, what, count, minimum))
        self.ob(rule, "floor:%s" % what, ok,
                "%s: matched %d instance(s), floor %d" % (what, count, minimum),
                replay=None if ok else {"kind": "floor", "what": what, "count": count, "floor": minimum})
        return ok

    def fn(self, body):
        self.functions.add(body.path)

    # ---- finishing
    def finish(self):
        known = load_known_findings()
        viol = []
        seen_keys = set()
        for o in self.obligations:
            if not o["ok"] and o["key"] not in seen_keys:
                seen_keys.add(o["key"])
                viol.append(o)
        new = []
        lines = []
        for o in viol:
            k = (self.prop, o["key"])
            if k in known:
                lines.append("KNOWN-FINDING: property=%s %s [%s]" % (self.prop, known[k], o["key"]))
            else:
                new.append(o)
        vdir = os.path.join(OUT, "violations")
        os.makedirs(vdir, exist_ok=True)
        # remove stale files of this property
        for f in os.listdir(vdir):
            if f.startswith(self.prop + "-"):
                os.remove(os.path.join(vdir, f))
        for i, o in enumerate(new):
            path = os.path.join(vdir, "%s-%d.json" % (self.prop, i + 1))
            with open(path, "w") as f:
                json.dump({"property": self.prop, "rule": o["rule"], "key": o["key"], "detail": o["detail"],
                           "where": o.get("where"), "replay": o.get("replay"),
                           "rule_text": self.rules.get(o["rule"], "")}, f, indent=1)
            lines.append("VIOLATION property=%s replay=%s" % (self.prop, path))
            lines.append("  rule %s: %s%s" % (o["key"], o["detail"], (" @ " + o["where"]) if o.get("where") else ""))
        wall = time.time() - self.t0
        distinct = len({o["key"] for o in self.obligations})
        ev = {
            "property_id": self.prop,
            "tier": self.tier,
            "seed": self.seed,
            "level": "other",
            "coverage": {
                "explanation": self.explanation,
                "obligations": len(self.obligations),
                "discharged": len([o for o in self.obligations if o["ok"]]),
                "evaluations": len(self.obligations),
                "distinct_nontrivial": distinct,
                "rule": "one obligation per (rule, instance): an instance is a function / call site / "
                        "path class / abstract state named by its key; distinct = distinct keys",
                "samples": self.samples[:12] or [{"note": "no instance recorded"}],
                "rules": self.rules,
                "obligations_per_rule": _count_by(self.obligations, "rule"),
                "functions_analysed": sorted(self.functions),
                "configs": self.configs,
                "known_findings_matched": len(viol) - len(new),
            },
            "assumptions": self.assumptions,
            "wall_s": round(wall, 3),
            "violations": len(new),
        }
        ev["coverage"].update(self.extra)
        os.makedirs(os.path.join(OUT, "evidence"), exist_ok=True)
        with open(os.path.join(OUT, "evidence", "%s.json" % self.prop), "w") as f:
            json.dump(ev, f, indent=1, sort_keys=True)
        for l in lines:
            print(l)
        print("%s [%s]: %d obligations, %d discharged, %d violation(s), %d known finding(s), %.1fs"
              % (self.prop, self.tier, len(self.obligations), ev["coverage"]["discharged"], len(new),
                 len(viol) - len(new), wall))
        return 1 if new else 0


def _count_by(obs, k):
    d = {}
    for o in obs:
        d[o[k]] = d.get(o[k], 0) + 1
    return d
