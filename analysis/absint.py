"""E2: a path-sensitive abstract interpreter over MIR facts.

It is *not* an executor of rustun code: no byte, string, MAC or instant is ever concrete.  Values are
constants folded from the program text, structural aggregates, references (place handles) and
symbolic atoms with a finite domain (a bool, the variant of a small enum, "an attribute of kind k",
the predicate "MAC verifies").  The state forks where a branch depends on an undetermined atom and
is explored exhaustively; loops are explored until the abstract store repeats (finite domains) so a
`for` over an abstract sequence covers sequences of every length.  Every path carries an ordered
effect log (calls that are not stepped into, writes below the entry objects, pushes); rules are
predicates over (choices made, effect log, returned value).

Soundness notes are in DESIGN.md section 2/E2 and section 3 (trusted base: the callee models).
"""
import re
from .facts import AnchorMissing

# --------------------------------------------------------------------------------------------
# values (immutable, hashable)


class V:
    __slots__ = ()


class Const(V):
    __slots__ = ("v", "ty")

    def __init__(self, v, ty=None):
        self.v = v
        self.ty = ty

    def key(self):
        return ("c", self.v)

    def __repr__(self):
        return "Const(%r)" % (self.v,)


class Top(V):
    """unknown value; label = provenance (deterministic: derived from the site that produced it)."""
    __slots__ = ("label", "ty")

    def __init__(self, label="?", ty=None):
        self.label = label
        self.ty = ty

    def key(self):
        return ("t", self.label)

    def __repr__(self):
        return "Top(%s)" % (self.label,)


class Sym(V):
    """finite-domain atom, bound lazily in State.bind when a branch depends on it."""
    __slots__ = ("name", "dom")

    def __init__(self, name, dom=(0, 1)):
        self.name = name
        self.dom = tuple(dom)

    def key(self):
        return ("s", self.name)

    def __repr__(self):
        return "Sym(%s)" % (self.name,)


class Adt(V):
    """struct / tuple / enum variant / closure / array with known shape."""
    __slots__ = ("name", "variant", "fields", "vname")

    def __init__(self, name, variant, fields, vname=None):
        self.name = name
        self.variant = variant
        self.fields = tuple(fields)
        self.vname = vname

    def key(self):
        return ("a", self.name, self.variant, tuple(f.key() for f in self.fields))

    def __repr__(self):
        return "%s::%s(%s)" % (self.name.split("::")[-1], self.vname if self.vname is not None else self.variant,
                               ", ".join(repr(f) for f in self.fields))


class Ref(V):
    __slots__ = ("addr", "path", "mut")

    def __init__(self, addr, path=(), mut=False):
        self.addr = addr
        self.path = tuple(path)
        self.mut = mut

    def key(self):
        return ("r", self.addr, self.path)

    def __repr__(self):
        return "Ref(%s%s)" % (self.addr, "".join(".%s" % (p,) for p in self.path))


class FnV(V):
    __slots__ = ("fn",)

    def __init__(self, fn):
        self.fn = fn

    def key(self):
        return ("f", self.fn.get("rkey") or self.fn["key"])

    def __repr__(self):
        return "Fn(%s)" % (self.fn.get("rpath") or self.fn["path"])


UNIT = Adt("()", 0, ())


class TyRef:
    """a type of some crate's type table (strings alone lose the payload types of generics)."""
    __slots__ = ("types", "ix")

    def __init__(self, types, ix):
        self.types = types
        self.ix = ix

    @property
    def rec(self):
        return self.types[self.ix]

    @property
    def s(self):
        return self.types[self.ix]["s"]

    def arg(self, i):
        a = self.rec.get("args") or []
        if i < len(a) and isinstance(a[i], int):
            return TyRef(self.types, a[i])
        return None

    def pointee(self):
        r = self.rec
        if r.get("k") in ("ref", "ptr"):
            return TyRef(self.types, r["to"])
        return None

    def __str__(self):
        return self.s


_ADTS = {}


def _field_ty(tyref, i):
    """type of field i of a struct-typed TyRef (first variant), using the registered ADT facts."""
    adt = _ADTS.get(adt_base_name(tyref.s))
    if adt is None or adt["kind"] != "struct":
        return None
    fs = adt["variants"][0]["fields"]
    if i < len(fs) and "ty" in fs[i]:
        t = TyRef(adt["types"], fs[i]["ty"])
        if t.rec.get("k") != "param":
            return t
    return None


def _field_name(tyref, i):
    adt = _ADTS.get(adt_base_name(tyref.s))
    if adt is None or adt["kind"] != "struct" or not isinstance(i, int):
        return i
    fs = adt["variants"][0]["fields"]
    return fs[i]["name"] if i < len(fs) else i


def ty_s(ty):
    if ty is None:
        return None
    return ty.s if isinstance(ty, TyRef) else ty



def is_const(v, x=None):
    return isinstance(v, Const) and (x is None or v.v == x)


# --------------------------------------------------------------------------------------------
# state


class State:
    __slots__ = ("heap", "log", "choices", "bind", "counter", "flags", "memo")

    def __init__(self):
        self.heap = {}
        self.log = ()
        self.choices = ()
        self.bind = {}
        self.counter = 0
        self.flags = ()
        self.memo = frozenset()

    def fork(self):
        s = State()
        s.heap = dict(self.heap)
        s.log = self.log
        s.choices = self.choices
        s.bind = dict(self.bind)
        s.counter = self.counter
        s.flags = self.flags
        s.memo = self.memo
        return s

    def effect(self, e):
        self.log = self.log + (e,)

    def choose(self, name, value):
        self.choices = self.choices + ((name, value),)
        self.log = self.log + (("choice", name, value),)

    def choice(self, name, default=None):
        for n, v in self.choices:
            if n == name:
                return v
        return default

    def flag(self, f):
        if f not in self.flags:
            self.flags = self.flags + (f,)

    def unbind_label(self, label):
        """a value with this label is (re)created: decisions taken about an earlier instance (variant
        splits, lazily allocated pointees) no longer apply."""
        pre = "v:" + label
        for k in [k for k in self.bind if isinstance(k, str) and k.startswith(pre)]:
            del self.bind[k]
        obj = "obj:" + label
        for a in [a for a in self.heap if isinstance(a, str) and a.startswith(obj)]:
            del self.heap[a]


class Infeasible(Exception):
    pass


class Frame:
    __slots__ = ("id", "body", "depth", "ctx", "cparams")

    def __init__(self, fid, body, depth, ctx=None, cparams=None):
        self.id = fid
        self.body = body
        self.depth = depth
        self.ctx = ctx          # call-site context of an inlined new helper: keeps the labels of two activations apart
        self.cparams = cparams  # values of the callee's const generic parameters at this call (`f::<16>(..)`), when known


class Outcome:
    """one explored path of a function activation."""
    __slots__ = ("ret", "st")

    def __init__(self, ret, st):
        self.ret = ret
        self.st = st


class Budget(Exception):
    pass


# --------------------------------------------------------------------------------------------


def strip_generics(path):
    """remove every balanced <...> group that is a generic argument list ('::<..>' or 'Name<..>'),
    keeping a leading '<T as Trait>' qualified-self."""
    out = []
    depth = 0
    i = 0
    n = len(path)
    while i < n:
        c = path[i]
        if c == "<":
            if depth == 0 and i == 0:
                # qualified self: keep its text (without nested generics)
                j, d = i, 0
                while j < n:
                    if path[j] == "<":
                        d += 1
                    elif path[j] == ">":
                        d -= 1
                        if d == 0:
                            break
                    j += 1
                inner = path[1:j]
                out.append("<" + strip_generics(inner) + ">")
                i = j + 1
                continue
            depth += 1
            if depth == 1 and out and out[-1] == ":" and len(out) > 1 and out[-2] == ":":
                out.pop()
                out.pop()
        elif c == ">" and depth > 0 and not (i > 0 and path[i - 1] == "-"):
            depth -= 1
        elif depth == 0:
            out.append(c)
        i += 1
    return "".join(out)


def last_segment(path):
    return strip_generics(path).split("::")[-1]


def adt_base_name(tystr):
    """'std::option::Option<&T>' -> 'std::option::Option'"""
    s = tystr
    while s.startswith("&"):
        s = s[1:].lstrip()
        if s.startswith("mut "):
            s = s[4:]
    i = s.find("<")
    return s if i < 0 else s[:i]


_KNOWN = None


def _known_functions():
    global _KNOWN
    if _KNOWN is None:
        import json, os
        p = os.path.join(os.path.dirname(os.path.dirname(os.path.abspath(__file__))), "anchors", "known_functions.json")
        try:
            _KNOWN = set(json.load(open(p))["functions"])
        except Exception:
            _KNOWN = set()
    return _KNOWN


def owning_functions(prog, body, depth=0):
    """the reference-tree functions a piece of code belongs to, for who-may-call rules: a closure belongs to the function
    that defines it; a non-public helper introduced by a refactoring belongs to its callers"""
    path = re.sub(r"(::\{closure#\d+\})+$", "", body.path)
    known = _known_functions()
    if not known or path in known or depth > 4:
        return {path}
    fb = next((b for b in prog.bodies.values() if b.path == path), None)
    if fb is None or fb.is_public:
        return {path}
    out = set()
    for cb in prog.bodies.values():
        if cb.key != fb.key and any(x.key == fb.key for cs in cb.calls() for x in prog.callees(cs)):
            out |= owning_functions(prog, cb, depth + 1)
    return out or {path}


def with_new_helpers(prog, body):
    """[body] + the workspace functions introduced by a refactoring (not in anchors/known_functions.json) that it
    reaches through resolved calls: a syntactic rule about `body` has to look into them as well"""
    known = _known_functions()
    out = [body]
    seen = {body.key}
    work = [body]
    while work and known:
        b = work.pop()
        for cs in b.calls():
            for cb in prog.callees(cs):
                if cb.key not in seen and cb.crate in ("stun_rs", "stun_agent") and cb.path not in known:
                    seen.add(cb.key)
                    out.append(cb)
                    work.append(cb)
    return out


PURE_CALLEES = [
    r"IndexMut<.*> for \[.*\]>::index_mut$", r"Index<.*> for \[.*\]>::index$",
    r"slice::<impl \[.*\]>::(split_at_mut|split_at|iter_mut|iter|len|is_empty|as_mut_ptr|as_ptr|first|last|get|get_mut)$",
    r"as std::ops::DerefMut>::deref_mut$", r"as std::ops::Deref>::deref$",
    r"AttributeEncoderContext::<'_>::(raw_value_mut|raw_value|encoded_message|context)$",
    r"std::option::Option::<.*>::as_mut$", r"as std::convert::AsMut<.*>>::as_mut$",
    r"Vec::<.*>::(len|is_empty|as_slice|as_mut_slice|iter|iter_mut|capacity)$",
    r"HashMap::<.*>::(len|is_empty|contains_key|get)$", r"HashSet::<.*>::(len|is_empty|contains)$",
    r"BinaryHeap::<.*>::(peek|len|is_empty)$",
]


class Interp:
    def __init__(self, prog, models=None, opaque=(), max_depth=10, max_paths=200000, loop_bound=4000,
                 trace_effects=None, step_only=None):
        self.prog = prog
        _ADTS.update(prog.adts_by_name)
        self.models = list(models or [])
        self.opaque = [re.compile(p) for p in opaque]     # callee paths never stepped into
        self.max_depth = max_depth
        self.max_paths = max_paths
        self.loop_bound = loop_bound
        self.frame_counter = 0
        self.paths = 0
        self.unmodelled = {}          # callee path -> count (external calls treated as havoc)
        self.stepped = set()          # workspace functions stepped into
        self.bounded = False          # a loop bound was hit (result not exhaustive)
        self.writes_of_interest = None
        self._model_cache = {}
        self.key_log = None
        self._loop_heads = {}
        self.step_only = [re.compile(p) for p in step_only] if step_only is not None else None
        # callees that only derive references / read through their `&mut` arguments (no havoc)
        self.pure = [re.compile(p) for p in PURE_CALLEES]
        self.memo_shared = False
        self.log_asserts = False
        self.concrete_iters = False
        self.choice_effects = False

    # ------------------------------------------------------------------ heap helpers
    def alloc(self, st, value, label=None):
        st.counter += 1
        addr = label if label is not None else ("h", st.counter)
        st.heap[addr] = value
        return addr

    @staticmethod
    def get_at(value, path):
        v = value
        for p in path:
            if isinstance(v, Adt):
                if isinstance(p, tuple):       # downcast marker ('dc', variant)
                    if v.variant != p[1]:
                        raise Infeasible()
                    continue
                if p < len(v.fields):
                    v = v.fields[p]
                else:
                    return Top("oob")
            elif isinstance(v, Top):
                if isinstance(p, tuple):
                    continue
                fty = None
                if isinstance(v.ty, TyRef):
                    r = v.ty.rec
                    if r.get("k") == "tuple" and isinstance(p, int) and p < len(r["of"]):
                        fty = TyRef(v.ty.types, r["of"][p])
                    elif r.get("k") == "adt" and isinstance(p, int):
                        fty = _field_ty(v.ty, p)
                pn = _field_name(v.ty, p) if isinstance(v.ty, TyRef) else p
                if fty is not None and fty.s == "bool":
                    return Sym("%s.%s" % (v.label, pn))
                v = Top("%s.%s" % (v.label, pn), fty)
                continue
            else:
                return Top("proj")
        return v

    @staticmethod
    def set_at(value, path, new):
        if not path:
            return new
        p = path[0]
        if isinstance(p, tuple):
            if isinstance(value, Adt) and value.variant != p[1]:
                raise Infeasible()
            return Interp.set_at(value, path[1:], new)
        if isinstance(value, Adt) and p < len(value.fields):
            fs = list(value.fields)
            fs[p] = Interp.set_at(fs[p], path[1:], new)
            return Adt(value.name, value.variant, fs, value.vname)
        # weak update into an unknown aggregate: stays unknown
        return value

    # ------------------------------------------------------------------ symbolic construction
    def materialize(self, ty, label, variant=None, depth=0):
        """an Adt value of the given type (TyRef or type string) with unknown fields (Top, or Sym for
        bools), using the ADT facts; for enums a variant index must be given."""
        tystr = ty_s(ty)
        if tystr is None:
            return None
        name = adt_base_name(tystr)
        adt = self.prog.adts_by_name.get(name)
        if adt is None:
            return None
        vix = variant if variant is not None else 0
        if vix >= len(adt["variants"]):
            return None
        var = adt["variants"][vix]
        fields = []
        for i, f in enumerate(var["fields"]):
            fl = "%s.%s" % (label, f["name"])
            # the payload of an Option / Result is named the same way whether it is reached by a `match` (downcast)
            # or through a modelled combinator / `?` (models.opt_cases, res_cases)
            if name == "std::option::Option" and vix == 1:
                fl = "%s.some" % label
            elif name == "std::result::Result":
                fl = "%s.%s" % (label, "ok" if vix == 0 else "err")
            fty = None
            if "ty" in f:
                fty = TyRef(adt["types"], f["ty"])
                if fty.rec.get("k") == "param" and isinstance(ty, TyRef):
                    fty = self.generic_payload(ty, name, vix, i) or fty
            elif isinstance(ty, TyRef):
                fty = self.generic_payload(ty, name, vix, i)
            fields.append(self.symbolic(fty, fl, depth + 1))
        return Adt(name, vix, fields, var["name"])

    @staticmethod
    def generic_payload(ty, name, vix, i):
        if i != 0:
            return None
        if name == "std::option::Option" and vix == 1:
            return ty.arg(0)
        if name == "std::result::Result":
            return ty.arg(vix)
        if name == "std::ops::ControlFlow":
            return ty.arg(1 - vix)
        return None

    def symbolic(self, ty, label, depth=0):
        if ty_s(ty) == "bool":
            return Sym(label, (0, 1))
        return Top(label, ty)

    def variants_of(self, ty):
        tystr = ty_s(ty)
        if tystr is None:
            return None
        adt = self.prog.adts_by_name.get(adt_base_name(tystr))
        if adt is None or adt["kind"] != "enum":
            return None
        return adt["variants"]

    # ------------------------------------------------------------------ places
    def resolve(self, frame, place, st):
        """-> (addr, path) of a place, or None when it goes through an unknown pointer."""
        addr = (frame.id, place["l"])
        path = ()
        for e in place["p"]:
            k = e["k"]
            if k == "deref":
                v = self.get_at(st.heap.get(addr, Top("uninit")), path)
                v = self.concretize(v, st)
                if isinstance(v, Ref):
                    addr, path = v.addr, v.path
                elif isinstance(v, Top) and not str(v.label).startswith(("uninit", "deref-unknown", "havoc")):
                    # unknown pointer: allocate its pointee lazily (named by the pointer's label) and
                    # remember the link in place, so later accesses see the same object
                    cell = "obj:%s" % v.label
                    pty = v.ty.pointee() if isinstance(v.ty, TyRef) else None
                    if cell not in st.heap:
                        st.heap[cell] = self.symbolic(pty, str(v.label) + ".*")
                    r = Ref(cell, (), True)
                    base = st.heap.get(addr)
                    if base is not None:
                        try:
                            st.heap[addr] = self.set_at(base, path, r)
                        except Infeasible:
                            pass
                    addr, path = cell, ()
                else:
                    return None
            elif k == "field":
                path = path + (e["i"],)
            elif k == "downcast":
                path = path + (("dc", e["variant"]),)
            elif k == "index":
                iv = self.concretize(st.heap.get((frame.id, e["local"]), Top("?")), st)
                path = path + ("[%d]" % iv.v if isinstance(iv, Const) and isinstance(iv.v, int) else "[]",)
            elif k == "constindex":
                path = path + ("[%s%d]" % ("-" if e.get("from_end") else "", e["offset"]),)
            elif k == "subslice":
                path = path + ("[]",)
            else:
                pass
        return addr, path

    def read_place(self, frame, place, st):
        r = self.resolve(frame, place, st)
        if r is None:
            return Top("deref-unknown")
        addr, path = r
        return self.read_at(addr, path, st)

    def write_at(self, addr, path, value, st):
        """store through a resolved location (models of `op_assign(&mut x, y)`): element writes are logged like write_place's"""
        if any(isinstance(p, str) and p.startswith("[") for p in path):
            st.effect(("write-elem", self.addr_label(addr), self.path_names(st, addr, path), self.abstract(value, st)))
            return
        base = st.heap.get(addr, Top("uninit"))
        st.heap[addr] = self.set_at(base, path, value)
        if self.is_tracked(addr):
            st.effect(("write", self.addr_label(addr), self.path_names(st, addr, path), self.abstract(value, st)))

    def read_at(self, addr, path, st):
        base = st.heap.get(addr)
        if base is None:
            return Top("uninit:%s" % (addr,))
        ix = [i for i, p in enumerate(path) if isinstance(p, str) and p.startswith("[")]
        if ix:
            try:
                cont = self.get_at(base, path[:ix[0]])
            except Infeasible:
                cont = None
            m = re.match(r"\[(\d+)\]$", path[ix[0]])
            if isinstance(cont, Adt) and cont.name == "array" and m and int(m.group(1)) < len(cont.fields):
                try:
                    return self.get_at(cont.fields[int(m.group(1))], path[ix[0] + 1:])     # element of an array literal
                except Infeasible:
                    pass
            lab = cont.label if isinstance(cont, Top) else (addr if isinstance(addr, str) else "elem")
            return Top("%s%s" % (lab, path[ix[0]]) if path[ix[0]] != "[]" else "elem")
        return self.get_at(base, path)

    def write_place(self, frame, place, value, st):
        r = self.resolve(frame, place, st)
        if r is None:
            st.effect(("write-unknown-pointer", frame.body.path))
            return
        addr, path = r
        if any(isinstance(p, str) and p.startswith("[") for p in path):
            st.effect(("write-elem", self.addr_label(addr), self.path_names(st, addr, path), self.abstract(value, st)))
            return
        base = st.heap.get(addr, Top("uninit"))
        # materialise an unknown aggregate when a field of it is written
        if path and isinstance(self.get_at_safe(base, path[:-1]), Top):
            base = self.materialize_along(frame, place, base, path, st)
        st.heap[addr] = self.set_at(base, path, value)
        if self.is_tracked(addr):
            st.effect(("write", self.addr_label(addr), self.path_names(st, addr, path), self.abstract(value, st)))

    def get_at_safe(self, base, path):
        try:
            return self.get_at(base, path)
        except Infeasible:
            return Top("infeasible")

    def materialize_along(self, frame, place, base, path, st):
        """turn Top prefixes of `path` into Adt shells so a field write is kept (needs type names,
        taken from the Top's own type annotation)."""
        cur_path = ()
        for p in path[:-1] if path else ():
            v = self.get_at_safe(base, cur_path)
            if isinstance(v, Top) and v.ty:
                m = self.materialize(v.ty, v.label, None)
                if m is not None and self.variants_of(v.ty) is None:
                    base = self.set_at(base, cur_path, m)
            cur_path = cur_path + (p,)
        v = self.get_at_safe(base, cur_path)
        if isinstance(v, Top) and v.ty and self.variants_of(v.ty) is None:
            m = self.materialize(v.ty, v.label, None)
            if m is not None:
                base = self.set_at(base, cur_path, m)
        return base

    def is_tracked(self, addr):
        return isinstance(addr, str)

    def addr_label(self, addr):
        return addr if isinstance(addr, str) else "tmp"

    def path_names(self, st, addr, path):
        """field names along a path (for effect logs)."""
        names = []
        v = st.heap.get(addr)
        for p in path:
            if isinstance(p, tuple):
                continue
            if isinstance(p, str) and p.startswith("["):
                names.append(p)
                v = None
                continue
            nm = str(p)
            if isinstance(v, Adt):
                adt = self.prog.adts_by_name.get(v.name)
                if adt is not None and v.variant < len(adt["variants"]):
                    fs = adt["variants"][v.variant]["fields"]
                    if p < len(fs):
                        nm = fs[p]["name"]
                v = v.fields[p] if p < len(v.fields) else None
            elif isinstance(v, Top) and isinstance(v.ty, TyRef):
                nm = str(_field_name(v.ty, p))
                ft = _field_ty(v.ty, p) if isinstance(p, int) else None
                v = Top("?", ft) if ft is not None else None
            else:
                v = None
            names.append(nm)
        return tuple(names)

    # ------------------------------------------------------------------ evaluation
    def concretize(self, v, st):
        if isinstance(v, Sym) and v.name in st.bind:
            return Const(st.bind[v.name])
        return v

    def operand(self, frame, op, st):
        k = op["k"]
        if k in ("copy", "move"):
            return self.concretize(self.read_place(frame, op["place"], st), st)
        if k == "const":
            if "fn" in op:
                return FnV(op["fn"])
            if "fval" in op:
                return Const(float(op["fval"]), frame.body.tystr(op["ty"]))
            if "bits" in op:
                v = int(op["sval"]) if "sval" in op else int(op["bits"])
                return Const(v, frame.body.tystr(op["ty"]))
            if "promoted" in op:
                return self.eval_promoted(frame, op, st)
            tys = frame.body.tystr(op["ty"])
            if tys == "()":
                return UNIT
            if "str" in op:
                return Const(op["str"], "&str")
            if "named" in op:
                v = self.eval_named_const(frame, op["named"], st)
                if v is not None:
                    return v
            if "named" not in op and "s" not in op and frame.cparams and len(frame.cparams) == 1 and \
                    tys in ("usize", "u8", "u16", "u32", "u64", "u128", "isize", "i8", "i16", "i32", "i64"):
                # an unevaluated integer constant of a function with a single const generic parameter is that parameter
                return Const(frame.cparams[0], tys)
            return Top("const:%s" % (op.get("named") or op.get("s", "?"))[:60], tys)
        return Top("operand")

    def eval_named_const(self, frame, name, st):
        """a named workspace constant (`const X: T = ...`) is evaluated from its own MIR body (straight-line,
        const fn calls kept as symbolic nodes) so that `X` and its inlined initialiser give the same value."""
        cands = [b for b in self.prog.by_path.get(name, []) if b.kind.startswith(("Const", "AssocConst")) and b.arg_count == 0]
        if len(cands) != 1:
            return None
        v = self._eval_straight(frame, ("c", cands[0].key, 0), cands[0], st)
        if isinstance(v, Top) and v.label == "promoted":
            return None
        return v

    def eval_promoted(self, frame, op, st):
        """evaluate a promoted constant body (straight-line) in a scratch frame; returns its _0."""
        owner = self.prog.bodies.get(op["promoted_of"])
        if owner is None:
            return Top("promoted")
        proms = owner.raw.get("promoted", [])
        ix = op["promoted"]
        if ix >= len(proms):
            return Top("promoted")
        pb = proms[ix]
        pbody = _PromotedBody(owner, pb)
        return self._eval_straight(frame, ("p", owner.key, ix), pbody, st)

    def _eval_straight(self, frame, fid, pbody, st):
        self.frame_counter += 1
        f = Frame(fid, pbody, frame.depth + 1)
        bi = 0
        guard = 0
        while guard < 50:
            guard += 1
            b = pbody.blocks[bi]
            for s in b["stmts"]:
                if s["k"] == "assign":
                    try:
                        val = self.rvalue(f, s["rv"], st)
                    except _Fork:
                        val = Top("promoted-fork")
                    self.write_place(f, s["place"], val, st)
            t = b["term"]
            if t["k"] == "goto":
                bi = t["target"]
                continue
            if t["k"] == "call" and t.get("target") is not None:
                # const fn call inside a promoted constant: keep it as a symbolic node fn(args)
                fo = t["func"]
                # named like a logged runtime call (client.short) so that both forms compare equal
                if fo.get("k") == "const" and "fn" in fo:
                    segs = [x for x in strip_generics(fo["fn"].get("rpath") or fo["fn"]["path"]).split("::") if x]
                    name = "::".join(segs[-2:])
                else:
                    name = "?"
                argv = [self.operand(f, a, st) for a in t["args"]]
                self.write_place(f, t["dest"], Adt("fn:" + name, 0, argv), st)
                bi = t["target"]
                continue
            break
        return st.heap.get((f.id, 0), Top("promoted"))

    def rvalue(self, frame, rv, st):
        k = rv["k"]
        if k == "use":
            return self.operand(frame, rv["op"], st)
        if k in ("ref", "rawptr"):
            r = self.resolve(frame, rv["place"], st)
            if r is None:
                return Top("ref-unknown")
            return Ref(r[0], r[1], rv.get("mut", False))
        if k == "aggregate":
            ops = [self.operand(frame, o, st) for o in rv["ops"]]
            agg = rv["agg"]
            if agg == "adt":
                return Adt(rv["adt"], rv["variant"], ops, rv["variant_name"])
            if agg == "closure":
                return Adt("closure:" + rv["closure"], 0, ops)
            if agg == "tuple":
                return Adt("tuple", 0, ops) if ops else UNIT
            return Adt(agg, 0, ops)
        if k == "discr":
            return self.discriminant(frame, rv, st)
        if k == "cast":
            v = self.operand(frame, rv["op"], st)
            ck = rv["cast"]
            if ck == "IntToInt" and isinstance(v, Const) and isinstance(v.v, int):
                to = frame.body.ty(rv["to"])
                if to.get("k") == "int" and not to.get("signed"):
                    return Const(v.v & ((1 << to["bits"]) - 1), to["s"])
                return Const(v.v, to["s"])
            if ck == "IntToFloat" and isinstance(v, Const) and isinstance(v.v, int):
                return Const(float(v.v), frame.body.tystr(rv["to"]))
            if ck.startswith("PointerCoercion") or ck in ("PtrToPtr", "Transmute"):
                return v
            if ck in ("IntToInt", "IntToFloat", "FloatToFloat") and isinstance(v, (Top, Sym, Adt)):
                return v        # numeric conversion of an unknown: keep its provenance
            return Top("cast") if not isinstance(v, (Sym,)) else v
        if k == "binop":
            a = self.operand(frame, rv["a"], st)
            b = self.operand(frame, rv["b"], st)
            return self.binop(frame, rv, a, b, st)
        if k == "unop":
            a = self.operand(frame, rv["a"], st)
            if rv["op"] == "Not":
                if isinstance(a, Const) and isinstance(a.v, int):
                    tys = frame.body.tystr(rv["ty"])
                    if tys == "bool":
                        return Const(0 if a.v else 1, "bool")
                    return Top("not")
                if isinstance(a, Sym) and a.dom == (0, 1):
                    return Adt("!", 0, (a,))        # negated atom
                if isinstance(a, Adt) and a.name == "!":
                    return a.fields[0]
                return Top("not")
            if rv["op"] == "PtrMetadata" and (isinstance(a, Ref) or (isinstance(a, Top) and a.label not in ("unop", "cast", "arith"))):
                # the length of the slice behind a reference: same node as a logged `slice::len(&s)` call
                return Adt("fn:slice::len", 0, (a,))
            return Top("unop")
        if k == "repeat":
            n = rv.get("n")
            if n is None and frame.cparams and len(frame.cparams) == 1:
                n = frame.cparams[0]            # `[0u8; N]` in a function generic over N
            if isinstance(n, int) and 0 < n <= 64 and self.concrete_iters:
                e = self.operand(frame, rv["op"], st)
                return Adt("array", 0, tuple(e for _ in range(n)))      # small literal arrays keep their length
            return Top("array")
        return Top("rv:" + k)

    def binop(self, frame, rv, a, b, st):
        op = rv["op"]
        if isinstance(a, Const) and isinstance(b, Const) and isinstance(a.v, float) and isinstance(b.v, float) \
                and op in ("Add", "Sub", "Mul"):
            import struct
            r = {"Add": a.v + b.v, "Sub": a.v - b.v, "Mul": a.v * b.v}[op]
            if "f32" in str(a.ty):
                r = struct.unpack("f", struct.pack("f", r))[0]
            return Const(r, a.ty)
        if isinstance(a, Const) and isinstance(b, Const) and isinstance(a.v, int) and isinstance(b.v, int) \
                and not isinstance(a.v, bool):
            x, y = a.v, b.v
            cmpops = {"Eq": x == y, "Ne": x != y, "Lt": x < y, "Le": x <= y, "Gt": x > y, "Ge": x >= y}
            if op in cmpops:
                return Const(1 if cmpops[op] else 0, "bool")
            tys = frame.body.ty(rv["ty"]) if "ty" in rv else {}
            res = None
            base = op.replace("WithOverflow", "").replace("Unchecked", "")
            if base == "Add":
                res = x + y
            elif base == "Sub":
                res = x - y
            elif base == "Mul":
                res = x * y
            elif base == "BitAnd":
                res = x & y
            elif base == "BitOr":
                res = x | y
            elif base == "BitXor":
                res = x ^ y
            elif base == "Shl":
                res = x << y
            elif base == "Shr":
                res = x >> y
            if res is not None:
                if op.endswith("WithOverflow"):
                    return Adt("tuple", 0, (Const(res), Const(0, "bool")))
                return Const(res)
        if op in ("Eq", "Ne", "Lt", "Le", "Gt", "Ge"):
            # equality of identical atoms / disequality of distinct constants is decided; else an atom
            if op in ("Eq", "Ne") and a.key() == b.key() and not isinstance(a, Top):
                return Const(1 if op == "Eq" else 0, "bool")
            nm = "cmp:%s:%s:%s" % (op, self.short(a), self.short(b))
            st.effect(("cmp", nm, op, self.abstract(a, st), self.abstract(b, st)))
            return self.fresh_sym(st, nm)
        base = op.replace("WithOverflow", "").replace("Unchecked", "")
        if _op_depth(a) >= 8 or _op_depth(b) >= 8:
            sym = Top("arith")          # widen deep arithmetic (loop counters)
        else:
            sym = Adt("op:%s" % base, 0, (a, b))
        if op.endswith("WithOverflow"):
            return Adt("tuple", 0, (sym, Const(0, "bool")))
        return sym

    def short(self, v):
        k = v.key()
        s = repr(k)
        if len(s) < 60:
            return s
        # long operands: keep a readable prefix, make the atom name unique with a digest of the whole key
        import hashlib
        return s[:48] + "..#" + hashlib.sha1(s.encode()).hexdigest()[:8]

    def discriminant(self, frame, rv, st):
        place = rv["place"]
        v = self.concretize(self.read_place(frame, place, st), st)
        if isinstance(v, Adt):
            adt = self.prog.adts_by_name.get(v.name)
            if adt is not None and adt["kind"] == "enum":
                d = adt["variants"][v.variant]["discr"]
                return Const(int(d) if d is not None else v.variant)
            return Const(v.variant)
        # unknown enum value: case-split lazily on its variants
        tyref = TyRef(frame.body.types, rv["of"])
        variants = self.variants_of(tyref)
        if variants is None:
            return Top("discr")
        raise _Fork("variant", place, tyref, variants, v)

    # ------------------------------------------------------------------ abstraction for logs / keys
    def abstract(self, v, st, depth=0):
        v = self.concretize(v, st)
        if isinstance(v, Const):
            return v.v
        if isinstance(v, Adt):
            if depth > (14 if v.name.startswith("op:") else 4):
                return v.name.split("::")[-1]
            nm = v.name.split("::")[-1] if not v.name.startswith("op:") else v.name
            if v.name.startswith("fn:"):
                nm = v.name[3:]
            if v.vname is not None and v.vname != nm:
                nm = "%s::%s" % (nm, v.vname)
            if not v.fields:
                return nm
            return (nm,) + tuple(self.abstract(f, st, depth + 1) for f in v.fields)
        if isinstance(v, Ref):
            tgt = st.heap.get(v.addr)
            if tgt is None:
                return "&?"
            try:
                inner = self.get_at(tgt, v.path)
            except Infeasible:
                return "&?"
            if depth > 3:
                return "&"
            return ("&", self.abstract(inner, st, depth + 1))
        if isinstance(v, Sym):
            return "sym:" + v.name
        if isinstance(v, Top):
            return "top:" + str(v.label)
        if isinstance(v, FnV):
            return "fn:" + (v.fn.get("rpath") or v.fn["path"])
        return "?"

    def state_key(self, frame, bi, st):
        """abstract store at a loop head: frame locals + tracked objects (+ rule-provided log
        abstraction).  The effect log itself is not part of the key: rules over functions with loops
        are predicates over iteration segments (see DESIGN.md E2)."""
        items = []
        live = set()
        live_locals = None
        if hasattr(frame.body, "prog"):
            from .cfg import liveness
            live_locals = liveness(frame.body).get(bi)
        for addr, val in list(st.heap.items()):
            if isinstance(addr, tuple) and addr and addr[0] == frame.id:
                if live_locals is not None and addr[1] not in live_locals:
                    del st.heap[addr]          # dead temporary: forget it
                    continue
                k = val.key()
                items.append((("L", addr[1]), k))
            elif isinstance(addr, str):
                k = val.key()
                items.append((addr, k))
            elif isinstance(addr, tuple) and addr and addr[0] in ("h", "cl"):
                k = val.key()
                items.append((addr, k))
            else:
                continue
            _collect_syms(k, live)
        items.sort(key=repr)
        tops = set()
        for (_a, k) in items:
            _collect_tops(k, tops)

        def live_label(n):
            lab = n[2:]
            for t in tops:
                if t == lab or t.startswith(lab + ".") or lab.startswith(t + "."):
                    return True
            return False
        for n in [n for n in st.bind if isinstance(n, str) and n.startswith("v:") and not live_label(n)]:
            del st.bind[n]
        bind = tuple(sorted((n, v) for n, v in st.bind.items() if n in live or n.startswith("v:")))
        extra = self.key_log(st) if self.key_log else None
        return (bi, tuple(items), bind, extra)

    def fresh_sym(self, st, name, dom=(0, 1)):
        """a new instance of the atom `name` (site-derived, deterministic): an earlier instance that
        was already decided is first replaced by its value wherever it is still stored."""
        if name in st.bind:
            val = Const(st.bind[name])
            for addr in list(st.heap.keys()):
                st.heap[addr] = _subst_sym(st.heap[addr], name, val)
            del st.bind[name]
        return Sym(name, dom)

    # ------------------------------------------------------------------ running a function
    def run(self, body, args, st):
        """explore every path of `body` called with argument values `args` from state `st`.
        -> list of Outcome"""
        return self.call_body(body, args, st, 0)

    def call_body(self, body, args, st, depth, ctx=None, cparams=None):
        if depth > self.max_depth:
            raise Budget("call depth")
        self.frame_counter += 1
        frame = Frame(self.frame_counter, body, depth, ctx, cparams)
        self.stepped.add(body.path)
        st = st.fork()
        for i, a in enumerate(args):
            st.heap[(frame.id, i + 1)] = a
        outcomes = []
        visits = {}
        work = [(0, 0, st)]
        while work:
            bi, si, st = work.pop()
            self.paths += 1
            if self.paths > self.max_paths:
                raise Budget("path budget exceeded in %s" % body.path)
            try:
                self.step_block(frame, bi, si, st, work, outcomes, visits)
            except Infeasible:
                continue
        # drop the frame's locals from returned states
        for o in outcomes:
            for addr in [a for a in o.st.heap if isinstance(a, tuple) and a and
                         (a[0] == frame.id or (a[0] == "head" and a[1] == frame.id))]:
                del o.st.heap[addr]
        return outcomes

    def widen_at_head(self, frame, bi, st):
        """integer constants that changed since the previous visit of this loop head on the same
        path (counters such as `position += 1`) are widened to an unknown value."""
        hk = ("head", frame.id, bi)
        prev = st.heap.get(hk)
        cur = {}
        for addr, val in list(st.heap.items()):
            if isinstance(addr, tuple) and len(addr) == 2 and addr[0] == frame.id:
                if isinstance(val, Adt) and _val_depth(val) > 6:
                    st.heap[addr] = Top("widened:_%d" % addr[1])     # ever-growing symbolic value (accumulator)
                    continue
                if isinstance(val, Const) and isinstance(val.v, int) and val.ty != "bool":
                    if prev is not None and isinstance(prev, _HeadSnap) and addr in prev.vals and prev.vals[addr] != val.v:
                        st.heap[addr] = Top("widened:_%d" % addr[1])
                    else:
                        cur[addr] = val.v
        st.heap[hk] = _HeadSnap(cur)

    def loop_heads(self, body):
        k = id(body)
        if k not in self._loop_heads:
            if hasattr(body, "prog"):
                from .cfg import cfg_of
                self._loop_heads[k] = set(cfg_of(body).loop_heads())
            else:
                self._loop_heads[k] = set()
        return self._loop_heads[k]

    def step_block(self, frame, bi, si, st, work, outcomes, visits):
        body = frame.body
        blocks = body.blocks
        while True:
            b = blocks[bi]
            if si == 0 and bi in self.loop_heads(body):
                self.widen_at_head(frame, bi, st)
                key = self.state_key(frame, bi, st)
                if key in visits:
                    return                    # same abstract store seen at this loop head: fixpoint
                visits[key] = 1
                cnt = visits.get(("count", bi), 0) + 1
                visits[("count", bi)] = cnt
                if cnt > self.loop_bound:
                    self.bounded = True
                    st.flag("loop-bound")
                    return
                st.effect(("loop-head", body.path, bi))
            stmts = b["stmts"]
            while si < len(stmts):
                s = stmts[si]
                if s["k"] == "assign":
                    try:
                        val = self.rvalue(frame, s["rv"], st)
                    except _Fork as f:
                        for st2 in self.do_fork(frame, f, st):
                            work.append((bi, si, st2))
                        return
                    self.write_place(frame, s["place"], val, st)
                elif s["k"] == "setdiscr":
                    pass
                si += 1
            t = b["term"]
            k = t["k"]
            if k == "goto":
                bi, si = t["target"], 0
                continue
            if k == "switch":
                v = self.concretize(self.operand(frame, t["discr"], st), st)
                neg = False
                if isinstance(v, Adt) and v.name == "!":
                    v = self.concretize(v.fields[0], st)
                    neg = True
                    if isinstance(v, Const):
                        v = Const(0 if v.v else 1)
                        neg = False
                if isinstance(v, Const):
                    tgt = t["otherwise"]
                    for val, bb in t["targets"]:
                        if int(val) == v.v:
                            tgt = bb
                            break
                    bi, si = tgt, 0
                    continue
                if isinstance(v, Sym):
                    for d in v.dom:
                        st2 = st.fork()
                        st2.bind[v.name] = d
                        st2.choose(v.name, d)
                        dd = (0 if d else 1) if neg else d
                        tgt = t["otherwise"]
                        for val, bb in t["targets"]:
                            if int(val) == dd:
                                tgt = bb
                                break
                        work.append((tgt, 0, st2))
                    return
                # unknown scalar: every edge is possible
                seen = set()
                swname = "switch@%s:bb%d" % (body.path, bi)
                swval = self.abstract(v, st)
                for val, bb in t["targets"] + [["otherwise", t["otherwise"]]]:
                    if blocks[bb]["term"]["k"] == "unreachable" and not blocks[bb]["stmts"]:
                        continue
                    st2 = st.fork()
                    st2.effect(("switch", swname, swval))
                    st2.choose(swname, val)
                    work.append((bb, 0, st2))
                return
            if k == "return":
                ret = self.concretize(st.heap.get((frame.id, 0), UNIT), st)
                outcomes.append(Outcome(ret, st))
                return
            if k == "assert" and self.log_asserts:
                # what the assertion is about (bounds / overflow / division), for the linear prover: operands as values
                ops = [self.abstract(self.operand(frame, o, st), st) for o in t.get("ops", [])]
                tys = []
                for o in t.get("ops", []):
                    if o["k"] == "const":
                        tys.append(body.tystr(o["ty"]))
                    elif not o["place"]["p"]:
                        tys.append(body.tystr(body.locals[o["place"]["l"]]["ty"]))
                    else:
                        tys.append(None)
                cv = self.concretize(self.operand(frame, t["cond"], st), st)
                st.effect(("assert", t["msg"], t.get("binop"), tuple(ops), tuple(tys),
                           (cv.v if isinstance(cv, Const) else None), t.get("expected"), t.get("line"), body.path))
            if k in ("drop", "assert"):
                bi, si = t["target"], 0
                continue
            if k == "call":
                results = self.do_call(frame, bi, t, st)
                tgt = t.get("target")
                if tgt is None:
                    return      # diverging call (panic paths are E1's business)
                first = True
                for (ret, st2) in results:
                    self.write_place(frame, t["dest"], ret, st2)
                    work.append((tgt, 0, st2))
                return
            if k in ("unreachable", "resume", "abort"):
                return
            return

    def do_fork(self, frame, f, st):
        out = []
        if f.kind == "variant":
            label0 = f.value.label if isinstance(f.value, Top) else None
            known = st.bind.get("v:%s" % label0) if label0 is not None else None
            for vix, var in enumerate(f.variants):
                if known is not None and vix != known:
                    continue
                st2 = st.fork()
                if label0 is not None:
                    st2.bind["v:%s" % label0] = vix
                label = f.value.label if isinstance(f.value, Top) else "v"
                m = self.materialize(f.tystr, label, vix)
                if m is None:
                    m = Adt(adt_base_name(ty_s(f.tystr)), vix, [Top("%s.%d" % (label, i)) for i in range(len(var["fields"]))], var["name"])
                r = self.resolve(frame, f.place, st2)
                if r is None:
                    continue
                addr, path = r
                base = st2.heap.get(addr, Top("uninit"))
                if isinstance(self.get_at_safe(base, path[:-1]) if path else None, Top):
                    base = self.materialize_along(frame, f.place, base, path, st2)
                st2.heap[addr] = self.set_at(base, path, m)
                if known is None:
                    st2.choose("variant(%s)" % label, var["name"])
                out.append(st2)
        return out

    # ------------------------------------------------------------------ calls
    def find_model(self, path):
        if path in self._model_cache:
            return self._model_cache[path]
        m = None
        for (rx, fn) in self.models:
            if rx.search(path):
                m = fn
                break
        self._model_cache[path] = m
        return m

    def is_new_helper(self, body):
        """a workspace function that does not exist in the reference tree (anchors/known_functions.json) was introduced
        by a refactoring (extracted helper): no rule knows it, so it is analysed inline whatever the step list says"""
        if body.crate not in ("stun_rs", "stun_agent"):
            return False
        known = _known_functions()
        return bool(known) and body.path not in known

    def find_models(self, path):
        k = ("all", path)
        if k not in self._model_cache:
            self._model_cache[k] = [fn for (rx, fn) in self.models if rx.search(path)]
        return self._model_cache[k]

    def do_call(self, frame, bi, t, st):
        """-> list of (ret value, state)"""
        f = t["func"]
        d = t.get("dest")
        self._ret_ty = None
        if d is not None and not d["p"]:
            self._ret_ty = TyRef(frame.body.types, frame.body.locals[d["l"]]["ty"])
        args = [self.operand(frame, a, st) for a in t["args"]]
        site = "%s:bb%d" % (frame.body.path, bi)
        if frame.ctx:
            site += "~" + frame.ctx
        if f["k"] != "const" or "fn" not in f:
            fv = self.operand(frame, f, st)
            if isinstance(fv, FnV):
                fn = fv.fn
            else:
                return self.opaque_call("<indirect>", args, st, site, frame)
        else:
            fn = f["fn"]
        return self.call_fn(fn, args, st, site, frame)

    def call_fn(self, fn, args, st, site, frame):
        path = fn.get("rpath") if fn.get("resolved") else fn["full"]
        decl = fn["path"]
        # every model that matches one of the callee's names is tried, in order, until one applies (a model may
        # decline by returning None, e.g. the concrete-iterator models on a value they do not own)
        tried = []
        for nm in (path, decl, fn["full"], fn.get("rfull")):
            if not nm:
                continue
            for model in self.find_models(nm):
                if model in tried:
                    continue
                tried.append(model)
                r = model(self, fn, args, st, site, frame)
                if r is not None:
                    return r
        body = None
        if fn.get("resolved"):
            body = self.prog.bodies.get(fn["rkey"])
        else:
            # dynamic dispatch on a known receiver value?  (enum dispatch is by match, so this is
            # only for trait calls on type parameters): fan out is left to models
            cands = self.prog.impl_candidates(fn["key"])
            if len(cands) == 1:
                body = cands[0]
        if body is not None and self.step_only is not None and not any(r.search(body.path) or r.search(body.key) for r in self.step_only) \
                and not self.is_new_helper(body):
            body = None
        if body is not None and not any(r.search(body.path) for r in self.opaque) and frame.depth < self.max_depth:
            ctx = frame.ctx
            if self.is_new_helper(body):
                ctx = site.rsplit(":", 1)[1]
            cps = [int(m_.group(1)) for m_ in (re.match(r"const (-?\d+)", str(a_)) for a_ in (fn.get("rargs") or fn.get("args") or [])) if m_]
            outs = self.call_body(body, args, st, frame.depth + 1, ctx, cps or None)
            return [(o.ret, o.st) for o in outs]
        return self.opaque_call(fn.get("rfull") if fn.get("resolved") and fn.get("rfull") else path, args, st, site, frame)

    def call_closure(self, cl, args, st, frame):
        """call a closure value with the given (already tupled-out) arguments."""
        if not (isinstance(cl, Adt) and cl.name.startswith("closure:")):
            return None
        body = self.prog.bodies.get(cl.name[len("closure:"):])
        if body is None:
            return None
        envty = body.local_ty(1)
        st2 = st.fork()
        if envty.get("k") == "ref":
            addr = ("cl", body.key, frame.depth)
            st2.heap[addr] = cl
            env = Ref(addr, (), envty.get("mut", False))
        else:
            env = cl
        outs = self.call_body(body, [env] + list(args), st2, frame.depth + 1)
        return [(o.ret, o.st) for o in outs]

    def opaque_call(self, path, args, st, site, frame, ret=None, log=True):
        """external / not-stepped-into callee: unknown result, everything reachable through a `&mut`
        argument is havocked, and the call is logged."""
        self.unmodelled[path] = self.unmodelled.get(path, 0) + 1
        st2 = st.fork()
        desc = []
        is_pure = any(r.search(path) for r in self.pure)
        # next() of a std iterator adapter held as an opaque value: the abstraction keeps no position for it, only where it
        # was built (zip(chunks_exact_mut(s, 2), v.iter())); advancing it does not change that, so it is not havocked
        std_iter_next = self.log_asserts and re.search(r"^<std::(iter|slice|vec|array|collections)::.* as std::iter::Iterator>::next$", path) is not None
        for a in args:
            desc.append(self.abstract(a, st2))
            if isinstance(a, Ref) and a.mut and not is_pure:
                base = st2.heap.get(a.addr)
                if base is not None:
                    try:
                        old = self.get_at(base, a.path)
                        if std_iter_next and isinstance(old, Top):
                            continue
                        new = None
                        if isinstance(old, Adt) and old.name in self.prog.adts_by_name and \
                                self.prog.adts_by_name[old.name]["kind"] == "struct":
                            new = self.materialize(old.name, "havoc:%s" % last_segment(path))
                        elif isinstance(old, Top) and old.ty is not None:
                            new = Top("havoc:%s" % last_segment(path), old.ty)
                        if new is None:
                            new = Top("havoc:%s" % path)
                        st2.heap[a.addr] = self.set_at(base, a.path, new)
                    except Infeasible:
                        pass
        name = last_segment(path)
        lab = "ret:%s@%s" % (name, site)
        memo = False
        if self.memo_shared and not any(isinstance(a, Ref) and a.mut for a in args) and \
                all(isinstance(a, (Ref, Const)) or a is UNIT for a in args) and args:
            # option (coverage rules): a callee that only receives shared references to data the explored function
            # cannot mutate (`&self` of an encoder) is deterministic: the same callee on the same arguments yields
            # the same value wherever it is called, so its result is labelled by (callee, arguments), not by site
            import hashlib
            lab = "ret:%s(%s)" % (name, hashlib.sha1(repr([a.key() for a in args]).encode()).hexdigest()[:10])
            memo = lab in st2.memo
            if not memo:
                st2.memo = st2.memo | {lab}
        if log:
            # 6th field: the tracked objects handed to the callee by `&mut` (label paths) - what the callee may mutate
            muts = tuple((a.addr,) + self.path_names(st2, a.addr, a.path) for a in args
                         if isinstance(a, Ref) and a.mut and isinstance(a.addr, str))
            st2.effect(("call", path, tuple(desc), self.receiver_label(args, st2), lab, muts))
        if ret is None:
            if not memo:
                st2.unbind_label(lab)
            ret = self.symbolic(getattr(self, "_ret_ty", None), lab)
            rty = getattr(self, "_ret_ty", None)
            rec = getattr(rty, "rec", None)
            if isinstance(rec, dict) and rec.get("k") == "ref" and rty.pointee() is not None:
                rec = rty.pointee().rec
            if log and self.log_asserts and isinstance(rec, dict) and rec.get("k") == "array" and rec.get("len") is not None:
                st2.effect(("array-len", lab, int(rec["len"])))       # an array(-reference) result: its length is in its type
            if isinstance(ret, Sym):
                ret = self.fresh_sym(st2, ret.name)
            elif ty_s(ret.ty) == "()":
                ret = UNIT
        return [(ret, st2)]

    def receiver_label(self, args, st):
        if args and isinstance(args[0], Ref):
            a = args[0]
            if isinstance(a.addr, str):
                return (a.addr,) + self.path_names(st, a.addr, a.path)
        return None


def _val_depth(v, d=0):
    if d > 12:
        return d
    if isinstance(v, Adt) and v.fields:
        return 1 + max(_val_depth(f, d + 1) for f in v.fields)
    return 0


def _op_depth(v):
    if isinstance(v, Adt) and v.name.startswith("op:"):
        return 1 + max([_op_depth(f) for f in v.fields] or [0])
    return 0


def _collect_syms(k, out):
    if isinstance(k, tuple):
        if len(k) == 2 and k[0] == "s":
            out.add(k[1])
            return
        for x in k:
            if isinstance(x, tuple):
                _collect_syms(x, out)


def _collect_tops(k, out):
    if isinstance(k, tuple):
        if len(k) == 2 and k[0] == "t":
            out.add(str(k[1]))
            return
        for x in k:
            if isinstance(x, tuple):
                _collect_tops(x, out)


def _subst_sym(v, name, val):
    if isinstance(v, Sym):
        return val if v.name == name else v
    if isinstance(v, Adt):
        if not v.fields:
            return v
        fs = [_subst_sym(f, name, val) for f in v.fields]
        if all(a is b for a, b in zip(fs, v.fields)):
            return v
        return Adt(v.name, v.variant, fs, v.vname)
    return v


class _HeadSnap(V):
    __slots__ = ("vals",)

    def __init__(self, vals):
        self.vals = vals

    def key(self):
        return ("snap",)


class _Fork(Exception):
    def __init__(self, kind, place, tystr, variants, value):
        self.kind = kind
        self.place = place
        self.tystr = tystr
        self.variants = variants
        self.value = value


class _PromotedBody:
    """minimal Body-like wrapper for a promoted constant's MIR."""

    def __init__(self, owner, raw):
        self.raw = raw
        self.path = owner.path + "::promoted"
        self.key = owner.key + "::promoted"
        self.blocks = raw["blocks"]
        self.locals = raw["locals"]
        self.types = owner.types
        self.arg_count = 0

    def ty(self, ix):
        return self.types[ix]

    def tystr(self, ix):
        return self.types[ix]["s"]

    def local_ty(self, l):
        return self.types[self.locals[l]["ty"]]

    def debug_name(self, l):
        return None
