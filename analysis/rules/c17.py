"""C17 - a rejected buffer changes nothing (interprocedural effect analysis)."""
from . import client_rules as R
from . import mech_rules as M


def check(ctx, env):
    ctx.explanation = (
        "Static: every path of on_buffer_recv that returns Err is shown to have an empty effect log apart from the "
        "mechanism's recv_message, which is reached only for the verdict Discarded (R17.1); the mechanisms' "
        "recv_message are explored path-sensitively (wire attributes as a loop fixpoint over attribute kinds, MAC "
        "verification as an atom): on every path returning Err(Discarded) the writes to mechanism state are within "
        "{violated-transaction marker insert for a non-indication on unreliable transport} (R17.2); a finished transaction "
        "is removed from the table on every path that reports a final outcome, and responses without a table entry are "
        "discarded before any effect (R17.3 = R5.1 + R5.2).")
    ctx.assumptions = ["rustc MIR", "callee models of analysis/models.py", "HashSet insert/remove logged, not stepped into"]
    prog = env.prog("agent")
    R.r17_1_reject(ctx, prog)
    M.r17_2_mechanisms(ctx, prog)
    # "a response for a finished transaction is rejected" presupposes that finishing removes the transaction from the
    # table on every path that reports a final outcome (same rules as C05 R5.1 / R5.2)
    R.r5_1_guard(ctx, prog, rule="R17.3")
    R.r5_2_timeout(ctx, prog, rule="R17.3")
    R.r5_2_recv_final(ctx, prog, rule="R17.3")
    R.r5_2_finished(ctx, prog, rule="R17.3")
    # "a message that fails authentication is ignored": a 401 / 438 that carries an integrity attribute of either kind is
    # taken (nonce / parameters / state written) only after it verified (same rule as C08 R8.4)
    M.r8_4_write_after_auth(ctx, prog, rule="R17.4")
