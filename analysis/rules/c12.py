"""C12 - the outstanding-request limit counts exactly the unfinished requests."""
from . import client_rules as R
from .c05 import ASSUME


def check(ctx, env):
    ctx.explanation = (
        "Static: send_request is explored path-sensitively (capacity comparison, mechanism, encoder and schedule "
        "outcomes symbolic): the refusal precedes every effect and has an empty effect log (R12.1); exactly one "
        "insert on Ok paths and none on Err paths (R12.2); every final outcome removes exactly one entry and "
        "indications never touch the table (R12.3 = R5.2 + indication rules); the table and the limit have no other "
        "writer (R5.4).")
    ctx.assumptions = ASSUME
    prog = env.prog("agent")
    R.r12_1_refusal(ctx, prog)
    R.r12_2_one_insert(ctx, prog)
    R.r12_3_indication(ctx, prog)
    R.r5_2_recv_final(ctx, prog, rule="R12.3")
    R.r5_2_timeout(ctx, prog, rule="R12.3")
    R.r5_2_finished(ctx, prog, rule="R12.3")
    R.r5_4_who_may_write(ctx, prog, rule="R12.4")
    R.r12_5_limit_passthrough(ctx, prog)
