"""What bytes of a buffer an expression tree (client.expr_of) denotes, independent of how the read is written:
`BigEndian::read_u16(&b[2..4])`, `u16::from_be_bytes([b[2], b[3]])`, `(b[2] as u16) << 8 | b[3] as u16` all are the
big-endian value of bytes 2..4; `&b[4..8]`, `b[4..][..4]`, the halves of split_at, and `try_from` of those are views."""
import re


def _int(x):
    return x if isinstance(x, int) and not isinstance(x, bool) else None


def byte_at(x, base="top:buffer"):
    """index i if x is the single byte base[i]"""
    if isinstance(x, str):
        m = re.match(re.escape(base) + r"\[(\d+)\]$", x)
        if m:
            return int(m.group(1))
    if isinstance(x, tuple) and len(x) == 2 and isinstance(x[0], str) and x[0] in ("cast", "cast:IntToInt", "u16::from", "u32::from", "From::from", "Into::into"):
        return byte_at(x[1], base)
    return None


def slice_view(x, base="top:buffer"):
    """(lo, hi) if x denotes the sub-slice base[lo..hi] (hi None = to the end)"""
    if x == base:
        return (0, None)
    if not isinstance(x, tuple):
        return None
    if len(x) == 2 and isinstance(x[1], str) and re.match(r"^(\.\*|\.ok|\.some|\.0)+$", x[1]) and isinstance(x[0], tuple):
        inner = x[0]
        # (("split_at", b, k), ".0" / ".1") halves
        if inner and isinstance(inner[0], str) and re.search(r"split_at(_mut)?$", inner[0]) and len(inner) == 3 and x[1].rstrip(".*") in (".0", ".1"):
            v = slice_view(inner[1], base)
            k = _int(inner[2])
            if v is None or k is None:
                return None
            return (v[0], v[0] + k) if x[1].startswith(".0") else (v[0] + k, v[1])
        return slice_view(inner, base)
    if x and isinstance(x[0], str):
        if re.search(r"(^|::)index(_mut)?$", x[0]) and len(x) == 3:
            v = slice_view(x[1], base)
            r = x[2]
            if v is None or not isinstance(r, tuple):
                return None
            lo0, hi0 = v
            if r[0] == "Range" and _int(r[1]) is not None and _int(r[2]) is not None:
                return (lo0 + r[1], lo0 + r[2])
            if r[0] == "RangeTo" and _int(r[1]) is not None:
                return (lo0, lo0 + r[1])
            if r[0] == "RangeFrom" and _int(r[1]) is not None:
                return (lo0 + r[1], hi0)
            if r[0] == "RangeInclusive::new" and _int(r[1]) is not None and _int(r[2]) is not None:
                return (lo0 + r[1], lo0 + r[2] + 1)
            if r[0] == "RangeFull":
                return v
            return None
        if re.search(r"try_from$|try_into$|as_ref$|AsRef::as_ref$|Deref::deref$|borrow$", x[0]) and len(x) == 2:
            return slice_view(x[1], base)
    return None


def be_value(x, base="top:buffer"):
    """(lo, hi) if x is the big-endian unsigned integer stored in base[lo..hi]"""
    if byte_at(x, base) is not None:
        i = byte_at(x, base)
        return (i, i + 1)
    if not isinstance(x, tuple) or not x or not isinstance(x[0], str):
        return None
    m = re.search(r"(?:BigEndian|ByteOrder)::read_u(16|24|32|48|64|128)$", x[0])
    if m and len(x) == 2:
        v = slice_view(x[1], base)
        k = int(m.group(1)) // 8
        if v is not None and (v[1] is None or v[1] - v[0] >= k):
            return (v[0], v[0] + k)
        return None
    if re.search(r"from_be_bytes$", x[0]) and len(x) == 2:
        a = x[1]
        if isinstance(a, tuple) and a and a[0] == "array":
            ix = [byte_at(b, base) for b in a[1:]]
            if ix and all(i is not None for i in ix) and ix == list(range(ix[0], ix[0] + len(ix))):
                return (ix[0], ix[0] + len(ix))
            return None
        while isinstance(a, tuple) and len(a) == 2 and isinstance(a[1], str) and re.match(r"^(\.ok|\.some|\.\*)+$", a[1]):
            a = a[0]
        v = slice_view(a, base)          # from_be_bytes(<[u8; N]>::try_from(&b[lo..hi]))
        if v is not None and v[1] is not None:
            return v
        return None
    if x[0] in ("cast", "cast:IntToInt", "u16::from", "u32::from", "u64::from", "usize::from", "From::from", "Into::into") and len(x) == 2:
        return be_value(x[1], base)
    if x[0] in ("op:BitOr", "op:Add", "op:BitXor") and len(x) == 3:
        # (hi << 8k) | lo  with lo of k bytes directly following hi
        for a, b in ((x[1], x[2]), (x[2], x[1])):
            if isinstance(a, tuple) and a and a[0] == "op:Shl" and len(a) == 3 and _int(a[2]) is not None and a[2] % 8 == 0:
                h, l = be_value(a[1], base), be_value(b, base)
                if h is not None and l is not None and h[1] == l[0] and (l[1] - l[0]) * 8 == a[2]:
                    return (h[0], l[1])
    return None


def byte_ranges(x, base="top:buffer"):
    """the set of maximal (lo, hi) byte ranges of `base` an expression tree reads"""
    out = set()

    def walk(t):
        v = be_value(t, base)
        if v is None:
            v = slice_view(t, base) if t != base else None
        if v is not None:
            out.add(v)
            return
        if isinstance(t, tuple):
            for y in t:
                walk(y)
    walk(x)
    return out


def flatten_elems(t):
    """rewrite element reads through the halves of split_at into reads of the underlying slice:
    ((split_at(B, k), '.0.*[i]')) -> B[i],  ((split_at(B, k), '.1.*[i]')) -> B[k + i]   (B a plain label)"""
    if isinstance(t, tuple):
        if len(t) == 2 and isinstance(t[1], str) and isinstance(t[0], tuple) and len(t[0]) == 3 and isinstance(t[0][0], str) \
                and re.search(r"split_at(_mut)?$", t[0][0]):
            m = re.match(r"\.([01])(?:\.\*)*\[(\d+)\]$", t[1])
            base = flatten_elems(t[0][1])
            while isinstance(base, tuple) and len(base) == 2 and base[0] == "&":
                base = base[1]
            k = _int(t[0][2])
            if m and isinstance(base, str) and k is not None:
                i = int(m.group(2)) + (k if m.group(1) == "1" else 0)
                return "%s[%d]" % (base, i)
        return tuple(flatten_elems(x) for x in t)
    return t


def flatten_views(t, base="top:buffer"):
    """rewrite element reads through views of `base` - ((view expr, '.*[i]') or (view expr, '[i]')) - into `base[lo + i]`"""
    if isinstance(t, (list, tuple)):
        if isinstance(t, tuple) and len(t) == 2 and isinstance(t[1], str):
            m = re.match(r"^((?:\.\*|\.ok|\.some|\.0|\.1)*)\[(\d+)\]$", t[1])
            if m:
                inner = (t[0], m.group(1)) if m.group(1) else t[0]
                v = slice_view(inner, base)
                if v is not None:
                    return "%s[%d]" % (base, v[0] + int(m.group(2)))
        r = [flatten_views(x, base) for x in t]
        return tuple(r) if isinstance(t, tuple) else r
    return t
