"""C11 - timer notifications (structural clauses)."""
from . import client_rules as R
from . import codec_rules as K


def check(ctx, env):
    ctx.explanation = (
        "Static: send_request / on_timeout are explored path-sensitively: the notification is the last action, pushed iff "
        "next_timeout is Some and carries that pair (R11.1); next_timeout's result is reconstructed as an expression tree "
        "(minimum's id; (instant+timeout)-now or zero) (R11.2); the heap comparator's operand order and the Reverse "
        "wrapper are checked (R11.3); insert/add, check/pop and remove/retain pairings hold on all paths (R11.4). The "
        "numeric time remaining and the liveness consequence as a whole are NOT decided.")
    ctx.assumptions = ["rustc MIR", "std BinaryHeap/Reverse/Instant semantics", "callee models of analysis/models.py"]
    prog = env.prog("agent")
    R.r11_1_last_action(ctx, prog)
    K.r11_2_payload(ctx, prog)
    K.r11_3_order(ctx, prog)
    K.r11_4_pairing(ctx, prog)
    R.r12_2_one_insert(ctx, prog, rule="R11.4")
    R.r5_3_retransmit(ctx, prog, rule="R11.4")
    R.r5_2_finished(ctx, prog, rule="R11.4")
    # a pending request stays in the heap until it finishes: received indications never reach transaction_finished
    R.r12_3_indication(ctx, prog, rule="R11.5")
