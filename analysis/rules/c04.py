"""C04 - message integrity (structural clauses; MAC values and cryptographic strength undecided)."""
from . import codec_rules as K


def check(ctx, env):
    ctx.explanation = (
        "Static: acceptance gating and fail-closed behaviour of integrity validation are decided on every path of "
        "validate_attribute, Verifiable::verify, *::validate and the decode loop (abstract interpretation; the MAC "
        "comparison is an atom); the encoder writes the final length before the MAC is computed; writer and validator "
        "share one resolved HMAC function and the key constructors share the OpaqueString enforcement. That the MAC "
        "equals RFC HMAC-SHA1/SHA256 and that no other key or tampered message verifies is NOT decided (cryptographic, "
        "value-level).")
    ctx.assumptions = ["rustc MIR", "callee models of analysis/models.py", "hmac-sha1 / hmac-sha256 / md5 crates not analysed"]
    prog = env.prog("agent")
    K.r4_1_length_before_mac(ctx, prog)
    K.r4_2_validate_attribute(ctx, prog)
    K.r4_3_fail_closed(ctx, prog)
    K.r4_4_exhaustive(ctx, prog)
    K.r4_5_siblings(ctx, prog)
    K.r18_5_builder(ctx, prog, rule="R4.6")
    K.r4_7_input_text(ctx, prog)
