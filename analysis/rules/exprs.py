"""structural comparison of expression trees extracted from effect logs (client.expr_of)."""
COMMUTATIVE = {"Duration::add", "cmp::max", "cmp::min", "op:BitXor", "op:BitAnd", "op:BitOr", "op:Add", "op:Mul", "op:Eq", "op:Ne"}


ALIASES = {"Instant::duration_since": "Instant::sub", "Instant::saturating_duration_since": "Instant::sub",      # `a - b` on Instant saturates (std >= 1.60)
           "Duration::max": "cmp::max", "Ord::max": "cmp::max", "Duration::min": "cmp::min", "Ord::min": "cmp::min"}


def norm(t):
    if isinstance(t, tuple) and t and isinstance(t[0], str):
        op = ALIASES.get(t[0], t[0])
        args = [norm(x) for x in t[1:]]
        if op in COMMUTATIVE:
            args = sorted(args, key=repr)
        return (op,) + tuple(args)
    if isinstance(t, tuple):
        return tuple(norm(x) for x in t)
    if isinstance(t, float):
        return round(t, 6)
    return t


def same(a, b):
    return norm(a) == norm(b)


def show(t):
    if isinstance(t, tuple) and t and isinstance(t[0], str):
        return "%s(%s)" % (t[0], ", ".join(show(x) for x in t[1:]))
    if isinstance(t, tuple):
        return "(%s)" % ", ".join(show(x) for x in t)
    return str(t).replace("top:", "")
