"""Must-write coverage of the attribute-value encoders (C14 R14.5, also used by C02).

Clause decided: on every path on which an encoder returns Ok(n), the byte ranges it writes cover [0, n) of its
output slice, so that the encoded bytes cannot depend on what the buffer held before.  Ranges are expression trees
extracted by E2 (element writes, range-indexed sub-slices handed to byte writers, nested encoders = compositional:
a nested encoder covers [lo, lo + its own Ok value), and is itself in the checked set).  Coverage is decided by
chaining intervals whose bounds are compared as linear forms; lengths are non-negative.
Loops are not chained here: the two looping encoders are covered by their own rules (UNKNOWN-ATTRIBUTES stride =
element size, R2.7; PASSWORD-ALGORITHMS entry / padding contiguity, R1.6) which are evaluated alongside.
"""
import re
from .. import client as C
from .. import prover
from .exprs import show

WRITE_N = [(re.compile(r"ByteOrder>::write_u16$"), 2), (re.compile(r"ByteOrder>::write_u24$"), 3),
           (re.compile(r"ByteOrder>::write_u32$"), 4), (re.compile(r"ByteOrder>::write_u48$"), 6),
           (re.compile(r"ByteOrder>::write_u64$"), 8), (re.compile(r"ByteOrder>::write_u128$"), 16)]
WHOLE = re.compile(r"slice::<impl \[.*\]>::(clone_from_slice|copy_from_slice|fill)$")
ITER_MUT = re.compile(r"slice::<impl \[.*\]>::iter_mut$")
NESTED = re.compile(r" as stun_rs::Encode>::encode$|<impl stun_rs::Encode for .*>::encode$|^stun_rs::common::xor_encode(::<.*>)?$"
                    r"| as stun_rs::attributes::EncodeAttributeValue>::encode$")
FILL_PAD = re.compile(r"^stun_rs::common::fill_padding_value$")


def lin(t):
    if isinstance(t, bool):
        return {1: int(t)}
    if isinstance(t, int):
        return {1: t}
    if isinstance(t, tuple) and t and t[0] in ("op:Add", "op:Sub") and len(t) == 3:
        a, b = lin(t[1]), lin(t[2])
        sgn = 1 if t[0] == "op:Add" else -1
        out = dict(a)
        for k, v in b.items():
            out[k] = out.get(k, 0) + sgn * v
        return {k: v for k, v in out.items() if v != 0}
    if isinstance(t, tuple) and t and t[0] == "op:Mul" and len(t) == 3 and isinstance(t[2], int):
        return {k: v * t[2] for k, v in lin(t[1]).items()}
    return {repr(t): 1}


def diff(a, b):
    la, lb = lin(a), lin(b)
    out = dict(la)
    for k, v in lb.items():
        out[k] = out.get(k, 0) - v
    return {k: v for k, v in out.items() if v != 0}


def const_of(d):
    """the constant value of a linear form if it has no symbolic part"""
    if not d:
        return 0
    if set(d) == {1}:
        return d[1]
    return None


def nonneg(d):
    """d >= 0 for every valuation with non-negative leaves (lengths, sizes)"""
    return all(v >= 0 for v in d.values())


def _base_of(t, base):
    """(is output base, range or None) of a slice expression: BASE, (index_mut(BASE, R), '.*'); `base` is the name of
    the encoder's output slice parameter ('top:raw_value') or 'raw_value_mut' for context encoders"""
    if isinstance(t, tuple) and len(t) == 2 and t[1] == ".*":
        t = t[0]
    if isinstance(t, str) and (t == base or (base == "raw_value_mut" and t == "top:ctx.raw_value.*")):
        return base, None
    if isinstance(t, tuple) and t and isinstance(t[0], str):
        if t[0].endswith("raw_value_mut") and base == "raw_value_mut":
            return "raw_value_mut", None
        if t[0].endswith("index_mut") and len(t) == 3:
            b, r0 = _base_of(t[1], base)
            if b is not None and r0 is None:
                return b, t[2]
    return None, None


def _range(r):
    if r is None:
        return 0, None
    if isinstance(r, tuple):
        if r[0] == "Range":
            return r[1], r[2]
        if r[0] == "RangeTo":
            return 0, r[1]
        if r[0] == "RangeFrom":
            return r[1], None
        if r[0] == "RangeInclusive::new":
            return r[1], ("op:Add", r[2], 1)
        if r[0] == "RangeToInclusive":
            return 0, ("op:Add", r[1], 1)
        if r[0] == "RangeFull":
            return 0, None
    return None, None


def _resolver(pa, fixed):
    """expr_of with the results of nested encoders of fixed size replaced by that size"""
    lab2c = {}
    for e in pa.calls:
        if e[1] in fixed:
            lab2c["top:%s.ok" % e[4]] = fixed[e[1]]

    def walk(v):
        if isinstance(v, str):
            return lab2c.get(v, v)
        if isinstance(v, tuple):
            return tuple(walk(x) for x in v)
        return v
    return lambda v: C.expr_of(pa, walk(v))


def _seq_len(t):
    """length expression of a finite sequence expression: slice::iter(X) / X (a slice) / chain(A, B) / copied / cloned"""
    from .. import linproof as LP
    IT = r"(^|::)(chain|copied|cloned|iter|into_iter)$"
    s_ = LP.strip(t)
    if isinstance(s_, tuple) and s_ and isinstance(s_[0], str):
        nm = s_[0]
        if re.search(r"(^|::)chain$", nm) and len(s_) == 3:
            a, b = _seq_len(s_[1]), _seq_len(s_[2])
            return None if a is None or b is None else ("op:Add", a, b)
        if re.search(r"(^|::)(copied|cloned)$", nm) and len(s_) == 2:
            return _seq_len(s_[1])
        if re.search(r"(^|::)(iter|into_iter)$", nm) and len(s_) == 2:
            inner = LP.strip(s_[1])
            if isinstance(inner, tuple) and inner and isinstance(inner[0], str) and re.search(IT, inner[0]):
                return _seq_len(s_[1])
            return ("slice::len", s_[1])
        if nm == "array":
            return len(s_) - 1
        if nm == "op:Add" or nm.startswith("op:"):
            return None
        return ("slice::len", t)             # a slice value (call result, field) handed to chain() as IntoIterator
    if isinstance(s_, str) and s_.startswith("top:"):
        return ("slice::len", t)
    return None


def _zip_copy_of(pa, e, ex):
    """(length of src, src expression) when the iter_mut() call `e` feeds `Iterator::zip(_, src)` whose result is consumed
    only by copy iterations (checked by zip_copy_only); else None"""
    lab = "top:" + str(e[4])
    for c2 in pa.calls:
        if re.search(r"^<std::slice::IterMut<'_, u8> as std::iter::Iterator>::zip::<", c2[1]) and len(c2[2]) == 2 and c2[2][0] == lab:
            src = ex(c2[2])[1]
            n = _seq_len(src)
            if n is not None and zip_copy_only(pa, c2[4]):
                return n, src
    return None


def zip_copy_only(pa, zip_label):
    """every use of the zip object `zip_label` on this path is `next()` followed, for Some((d, s)), by the single store
    *d = *s - and nothing else happens in those loop iterations"""
    log = pa.log
    heads = [i for i, x in enumerate(log) if x[0] == "loop-head"]
    uses = [i for i, x in enumerate(log) if x[0] == "call" and re.search(r"^<std::iter::Zip<std::slice::IterMut<'_, u8>, .*> as std::iter::Iterator>::next$", x[1])]
    if not uses:
        return False
    first = True
    for i in uses:
        x = log[i]
        rcv = x[2][0] if x[2] else None
        # the first next() names the zip object; later ones see it havocked by the previous next()
        if first and not (isinstance(rcv, tuple) and rcv[-1] == "top:" + zip_label):
            return False
        first = False
        nl = x[4]
        j = i + 1
        var = None
        while j < len(log) and log[j][0] not in ("loop-head", "call"):
            y = log[j]
            if y[0] == "choice" and str(y[1]) == "variant(%s)" % nl:
                var = y[2]
            elif y[0] in ("write", "write-elem"):
                if not (var == "Some" and y[0] == "write" and y[1] == "obj:%s.some.0" % nl and y[2] == () and y[3] == "top:%s.some.1.*" % nl):
                    return False
            j += 1
        if var == "Some" and not (j < len(log) and log[j][0] == "loop-head"):
            return False              # something else runs in the iteration after the store
        if var is None:
            return False
    # every loop iteration of the path belongs to such a next()
    for h in heads:
        nxt = next((x for x in log[h + 1:] if x[0] in ("call", "write", "write-elem", "loop-head")), None)
        if nxt is None or not (nxt[0] == "call" and re.search(r"^<std::iter::Zip<std::slice::IterMut<'_, u8>, .*> as std::iter::Iterator>::next$", nxt[1])):
            return False
    return True


def intervals(prog, pa, base, fixed=None):
    """[(lo, hi, what[, label])] written on this path, plus problems.  The output slice and its sub-slices are followed
    by *address* (the `&mut` paths E2 logs with every call), which is stable across havoc of the slice contents."""
    out, probs = [], []
    ex = _resolver(pa, fixed or {})
    sub = {}                      # address of a sub-slice object -> (lo, hi) relative to the output slice
    for e in pa.calls:
        muts = e[5] if len(e) > 5 else ()
        if not muts:
            continue
        tgt = [m[0] for m in muts if m[0] == base or m[0] in sub]
        if not tgt:
            continue
        off, ext = (0, None) if tgt[0] == base else sub[tgt[0]]
        args = ex(e[2])
        nm = C.short(e[1])
        if re.search(r"index_mut$", e[1]):
            lo, hi = _range(args[1] if len(args) > 1 else None)
            if lo is None:
                probs.append("sub-slice with an unrecognised range %s" % show(args[1] if len(args) > 1 else None)[:60])
                continue
            sub["obj:" + e[4]] = (("op:Add", off, lo) if off != 0 else lo,
                                  (("op:Add", off, hi) if off != 0 else hi) if hi is not None else ext)
            continue
        if re.search(r"slice::<impl \[.*\]>::get_mut(::<.*>)?$", e[1]):
            # `out.get_mut(range)`: the Some payload is the sub-slice out[range] (None = the bounds check failed)
            lo, hi = _range(args[1] if len(args) > 1 else None)
            if lo is None:
                probs.append("get_mut with an unrecognised range %s" % show(args[1] if len(args) > 1 else None)[:60])
                continue
            sub["obj:%s.some" % e[4]] = (("op:Add", off, lo) if off != 0 else lo,
                                         (("op:Add", off, hi) if off != 0 else hi) if hi is not None else ext)
            continue
        if re.search(r"slice::<impl \[.*\]>::split_at_mut$", e[1]):
            mid = args[1] if len(args) > 1 else None
            if mid is None:
                probs.append("split_at_mut with an unrecognised mid")
                continue
            m_abs = ("op:Add", off, mid) if off != 0 else mid
            sub["obj:%s.0" % e[4]] = (off, m_abs)
            sub["obj:%s.1" % e[4]] = (m_abs, ext)
            continue
        if re.search(r"raw_value_mut$|::as_mut$|deref_mut$|as_mut_slice$", e[1]):
            continue
        lo, hi = off, ext
        done = False
        for rx, k in WRITE_N:
            if rx.search(e[1]):
                out.append((lo, ("op:Add", lo, k), nm, None, ("be", args[1] if len(args) > 1 else None)))
                done = True
        if done:
            continue
        if ITER_MUT.search(e[1]):
            # `out.iter_mut().zip(src)` consumed by a copy loop (`for (d, s) in .. { *d = *s }`, recognised by
            # zip_copy_loops): element i of the view receives item i of src, for i < min(len view, len src); the interval is
            # [lo, lo + len src) when a bounds check on the path shows the view to be that long
            zc = _zip_copy_of(pa, e, ex)
            if zc is not None:
                n_src, src = zc
                end = ("op:Add", lo, n_src) if lo != 0 else n_src
                need = lin(end)
                proved = False
                for c2 in pa.calls:
                    if re.search(r"check_buffer_boundaries$", c2[1]) and pa.choice(r"^variant\(%s\)$" % re.escape(c2[4])) == "Ok":
                        a2 = ex(c2[2])
                        if len(a2) == 2 and (a2[0] == "top:" + str(tgt[0]) or str(tgt[0]).endswith(str(a2[0]).replace("top:", ""))):
                            d_ = dict(lin(a2[1]))
                            for k_, v_ in need.items():
                                d_[k_] = d_.get(k_, 0) - v_
                            # checked size - needed size is a sum of lengths with non-negative coefficients
                            if all(v_ >= 0 for v_ in d_.values()) and all(k_ == 1 or "len" in repr(k_) for k_, v_ in d_.items() if v_ != 0):
                                proved = True
                if proved:
                    out.append((lo, end, "zip-copy loop", None, ("seq", src)))
                else:
                    probs.append("iter_mut().zip(src) copy loop: no bounds check shows the output to hold len(src) = %s bytes" % show(n_src)[:60])
                continue
        if WHOLE.search(e[1]) or ITER_MUT.search(e[1]):
            if hi is None:
                probs.append("%s on a slice of unknown extent" % nm)
            else:
                v = args[1] if len(args) > 1 else None
                out.append((lo, hi, nm, None, ("fill", v) if nm.endswith("fill") else v))
            continue
        if FILL_PAD.search(e[1]):
            out.append((lo, ("op:Add", lo, args[1]), nm, None, ("fill", args[2] if len(args) > 2 else None)))
            continue
        if NESTED.search(e[1]):
            ok_v = ex("top:%s.ok" % e[4])
            out.append((lo, ("op:Add", lo, ok_v), "nested " + nm, e[4], ("nested", args[0] if args else None)))
            continue
        probs.append("unclassified callee %s receives the output slice mutably" % nm)
    # element writes, into the output slice itself or into one of its sub-slices (offset by where that sub-slice starts)
    for w in pa.writes:
        if not (w[0] == "write-elem" and isinstance(w[2], tuple) and len(w[2]) == 1):
            continue
        tgt = w[1] if (w[1] == base or w[1] in sub) else ("obj:" + str(w[1]) if ("obj:" + str(w[1]) == base or "obj:" + str(w[1]) in sub) else None)
        if tgt is None:
            continue
        off = 0 if tgt == base else sub[tgt][0]
        m = re.match(r"\[(\d+)\]$", str(w[2][0]))
        if m:
            i = int(m.group(1))
            lo = ("op:Add", off, i) if off != 0 else i
            out.append((lo, ("op:Add", lo, 1) if off != 0 else i + 1, "byte %d" % i, None, ex(w[3]) if len(w) > 3 else None))
        else:
            probs.append("element write at a non-constant index %s" % (w[2],))
    return out, probs


def byte_value(ivs, i):
    """what is written to byte i (constant index) of the output: a constant, ('be', value, k-th byte), a tree, or None"""
    for iv in ivs:
        lo, hi, v = const_of(lin(iv[0])), const_of(lin(iv[1])), iv[4]
        if lo is None or hi is None or not (lo <= i < hi):
            continue
        if isinstance(v, tuple) and v and v[0] == "fill":
            return v[1]
        if isinstance(v, tuple) and v and v[0] == "array" and len(v) - 1 == hi - lo:
            return byte_value([(i, i + 1, iv[2], iv[3], v[1 + i - lo])], i)
        if isinstance(v, tuple) and v and v[0] == "be":
            return ("be-byte", v[1], i - lo, hi - lo)
        if isinstance(v, tuple) and v and isinstance(v[0], str) and v[0].endswith("to_be_bytes") and len(v) == 2:
            return ("be-byte", v[1], i - lo, hi - lo)
        if hi - lo == 1:
            # a single byte that is element k of x.to_be_bytes(): the k-th big-endian byte of x
            if isinstance(v, tuple) and len(v) == 2 and isinstance(v[1], str) and isinstance(v[0], tuple) and len(v[0]) == 2 \
                    and isinstance(v[0][0], str):
                m_ = re.match(r"u(16|32|64)::to_be_bytes$", v[0][0])
                k_ = re.match(r"\[(\d+)\]$", v[1])
                if m_ and k_:
                    return ("be-byte", v[0][1], int(k_.group(1)), int(m_.group(1)) // 8)
            return v
        return ("byte-of", v, i - lo, hi - lo)
    return None


def covered(ivs, n):
    """chain the intervals from 0 up to n; -> (ok, reached)"""
    cur = 0
    for _ in range(len(ivs) + 2):
        d = diff(n, cur)
        c = const_of(d)
        if c is not None and c <= 0:
            return True, cur
        best = None
        for iv in ivs:
            lo, hi = iv[0], iv[1]
            c1 = const_of(diff(lo, cur))
            if c1 is None or c1 > 0:
                continue
            adv = diff(hi, cur)
            if not adv or not nonneg(adv):
                continue
            if best is None or nonneg(diff(hi, best)):
                best = hi
        if best is None:
            return False, cur
        cur = best
    return False, cur


# encoders whose writes happen in a loop / closure: covered by a dedicated rule evaluated by the same check
LOOPING = {
    "<stun_rs::attributes::stun::unknown_attributes::UnknownAttributes as stun_rs::attributes::EncodeAttributeValue>::encode":
        "entries of 2 bytes written at 2 x i for i in 0..count (R2.7), size 2 x count",
    "<stun_rs::attributes::stun::password_algorithms::PasswordAlgorithms as stun_rs::attributes::EncodeAttributeValue>::encode":
        "entry at S writes len bytes, padding(len) bytes filled at S + len, next entry at S + len + padding (R1.6)",
}
# stepped into: closures and every stun_rs function that is not itself an encoder (checked on its own), a padding /
# bounds helper or the address XOR helper
STEP = [r"\{closure", r"^stun_rs::(?!.*(::encode$|xor_encode$|fill_padding_value$|check_buffer_boundaries$|socket_addr_xor$|::padding$|"
                      r"MessageHeader.*::decode$|StunError|::fmt$))"]
DISPATCH = "<stun_rs::attributes::StunAttribute as stun_rs::attributes::EncodeAttributeValue>::encode"


def r14_5_write_coverage(ctx, prog, rule="R14.5"):
    ctx.rule(rule, "must-write coverage: on every path on which an attribute-value encoder returns Ok(n), the byte ranges it "
                   "writes (element writes, sub-slices handed to write_uN / copy / fill, nested encoders, inner padding) cover "
                   "[0, n) of its output slice - the encoded bytes cannot depend on the buffer's previous contents; the two "
                   "looping encoders are covered by R2.7 / R1.6, evaluated alongside")
    impls = [b for b in prog.bodies.values() if b.crate == "stun_rs" and b.kind == "AssocFn" and
             (prover.ENC_CTX_RX.search(b.path) or prover.enc_slice_arg(b.path) is not None)]
    impls += [b for b in prog.bodies.values() if prover.XOR_ENC_RX.search(b.path)]
    n_impl = 0
    # phase 1: encoders whose every Ok value is the same constant (AddressFamily 1, u16 2, ...): their size is known to
    # the encoders that nest them
    fixed = {}
    for b in impls:
        if b.path == DISPATCH or b.path in LOOPING:
            continue
        paths, info = C.explore_fn(prog, b.path, "x", STEP, memo_shared=True)
        vals = set()
        for pa in paths:
            r = C.expr_of(pa, pa.ret)
            if isinstance(r, tuple) and r[0] == "Result::Ok":
                v_ = r[1]
                if not isinstance(v_, int):
                    # `Ok(bytes.len())` with bytes = x.to_be_bytes(): a constant once lengths are evaluated
                    from .. import linproof as LP_
                    d_ = LP_.Lin().lin(v_)
                    v_ = int(d_.get(1, 0)) if all(k_ == 1 for k_ in d_) else None
                vals.add(v_)
            elif not (isinstance(r, tuple) and r[0] == "Result::Err"):
                vals.add(None)
        if len(vals) == 1 and None not in vals:
            fixed[b.path] = vals.pop()
    for b in sorted(impls, key=lambda x: x.path):
        if b.path == DISPATCH:
            continue
        if b.path in LOOPING:
            n_impl += 1
            ctx.ob(rule, "coverage:%s" % b.path, True, "looping encoder: %s" % LOOPING[b.path], b.where())
            continue
        paths, info = C.explore_fn(prog, b.path, "x", STEP, memo_shared=True)
        ctx.fn(b)
        n_impl += 1
        si = prover.enc_slice_arg(b.path)
        base = "obj:ctx.raw_value" if prover.ENC_CTX_RX.search(b.path) else (b.debug_name(si + 1) or "arg%d" % (si + 1))
        bad = []
        n_ok = 0
        summary = None
        if info["bounded"]:
            bad.append("exploration bound hit")
        for pa in paths:
            if any(e[0] == "loop-head" for e in pa.log):
                zips = [e[4] for e in pa.calls if re.search(r"^<std::slice::IterMut<'_, u8> as std::iter::Iterator>::zip::<", e[1])]
                if not (len(zips) == 1 and zip_copy_only(pa, zips[0])):
                    bad.append("a loop writes the output (not chained): add a dedicated rule")
                    break
            r = C.expr_of(pa, pa.ret)
            if isinstance(r, tuple) and r[0] == "Result::Err":
                continue
            ivs, probs = intervals(prog, pa, base, fixed)
            if isinstance(r, tuple) and r[0] == "Result::Ok":
                n = _resolver(pa, fixed)(pa.ret)[1]
            else:
                # the result of a nested encoder is returned as it is: that encoder must have been given the whole output
                whole = [iv for iv in ivs if iv[3] is not None and const_of(lin(iv[0])) == 0 and pa.ret == "top:%s" % iv[3]]
                if len(whole) == 1:
                    n_ok += 1
                    summary = summary or "forwards %s on the whole output slice" % whole[0][2]
                    continue
                bad.append("returns %s without an explicit size" % show(r)[:80])
                continue
            n_ok += 1
            if probs:
                bad.extend(probs)
                continue
            ok, reached = covered(ivs, n)
            if not ok:
                bad.append("Ok(%s) but the writes %s cover only [0, %s)" % (
                    show(n)[:60], sorted({"[%s..%s) %s" % (show(iv[0])[:30], show(iv[1])[:40], iv[2]) for iv in ivs})[:6], show(reached)[:40]))
            elif summary is None:
                summary = "Ok(%s) covered by %s" % (show(n)[:50], sorted({iv[2] for iv in ivs}) or "nothing to write")
        if not n_ok and not bad:
            summary = "never returns Ok (encoding this value is refused on every path)"
        ctx.ob(rule, "coverage:%s" % b.path, not bad, "; ".join(sorted(set(bad))[:3]) or summary, b.where(),
               replay=None if not bad else {"function": b.path, "problems": sorted(set(bad))})
    ctx.floor(rule, "encoder impls examined", n_impl, 45)


def size_sets(prog):
    """-> ({encoder path: set of Ok sizes (ints or 'sym')}, same for decoders) for the attribute-value codecs"""
    impls = [b for b in prog.bodies.values() if b.crate == "stun_rs" and b.kind == "AssocFn" and
             (prover.ENC_CTX_RX.search(b.path) or prover.enc_slice_arg(b.path) is not None)]
    impls += [b for b in prog.bodies.values() if prover.XOR_ENC_RX.search(b.path)]
    enc = {}
    raw = {}
    for b in impls:
        if b.path == DISPATCH:
            continue
        paths, info = C.explore_fn(prog, b.path, "x", STEP, memo_shared=True)
        vals = set()
        for pa in paths:
            r = C.expr_of(pa, pa.ret)
            if isinstance(r, tuple) and r[0] == "Result::Err":
                continue
            if isinstance(r, tuple) and r[0] == "Result::Ok":
                vals.add(r[1] if isinstance(r[1], int) else "sym")
            else:
                # forwarded result of a nested encoder
                fw = [e[1] for e in pa.calls if pa.ret == "top:%s" % e[4]]
                vals.add(("fwd", fw[0]) if fw else "sym")
        raw[b.path] = vals

    def resolve(path, depth=0):
        out = set()
        for v in raw.get(path, {"sym"}):
            if isinstance(v, tuple) and v[0] == "fwd":
                tgt = v[1]
                cands = [p for p in raw if p == tgt or re.sub(r"::<.*>$", "", tgt) == p]
                if cands and depth < 4:
                    out |= resolve(cands[0], depth + 1)
                else:
                    out.add("sym")
            else:
                out.add(v)
        return out
    for p_ in raw:
        enc[p_] = resolve(p_)
    dec = {}
    for b in prog.bodies.values():
        if b.crate == "stun_rs" and re.search(r" as stun_rs::attributes::DecodeAttributeValue>::decode$", b.path):
            paths, info = C.explore_fn(prog, b.path, "x", STEP, memo_shared=True)
            vals = set()
            for pa in paths:
                r = C.expr_of(pa, pa.ret)
                if isinstance(r, tuple) and r[0] == "Result::Ok":
                    v = r[1]
                    vals.add(v[2] if isinstance(v, tuple) and v[0] == "tuple" and len(v) == 3 and isinstance(v[2], int) else "sym")
                elif not (isinstance(r, tuple) and r[0] == "Result::Err"):
                    vals.add("sym")
            dec[b.path] = vals
    return enc, dec


def r1_11_size_agreement(ctx, prog, rule="R1.11"):
    ctx.rule(rule, "sibling agreement on sizes: for every attribute kind whose encoder and decoder both have constant sizes, the "
                   "set of sizes the encoder returns equals the set of sizes the decoder consumes (4 for CHANNEL-NUMBER, 8 / 20 "
                   "for address attributes, 20 / 32 for the integrity attributes, ...)")
    enc, dec = size_sets(prog)
    n = 0
    for dp, dv in sorted(dec.items()):
        ty = re.match(r"<(.*) as stun_rs::attributes::DecodeAttributeValue>::decode$", dp).group(1)
        ep = "<%s as stun_rs::attributes::EncodeAttributeValue>::encode" % ty
        ev = enc.get(ep)
        if ev is None or "sym" in dv or "sym" in ev or not dv or not ev:
            continue
        n += 1
        ctx.ob(rule, "sizes:%s" % ty.split("::")[-1], dv == ev, "encoder returns %s, decoder consumes %s" % (sorted(ev), sorted(dv)), prog.body(dp).where())
    ctx.floor(rule, "attribute kinds with constant sizes on both sides", n, 15)
