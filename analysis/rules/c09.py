"""C09 - decoding admits attributes after integrity/FINGERPRINT only per the RFC 8489 rule.

R9.1  the admission automaton of stun_rs::context::ignore_attribute, extracted by abstract
      interpretation over {3 flags} x {MI, SHA256, FP, other}, is equivalent to the RFC automaton
      (product exploration = all sequences of every length).
R9.2  in MessageDecoder::decode, validate_attribute and with_attribute happen only for admitted
      attributes (or when the caller opted out), on every path of every loop iteration; a decoder
      without context filters.
R9.3  the agent's ProtectedAttributeIteratorObject::next implements the same automaton; R9.1 and
      R9.3 are compared with the specification (hence with each other).
"""
import re
from ..absint import Interp, State, Const, Top, Sym, Adt, Ref, UNIT
from ..models import compile_models, some, NONE, ok, err, opt_cases, deref
from ..mirq import q_of
from .. import shared

KINDS = ("ORD", "MI", "SHA", "FP")


def spec_step(state, kind):
    """RFC 8489 rule as worded by the property. state = (mi_seen, sha_seen, fp_seen) on the wire."""
    mi, sha, fp = state
    if kind == "ORD":
        adm = not (mi or sha or fp)
    elif kind == "MI":
        adm = not (mi or sha or fp)
    elif kind == "SHA":
        adm = not (sha or fp)
    else:
        adm = not fp
    nxt = (mi or kind == "MI", sha or kind == "SHA", fp or kind == "FP")
    return adm, nxt


def product_check(ctx, rule, name, transfer, where):
    """transfer: dict (code_state, kind) -> set of (admitted, next_code_state).  Explore the
    reachable product with the specification automaton from the initial states."""
    init = ((False, False, False), (False, False, False))
    seen = {init: ()}
    work = [init]
    pairs = 0
    ok_all = True
    while work:
        cs, ss = work.pop()
        for k in KINDS:
            outs = transfer.get((cs, k))
            pairs += 1
            if not outs:
                ctx.violation(rule, "%s:no-transfer:%s:%s" % (name, flags_str(cs), k),
                              "no abstract result for state %s input %s" % (flags_str(cs), k), where)
                ok_all = False
                continue
            sadm, snext = spec_step(ss, k)
            if len(outs) != 1:
                ctx.violation(rule, "%s:nondeterministic:%s:%s" % (name, flags_str(cs), k),
                              "abstract transfer is not a function: %s" % sorted(outs), where)
                ok_all = False
            for (adm, cnext) in outs:
                seq = seen[(cs, ss)] + (k,)
                if adm != sadm:
                    ctx.violation(rule, "%s:admission:%s" % (name, "-".join(seq)),
                                  "on wire sequence <%s> the last attribute is %s by the code but must be %s "
                                  "(code flags before: %s)" % (", ".join(seq), "admitted" if adm else "ignored",
                                                               "admitted" if sadm else "ignored", flags_str(cs)),
                                  where, replay={"sequence": list(seq), "code_state": flags_str(cs),
                                                 "spec_state": flags_str(ss)})
                    ok_all = False
                    continue
                nxt = (cnext, snext)
                if nxt not in seen:
                    seen[nxt] = seq
                    work.append(nxt)
    ctx.ob(rule, "%s:equivalence" % name, ok_all,
           "product of the extracted automaton with the RFC automaton: %d reachable state pairs, %d (pair, input) "
           "steps, all outputs equal" % (len(seen), pairs), where,
           sample={"rule": rule, "automaton": name, "reachable_pairs": len(seen),
                   "example_transfer": {"%s/%s" % (flags_str(c), k): sorted(v) for (c, k), v in list(transfer.items())[:6]}})
    return len(seen), pairs


def flags_str(s):
    return "".join("1" if x else "0" for x in s)


# ---------------------------------------------------------------------------------------------

def type_codes(ctx, prog):
    """the three type codes the filter compares with, evaluated from the get_type() bodies."""
    codes = {}
    for kind, ty in (("MI", "stun_rs::attributes::stun::message_integrity::MessageIntegrity"),
                     ("SHA", "stun_rs::attributes::stun::message_integrity_sha256::MessageIntegritySha256"),
                     ("FP", "stun_rs::attributes::stun::fingerprint::Fingerprint")):
        b = prog.body("<%s as stun_rs::attributes::StunAttributeType>::get_type" % ty)
        it = Interp(prog, compile_models())
        outs = it.run(b, [], State())
        vals = set()
        for o in outs:
            r = o.ret
            if isinstance(r, Adt) and r.fields and isinstance(r.fields[0], Const):
                vals.add(r.fields[0].v)
            else:
                vals.add(None)
        ctx.fn(b)
        if len(vals) != 1 or None in vals:
            ctx.violation("R9.1", "type-code:%s" % kind, "get_type() of %s is not a constant: %s" % (ty, vals), b.where())
            continue
        codes[kind] = vals.pop()
    expected = {"MI": 0x0008, "SHA": 0x001C, "FP": 0x8028}
    for k, v in expected.items():
        ctx.ob("R9.1", "type-code:%s" % k, codes.get(k) == v,
               "type code of %s is 0x%04X (RFC 8489: 0x%04X)" % (k, codes.get(k, -1), v))
    return codes


def r91(ctx, prog):
    ctx.rule("R9.1", "admission automaton of context::ignore_attribute == RFC 8489 automaton (all sequences)")
    b = prog.body("stun_rs::context::ignore_attribute")
    ctx.fn(b)
    codes = type_codes(ctx, prog)
    if len(codes) != 3:
        return
    # the type code must only be touched through equality tests
    q = q_of(b)
    bad = uses_other_than_eq(b, q, 2)
    ctx.ob("R9.1", "type-code-only-compared", not bad,
           "the attribute type argument flows only into PartialEq::eq" if not bad else
           "attribute type used otherwise: %s" % bad, b.where())
    others = [0x0000, 0x0006, 0x0009, 0x8022, 0x8029, 0xFFFF]
    transfer = {}
    evals = 0
    for flags in range(8):
        cs = tuple(bool((flags >> i) & 1) for i in range(3))
        for kind in KINDS:
            reps = [codes[kind]] if kind != "ORD" else others
            for code in reps:
                it = Interp(prog, compile_models())
                st = State()
                st.heap["filter"] = Adt("stun_rs::context::AttributeFilter", 0, [Const(1 if x else 0, "bool") for x in cs])
                outs = it.run(b, [Ref("filter", (), True),
                                  Adt("stun_rs::attributes::AttributeType", 0, [Const(code)])], st)
                evals += 1
                for o in outs:
                    f = o.st.heap["filter"]
                    if not (isinstance(o.ret, Const) and all(isinstance(x, Const) for x in f.fields)):
                        ctx.violation("R9.1", "undetermined:%s:%s" % (flags_str(cs), kind),
                                      "abstract result not determined: ret=%r filter=%r unmodelled=%s"
                                      % (o.ret, f, it.unmodelled), b.where())
                        continue
                    nxt = tuple(bool(x.v) for x in f.fields)
                    transfer.setdefault((cs, kind), set()).add((not bool(o.ret.v), nxt))
    # field order of the filter struct: (message_integrity, message_integrity_sha256, fingerprint)
    adt = prog.adt("stun_rs::context::AttributeFilter")
    names = [f["name"] for f in adt["variants"][0]["fields"]]
    ctx.ob("R9.1", "filter-fields", names == ["message_integrity", "message_integrity_sha256", "fingerprint"],
           "AttributeFilter fields: %s" % names)
    n, pairs = product_check(ctx, "R9.1", "decoder", transfer, b.where())
    ctx.extra["r91_abstract_evaluations"] = evals
    return transfer


def uses_other_than_eq(body, q, local):
    """operands mentioning `local` outside `&local` borrows that flow into PartialEq::eq calls"""
    bad = []
    ref_temps = set()
    for bi, blk in enumerate(body.blocks):
        if blk["cleanup"]:
            continue
        for s in blk["stmts"]:
            if s["k"] != "assign":
                continue
            rv = s["rv"]
            if rv["k"] == "ref" and rv["place"]["l"] == local and not rv["place"]["p"]:
                ref_temps.add(s["place"]["l"])
            elif mentions(rv, local):
                bad.append("bb%d: %s" % (bi, rv["k"]))
        t = blk["term"]
        if t["k"] == "call":
            for a in t["args"]:
                if a["k"] in ("copy", "move") and a["place"]["l"] == local:
                    bad.append("bb%d: passed by value" % bi)
        elif t["k"] == "switch" and t["discr"]["k"] in ("copy", "move") and t["discr"]["place"]["l"] == local:
            bad.append("bb%d: switch" % bi)
    for c in body.calls():
        if body.blocks[c.block]["cleanup"]:
            continue
        for a in c.args:
            if a["k"] in ("copy", "move") and a["place"]["l"] in ref_temps and not a["place"]["p"]:
                if not re.search(r"PartialEq.*::eq$", c.decl_path):
                    bad.append("bb%d: &type passed to %s" % (c.block, c.callee_path))
    return bad


def mentions(rv, local):
    def op_m(o):
        return o is not None and o["k"] in ("copy", "move") and o["place"]["l"] == local
    k = rv["k"]
    if k in ("use", "cast", "repeat"):
        return op_m(rv.get("op"))
    if k == "binop":
        return op_m(rv["a"]) or op_m(rv["b"])
    if k == "unop":
        return op_m(rv["a"])
    if k == "aggregate":
        return any(op_m(o) for o in rv["ops"])
    if k in ("ref", "rawptr", "discr"):
        return rv["place"]["l"] == local
    return False


# --------------------------------------------------------------------------------------------- R9.3

def r93(ctx, prog):
    ctx.rule("R9.3", "agent ProtectedAttributeIteratorObject::next == RFC 8489 automaton (all sequences)")
    b = prog.body("<stun_agent::ProtectedAttributeIteratorObject<'a> as std::iter::Iterator>::next")
    ctx.fn(b)
    enum = prog.adt("stun_rs::StunAttribute")
    vnames = [v["name"] for v in enum["variants"]]
    kind_of = {}
    for i, n in enumerate(vnames):
        kind_of[i] = {"MessageIntegrity": "MI", "MessageIntegritySha256": "SHA", "Fingerprint": "FP"}.get(n, "ORD")
    for need in ("MessageIntegrity", "MessageIntegritySha256", "Fingerprint"):
        if need not in vnames:
            ctx.anchor_missing("R9.3", "StunAttribute::" + need)
            return
    adt = prog.adt("stun_agent::ProtectedAttributeIteratorObject")
    names = [f["name"] for f in adt["variants"][0]["fields"]]
    if names != ["iter", "integrity", "integrity_sha256", "fingerprint"]:
        ctx.anchor_missing("R9.3", "ProtectedAttributeIteratorObject fields %s" % names)
        return
    transfer = {}
    evals = 0
    for flags in range(8):
        cs = tuple(bool((flags >> i) & 1) for i in range(3))
        for vix, vn in enumerate(vnames):
            kind = kind_of[vix]
            elems = [Adt("stun_rs::StunAttribute", vix, [Top("attr-value")], vn)]
            it = Interp(prog, compile_models(shared.seq_iter_models(elems)))
            st = State()
            st.heap["piter"] = Adt("stun_agent::ProtectedAttributeIteratorObject", 0,
                                   [Adt("absiter", 0, [Const(0)])] + [Const(1 if x else 0, "bool") for x in cs])
            outs = it.run(b, [Ref("piter", (), True)], st)
            evals += 1
            for o in outs:
                f = o.st.heap["piter"]
                r = o.ret
                fl = f.fields[1:]
                pos = f.fields[0].fields[0] if isinstance(f.fields[0], Adt) else None
                if not (isinstance(r, Adt) and r.name.endswith("Option") and all(isinstance(x, Const) for x in fl)
                        and isinstance(pos, Const)):
                    ctx.violation("R9.3", "undetermined:%s:%s" % (flags_str(cs), vn),
                                  "abstract result not determined: ret=%r state=%r unmodelled=%s" % (r, f, it.unmodelled),
                                  b.where())
                    continue
                if pos.v != 1 and r.variant == 1:
                    ctx.violation("R9.3", "consumed:%s:%s" % (flags_str(cs), vn),
                                  "yielded after consuming %d elements of a 1-element sequence" % pos.v, b.where())
                nxt = tuple(bool(x.v) for x in fl)
                transfer.setdefault((cs, kind), set()).add((r.variant == 1, nxt))
    product_check(ctx, "R9.3", "agent-iterator", transfer, b.where())
    ctx.extra["r93_abstract_evaluations"] = evals
    return transfer


# --------------------------------------------------------------------------------------------- R9.2

def r92(ctx, prog, rule="R9.2"):
    ctx.rule(rule, "MessageDecoder::decode validates and returns only admitted attributes (or all, when the "
                     "caller opted out); no context = filtering")
    res = shared.decode_paths(ctx, prog)
    if res is None:
        return
    segs, info = res
    n = 0
    for seg in segs:
        ignored = seg["ignored"]           # 0/1/None (None: ignore_attribute not called in this iteration)
        opt_out = seg["not_ignore"]        # 1 iff ctx is Some and not_ignore flag set
        validated = seg["validated"]
        appended = seg["appended"]
        n += 1
        key = "ctx=%s,not_ignore=%s,ignored=%s" % (seg["ctx"], seg["not_ignore"], ignored)
        if ignored is None and (not opt_out or (not validated and not appended)):
            # no filter decision taken in this iteration: then nothing may be validated or returned (when the caller opted
            # out, the verdict of the filter is not consulted: `keep_all || !ignored`)
            ok_ = not validated and not appended
            ctx.ob(rule, "iteration:%s:no-decision" % key, ok_,
                   "iteration without a filter decision: validated=%s appended=%s" % (validated, appended),
                   info["where"], replay=seg)
            continue
        admitted = (ignored == 0) or bool(opt_out)
        if not admitted:
            ctx.ob(rule, "iteration:%s" % key, not validated and not appended,
                   "non-admitted attribute: validated=%s returned=%s (must be neither)" % (validated, appended),
                   info["where"], replay=seg)
        else:
            # admitted: if it is returned it was validated first (C04 R4.2), and it is returned
            # unless validation failed
            ok_ = (appended and validated) or (validated and seg["exit"] == "err") or (appended and validated)
            ctx.ob(rule, "iteration:%s:%s" % (key, seg["exit"]), ok_,
                   "admitted attribute: validated=%s returned=%s exit=%s" % (validated, appended, seg["exit"]),
                   info["where"], replay=seg)
    ctx.floor(rule, "decode loop iteration classes", n, 6)
    ctx.extra["r92_iteration_segments"] = n


def check(ctx, env):
    ctx.explanation = (
        "Static: the admission rule is decided on the abstract automaton extracted from the MIR of "
        "stun_rs::context::ignore_attribute and of stun_agent's protected iterator by abstract interpretation "
        "(flags x attribute kind; type codes folded from the get_type() bodies); equivalence with the RFC 8489 "
        "automaton is decided by exhaustive exploration of the product automaton, which covers wire sequences of "
        "every length. The decode loop is explored path-sensitively (all decoder options symbolic) to show that "
        "validation and appending are gated by the filter decision. No rustun code is executed.")
    ctx.assumptions = [
        "rustc MIR construction and callee resolution",
        "callee models of analysis/models.py (Option/Result/Try/PartialEq/slice iterator)",
        "the behaviour on 'other' type codes is represented by 6 codes; the type code is checked to flow only into equality tests",
    ]
    prog = env.prog("agent")
    r91(ctx, prog)
    r93(ctx, prog)
    r92(ctx, prog)
    # non-admitted attributes must not influence validation either: the text that MACs / CRCs are computed over ends at
    # the first attribute of the requested type, whatever follows it (same rule as C04 R4.7)
    from . import codec_rules as K
    K.r4_7_input_text(ctx, prog, rule="R9.4")
    # the agent's own FINGERPRINT check uses that text (get_input_text::<Fingerprint>), not "the message minus its last 8
    # bytes": attributes appended after FINGERPRINT must not make a valid message fail (same rule as C10 R10.2)
    K.r10_2_fail_closed(ctx, prog, rule="R9.5")
    ctx.extra["exhaustive"] = True
