"""C01 - encode then decode returns the same message (structural necessary conditions)."""
import re
from .. import client as C
from ..absint import Interp, State, Adt, Const
from ..models import compile_models
from .exprs import show
from .. import extract


def type_codes(ctx, prog, rule):
    """{type short name: code} from every StunAttributeType::get_type impl, evaluated by E2"""
    out = {}
    for im in prog.impls:
        if im.get("trait_name") != "stun_rs::attributes::StunAttributeType":
            continue
        sty = im["types"][im["self_ty"]]["s"]
        if sty.endswith("::StunAttribute") or sty.endswith("::Unknown"):
            continue
        it = [x for x in im["items"] if x["name"] == "get_type"]
        if not it or it[0]["key"] not in prog.bodies:
            continue
        b = prog.bodies[it[0]["key"]]
        outs = Interp(prog, compile_models()).run(b, [], State())
        vals = set()
        for o in outs:
            r = o.ret
            vals.add(r.fields[0].v if isinstance(r, Adt) and r.fields and isinstance(r.fields[0], Const) else None)
        if len(vals) != 1 or None in vals:
            ctx.violation(rule, "type-code-not-constant:%s" % sty.split("::")[-1], "get_type() of %s evaluates to %s" % (sty, vals), b.where())
            continue
        out[sty.split("::")[-1]] = (vals.pop(), b)
    return out


def registered_types(prog):
    """type names A of every DecoderRegistry::register::<A>() call in the *_register_attributes functions
    called from the REGISTRY initialiser"""
    init = [b for b in prog.bodies.values() if b.crate == "stun_rs" and
            any(re.search(r"stun::stun_register_attributes$", c.callee_path) for c in b.calls())]
    regs = set()
    fns = set()
    for b in init:
        for c in b.calls():
            if re.search(r"_register_attributes$", c.callee_path):
                fb = prog.bodies.get(c.callee_key)
                if fb is not None:
                    fns.add(fb.path)
                    for c2 in fb.calls():
                        m = re.search(r"DecoderRegistry::register::<(.*)>$", c2.full)
                        if m:
                            regs.add(m.group(1).split("::")[-1])
    return regs, sorted(fns), [b.path for b in init]


def r1_1(ctx, prog, label):
    enum = prog.adt("stun_rs::attributes::StunAttribute")
    variants = {}
    for v in enum["variants"]:
        if v["name"] == "Unknown":
            continue
        fty = enum["types"][v["fields"][0]["ty"]]["s"].split("::")[-1] if v["fields"] else None
        variants[v["name"]] = fty
    regs, fns, init = registered_types(prog)
    if not init:
        ctx.anchor_missing("R1.1", "REGISTRY initialiser calling stun_register_attributes (%s)" % label)
        return
    types = set(variants.values())
    missing = sorted(types - regs)
    extra = sorted(regs - types)
    ctx.ob("R1.1", "registration@%s" % label, not missing and not extra,
           "%d attribute kinds in StunAttribute, %d registered decoders (via %s); not registered: %s; registered without a variant: %s"
           % (len(types), len(regs), [f.split("::")[-1] for f in fns], missing or "none", extra or "none"))
    return len(types)


def accept_max(paths):
    """largest length for which some Ok path exists, from the comparisons of a len() with a constant"""
    best = None
    for pa in paths:
        if pa.ret_kind == "Err":
            continue
        bound = None
        for n, v in pa.choices:
            m = re.match(r"cmp:(Lt|Le|Gt|Ge):(.*):\('c', (\d+)\)$", str(n))
            if m and ("len" in m.group(2) or int(m.group(3)) >= 64):
                op, c = m.group(1), int(m.group(3))
                ub = {("Lt", 1): c - 1, ("Le", 1): c, ("Ge", 0): c - 1, ("Gt", 0): c}.get((op, v))
                if ub is not None:
                    bound = ub if bound is None else min(bound, ub)
        if bound is not None:
            best = bound if best is None else max(best, bound)
    return best


STRING_ATTRS = {
    "UserName": "stun_rs::attributes::stun::user_name::UserName",
    "Realm": "stun_rs::attributes::stun::realm::Realm",
    "Nonce": "stun_rs::attributes::stun::nonce::Nonce",
    "Software": "stun_rs::attributes::stun::software::Software",
}
TRANSFORMERS = [r"strings::opaque_string_enforce$", r"strings::QuotedString::new", r"QuotedString as std::convert::TryFrom<&str>>::try_from$"]
VALIDATORS = [r"strings::opaque_string_prepapre$", r"QuotedString as stun_rs::Decode<'a>>::decode$", r"str::from_utf8$|std::str::from_utf8$"]


def norm_calls(b):
    tr, va = set(), set()
    for c in b.calls():
        for r in TRANSFORMERS:
            if re.search(r, c.callee_path) or re.search(r, c.full):
                tr.add("OpaqueString::enforce" if "enforce" in r else "QuotedString::new")
        for r in VALIDATORS:
            if re.search(r, c.callee_path) or re.search(r, c.full):
                va.add(c.callee_path.split("::")[-1])
    return tr, va


def r1_3_r1_4(ctx, prog):
    ctx.rule("R1.3", "size limits are nested for the length-limited string attributes: accepted by the constructor => accepted "
                     "by the encoder => (as wire length) accepted by the decoder")
    ctx.rule("R1.4", "normalisation agreement: every transformer the decoder applies (OpaqueString enforce, QuotedString "
                     "trimming) is also applied by the public constructor, so a constructed value is a fixpoint of decoding")
    n = 0
    for name, ty in STRING_ATTRS.items():
        new = prog.body(ty + "::new", required=False)
        enc = prog.body("<%s as stun_rs::attributes::EncodeAttributeValue>::encode" % ty, required=False)
        dec = prog.body("<%s as stun_rs::attributes::DecodeAttributeValue>::decode" % ty, required=False)
        if new is None or enc is None or dec is None:
            ctx.anchor_missing("R1.3", "%s new/encode/decode" % name)
            continue
        lims = {}
        for what, b in (("new", new), ("encode", enc), ("decode", dec)):
            paths, info = C.explore_fn(prog, b.path, "x", [r"\{closure"])
            ctx.fn(b)
            lims[what] = accept_max(paths)
        n += 1
        ok = all(v is not None for v in lims.values()) and lims["new"] <= lims["encode"] <= lims["decode"]
        ctx.ob("R1.3", "limits:%s" % name, ok, "largest accepted length: constructor %s, encoder %s, decoder %s" % (lims["new"], lims["encode"], lims["decode"]),
               new.where())
        tn, vn = norm_calls(new)
        td, vd = norm_calls(dec)
        ctx.ob("R1.4", "normalisers:%s" % name, td <= tn,
               "decoder transforms with %s (validates with %s); constructor transforms with %s (validates with %s)"
               % (sorted(td) or "nothing", sorted(vd) or "nothing", sorted(tn) or "nothing", sorted(vn) or "nothing"), dec.where())
    ctx.floor("R1.3", "length-limited string attributes", n, 4)
    # the two string helpers are what their names say
    for fn, callee in (("opaque_string_enforce", "enforce"), ("opaque_string_prepapre", "prepare")):
        b = prog.body("stun_rs::strings::" + fn)
        cs = [c.callee_path for c in b.calls()]
        ctx.ob("R1.4", "helper:%s" % fn, len(cs) == 1 and cs[0].endswith("::" + callee), "%s calls %s" % (fn, [x.split("::")[-1] for x in cs]), b.where())


def r1_5_header(ctx, prog):
    ctx.rule("R1.5", "the encoder writes all four header fields (type, length = 0, cookie, id) before the attribute loop, so the "
                     "returned size, 20 + header length and the decoder's consumed size agree even for attribute-less messages")
    from . import c02
    c02.r2_5_constants(ctx, prog, rule="R1.5")


def r1_6_nested_padding(ctx, prog, rule="R1.6"):
    ctx.rule(rule, "nested TLV padding agreement (PASSWORD-ALGORITHMS): both encoder and decoder pad per entry - the argument of "
                   "padding() is the size of the entry just encoded / decoded, never an accumulated size; the encoder fills "
                   "exactly the padding(len) bytes that follow the entry it has just written (start = entry start + len) with "
                   "the configured padding value")
    pa_t = "stun_rs::attributes::stun::password_algorithms::PasswordAlgorithms"
    for side, tr, callee in (("decode", "DecodeAttributeValue", "decode"), ("encode", "EncodeAttributeValue", "encode")):
        b = prog.body("<%s as stun_rs::attributes::%s>::%s" % (pa_t, tr, side))
        paths, info = C.explore_fn(prog, b.path, "x", [r"\{closure"])
        ctx.fn(b)
        args = {}
        for pa in paths:
            for e in pa.calls:
                if re.search(r"^stun_rs::common::padding$", e[1]):
                    t = C.expr_of(pa, e[2][0])
                    args[repr(t)[:120]] = t

        def entry_size(t):
            # 0 (nothing decoded yet) or a projection of the nested encoder/decoder result
            if t == 0:
                return True
            if isinstance(t, tuple) and len(t) == 2 and isinstance(t[0], tuple) and isinstance(t[1], str):
                node = t[0]
                return isinstance(node[0], str) and node[0].endswith("::%s" % callee) and "PasswordAlgorithm" in node[0]
            return False
        bad = [k for k, t in args.items() if not entry_size(t)]
        ctx.ob(rule, "padding-argument:%s" % side, bool(args) and not bad,
               "padding() is applied to %s%s" % (sorted(x[:60] for x in args), (" - not an entry size: %s" % bad[0][:100]) if bad else ""), b.where())
        if side != "encode":
            continue
        # where the padding bytes are written, per loop iteration (raw call-time arguments: exact within an iteration)
        from .. import shared
        seen = {}
        for pa in paths:
            for seg in shared.segments(pa.log, b.path)[1:]:
                calls = [e for e in seg if e[0] == "call"]
                fills = [e for e in calls if re.search(r"common::fill_padding_value$", e[1])]
                if not fills:
                    continue
                ix = [e for e in calls if re.search(r"::index_mut$", e[1])]
                enc = [e for e in calls if re.search(r"PasswordAlgorithm as stun_rs::attributes::EncodeAttributeValue>::encode$|PasswordAlgorithm.*::encode$", e[1])]
                pads = [e for e in calls if re.search(r"^stun_rs::common::padding$", e[1])]
                pval = [e for e in calls if re.search(r"EncoderContext::padding$", e[1])]
                ok = len(fills) == 1 and len(ix) == 2 and len(enc) == 1 and len(pads) == 1 and len(pval) == 1
                why = "%d fill, %d index_mut, %d nested encode, %d padding()" % (len(fills), len(ix), len(enc), len(pads))
                if ok:
                    atom = "top:%s.ok" % enc[0][4]
                    x1, x2 = ix[0][2][1], ix[1][2][1]
                    f = fills[0][2]
                    ok = isinstance(x1, tuple) and x1[0] == "RangeFrom" and isinstance(x2, tuple) and x2[0] == "RangeFrom" \
                        and x2[1] == ("op:Add", x1[1], atom) and pads[0][2] == (atom,) \
                        and isinstance(f[0], tuple) and f[0][1] == "top:%s.*" % ix[1][4] and f[1] == "top:%s" % pads[0][4] and f[2] == "top:%s" % pval[0][4]
                    why = "entry at %s.., padding filled at %s.. for %s byte(s) with %s" % (
                        str(x1[1])[:30], "entry start + len" if x2[1] == ("op:Add", x1[1], atom) else str(x2[1])[:120],
                        "padding(len)" if f[1] == "top:%s" % pads[0][4] else str(f[1])[:60], "the configured value" if f[2] == "top:%s" % pval[0][4] else str(f[2])[:60])
                k = "fill:start=%s" % ("0" if ok and x1[1] == 0 else "widened" if ok else "bad")
                if k not in seen or not ok:
                    seen[k] = (ok, why, pa)
        for k, (ok, why, pa) in sorted(seen.items()):
            ctx.ob(rule, "padding-%s" % k, ok, why, b.where(), replay=None if ok else pa.describe())
        ctx.floor(rule, "iterations with inner padding", len(seen), 1)


def r1_10_context_slice(ctx, prog, rule="R1.10"):
    ctx.rule(rule, "the already-decoded part of the message handed to each attribute decoder is buffer[0..index] with "
                   "index = 20 for the first attribute and 20 + (iterator position) afterwards - never less than the header, "
                   "which the XOR-address decoders read (transaction id)")
    paths, info = C.explore_fn(prog, "stun_rs::context::MessageDecoder::decode", "d", [r"\{closure"])
    ctx.fn(info["body"])
    seen = {}
    n_ctx = 0
    for pa in paths:
        for e in pa.calls:
            if re.search(r"AttributeDecoderContext::<'\\w+>::new$|AttributeDecoderContext.*::new$", e[1]):
                n_ctx += 1
                a = e[2]
                if not (len(a) > 1 and "ret:index@" in repr(a[1])):
                    seen["context built from %s" % show(C.expr_of(pa, a[1]) if len(a) > 1 else None)[:60]] = False
            # the slices of `buffer` taken in the loop (raw call-time arguments: exact within an iteration)
            if re.search(r"::index$", e[1]) and len(e[2]) == 2 and "top:buffer" in repr(e[2][0]):
                sl = ("index::index", "top:buffer", C.expr_of(pa, e[2][1]))
                k = show(sl)[:120]
                # buffer[0..n] or buffer[..n]
                rng = sl[2]
                hi = None
                if isinstance(rng, tuple) and rng[0] == "Range" and rng[1] == 0:
                    hi = rng[2]
                elif isinstance(rng, tuple) and rng[0] == "RangeTo" and len(rng) == 2:
                    hi = rng[1]
                ok = hi is not None and (
                    hi == 20 or (isinstance(hi, tuple) and hi[0] == "op:Add" and 20 in hi[1:] and "RawAttributesIter::pos" in repr(hi)))
                if k not in seen or not ok:
                    seen[k] = ok
    ctx.ob(rule, "context-slice:used", n_ctx >= 1, "%d AttributeDecoderContext::new call(s) receive a slice of buffer" % n_ctx, info["where"])
    for k, ok in sorted(seen.items()):
        ctx.ob(rule, "context-slice:%s" % ("header-only" if re.search(r"Range(To)?\((0, )?20\)\)$", k) else "header+attributes" if "pos" in k else k[:40]), ok,
               "decoders receive %s" % k, info["where"])
    ctx.floor(rule, "context slice shapes", len(seen), 2)


def r1_13_normalised_value_stored(ctx, prog, rule="R1.13"):
    ctx.rule(rule, "USERNAME stores the *result* of the OpaqueString profile: on every Ok path of UserName::new and of its decoder "
                   "the stored string is computed from the value opaque_string_enforce returned - the raw input reaches it only "
                   "through that call (a constructor that validates and then stores the raw text builds values that are not "
                   "fixpoints of the decoder's normalisation: the round trip changes them)")
    UN = "stun_rs::attributes::stun::user_name::UserName"
    n = 0
    for fn, what in ((UN + "::new", "constructor"), ("<%s as stun_rs::attributes::DecodeAttributeValue>::decode" % UN, "decoder")):
        b = prog.body(fn, required=False)
        if b is None:
            ctx.anchor_missing(rule, fn)
            continue
        paths, info = C.explore_fn(prog, b.path, "x", [r"\{closure"])
        ctx.fn(b)
        for pa in paths:
            r = C.expr_of(pa, pa.ret)
            if not (isinstance(r, tuple) and r and r[0] == "Result::Ok"):
                continue
            # the UserName(..) node of the result
            found = []

            def find(x):
                if isinstance(x, tuple):
                    if x and x[0] == "UserName":
                        found.append(x)
                        return
                    for y in x:
                        find(y)
            find(r)
            raw, seen_enf = [], [False]

            def walk(x, under):
                if isinstance(x, tuple):
                    here = len(x) >= 1 and isinstance(x[0], str) and x[0].endswith("opaque_string_enforce")
                    if here:
                        seen_enf[0] = True
                    for y in x:
                        walk(y, under or here)
                elif isinstance(x, str) and x.startswith("top:") and not under:
                    raw.append(x)
            for f_ in found:
                walk(f_, False)
            ok = len(found) == 1 and not raw and seen_enf[0]
            n += 1
            ctx.ob(rule, "normalised:%s" % what, ok,
                   "the stored name is %s" % ("the profile's result" if ok else "built from the raw input %s (or no UserName value found: %d)" % (sorted(set(raw)), len(found))),
                   b.where(), replay=None if ok else pa.describe())
    ctx.floor(rule, "Ok paths of the USERNAME constructor and decoder", n, 2)


def check(ctx, env):
    ctx.explanation = (
        "Static, structural necessary conditions of the round trip: (R1.1) the variants of StunAttribute and the set of types "
        "registered in the decoder registry are equal in every analysed feature configuration (quick: none and all; thorough: "
        "all 32 subsets); (R1.2) type codes, evaluated from the get_type() bodies, are pairwise distinct; (R1.3) the length "
        "predicates extracted by abstract interpretation from constructor, encoder and decoder are nested; (R1.4) the decoder "
        "applies no transforming normaliser that the constructor does not apply. Equality of arbitrary values after a round "
        "trip and equality of the three sizes are NOT decided (they quantify over runtime values).")
    ctx.assumptions = ["rustc MIR", "classification of the string helpers into transformers / validators (TRANSFORMERS / VALIDATORS tables)"]
    ctx.rule("R1.1", "every attribute kind has a registered decoder (StunAttribute variants == registered types) per feature configuration")
    ctx.rule("R1.2", "attribute type codes are pairwise distinct (a duplicate would also make DecoderRegistry::register panic)")
    configs = ["full", "agent"]
    if env.tier == "thorough":
        configs += [c for c in extract.feature_subset_configs() if c not in ("feat-",)]
    total = 0
    for cfg in configs:
        prog = env.prog(cfg)
        k = r1_1(ctx, prog, cfg)
        total += k or 0
        codes = type_codes(ctx, prog, "R1.2")
        by = {}
        for nme, (code, b) in codes.items():
            by.setdefault(code, []).append(nme)
        dups = {hex(c): v for c, v in by.items() if len(v) > 1}
        ctx.ob("R1.2", "distinct-codes@%s" % cfg, not dups and len(codes) >= 10, "%d type codes, duplicates: %s" % (len(codes), dups or "none"))
    ctx.floor("R1.1", "attribute kinds checked", total, 38 + 10)
    r1_3_r1_4(ctx, env.prog("full"))
    r1_5_header(ctx, env.prog("full"))
    r1_6_nested_padding(ctx, env.prog("full"))
    r1_10_context_slice(ctx, env.prog("full"))
    from . import coverage_rules
    coverage_rules.r1_11_size_agreement(ctx, env.prog("full"))
    from . import c02 as _c02
    _c02.r2_6_address_layout(ctx, env.prog("full"), rule="R1.8")     # writer / reader agreement of the shared address codec
    _c02.r2_7_u16_list(ctx, env.prog("full"), rule="R1.9")           # writer / reader agreement of the 16-bit list
    from . import c02
    c02.r2_3_layouts(ctx, env.prog("full"), rule="R1.7")
    # the header reader accepts exactly what the header writer can produce (any 14-bit type word): a stricter bit test
    # rejects encodable methods (0x800..0xFFF)
    c02.r2_10_header_validation(ctx, env.prog("full"), rule="R1.12")
    r1_13_normalised_value_stored(ctx, env.prog("full"))
    ctx.extra["configs_checked"] = configs if len(configs) < 6 else "%d feature configurations" % len(configs)
