"""C15 - RTO estimate follows RFC 6298 with Karn's rule and goes stale after 10 minutes (structural
clauses: the update formula as an expression tree, Karn wiring, staleness guard)."""
import re
from .. import client as C
from . import client_rules as R
from .exprs import same, show


def r15_3_formula(ctx, prog):
    ctx.rule("R15.3", "RttCalcuator::update: the values written to srtt / rttvar / rto are, as expression trees over the "
                      "old state and the sample r, exactly RFC 6298 (first: SRTT=R, RTTVAR=R/2; later: RTTVAR=(1-1/4)RTTVAR+"
                      "1/4|SRTT-R| computed from the old SRTT, SRTT=(1-1/8)SRTT+1/8 R; RTO=SRTT+max(G, 4 RTTVAR)); reset "
                      "restores the configured value")
    paths, info = C.explore_fn(prog, "stun_agent::rtt::RttCalcuator::update", "rtt", [])
    ctx.fn(info["body"])
    adt = prog.adt("stun_agent::rtt::RttCalcuator")
    names = [f["name"] for f in adt["variants"][0]["fields"]]
    for need in ("rto", "srtt", "rttvar", "granularity", "configured_rto"):
        if need not in names:
            ctx.anchor_missing("R15.3", "RttCalcuator.%s" % need)
            return
    S, V, G, Rr = "top:rtt.srtt", "top:rtt.rttvar", "top:rtt.granularity", "top:r"
    first = {"srtt": Rr, "rttvar": ("Duration::div", Rr, 2)}
    first["rto"] = ("Duration::add", first["srtt"], ("cmp::max", G, ("Duration::mul", first["rttvar"], 4)))
    sub = {"rttvar": ("Duration::add", ("Duration::mul_f32", V, 0.75), ("Duration::mul_f32", ("Duration::abs_diff", S, Rr), 0.25)),
           "srtt": ("Duration::add", ("Duration::mul_f32", S, 0.875), ("Duration::mul_f32", Rr, 0.125))}
    sub["rto"] = ("Duration::add", sub["srtt"], ("cmp::max", G, ("Duration::mul_f32", sub["rttvar"], 4.0)))
    branches = 0
    for pa in paths:
        # the first-sample test: srtt == <zero duration> (either order, `==` / `!=`, any spelling of zero) or srtt.is_zero()
        from .codec_rules import _is_zero_duration
        eqc = pa.calls_to(r"Duration as std::cmp::PartialEq>::(eq|ne)$") + pa.calls_to(r"Duration::is_zero$")
        ok_test = False
        is_first = None
        if eqc:
            a = C.expr_of(pa, eqc[0][2])
            v = pa.choice(r"%s$" % re.escape(eqc[0][4].split("@")[-1]))
            if eqc[0][1].endswith("is_zero"):
                ok_test = a[0] == "top:rtt.srtt"
                is_first = v
            else:
                ok_test = (a[0] == "top:rtt.srtt" and _is_zero_duration(a[1])) or (a[1] == "top:rtt.srtt" and _is_zero_duration(a[0]))
                is_first = v if eqc[0][1].endswith("::eq") else (None if v is None else 1 - v)
        if is_first is None:
            ctx.violation("R15.3", "branch-test", "update does not branch on srtt == Duration::default()", info["where"],
                          replay=pa.describe())
            continue
        branches += 1
        ctx.ob("R15.3", "branch-test:%s" % ("first" if is_first else "subsequent"), ok_test,
               "first-sample test compares self.srtt with Duration::default(): %s" % repr(eqc[0][2])[:120] if eqc else "no test",
               info["where"])
        exp = first if is_first else sub
        final = {}
        order = []
        for w in pa.writes:
            if w[1] == "rtt" and len(w[2]) == 1:
                final[w[2][0]] = C.expr_of(pa, w[3])
                order.append(w[2][0])
        for f in ("srtt", "rttvar", "rto"):
            got = final.get(f)
            ctx.ob("R15.3", "%s:%s" % ("first" if is_first else "subsequent", f), got is not None and same(got, exp[f]),
                   "%s' = %s (RFC 6298: %s)" % (f, show(got), show(exp[f])), info["where"],
                   replay=None if (got is not None and same(got, exp[f])) else pa.describe())
        extra = [f for f in final if f not in ("srtt", "rttvar", "rto")]
        ctx.ob("R15.3", "%s:no-other-write" % ("first" if is_first else "subsequent"), not extra,
               "fields written: %s" % order, info["where"])
    ctx.floor("R15.3", "update branches", branches, 2)
    # reset and rto()
    paths, info = C.explore_fn(prog, "stun_agent::rtt::RttCalcuator::reset", "rtt", [r"RttCalcuator::new$"])
    ctx.fn(info["body"])
    from .codec_rules import _is_zero_duration
    for pa in paths:
        final = {w[2][0]: C.expr_of(pa, w[3]) for w in pa.writes if w[1] == "rtt" and len(w[2]) == 1}
        for w in pa.writes:
            # `*self = Self::new(self.configured_rto, self.granularity)`: a whole-value write of a struct literal
            v = C.expr_of(pa, w[3]) if w[1] == "rtt" and len(w[2]) == 0 else None
            if isinstance(v, tuple) and v and v[0] == "RttCalcuator" and len(v) == len(names) + 1:
                final.update({n_: v[1 + i_] for i_, n_ in enumerate(names)})
        ok = final.get("rto") == "top:rtt.configured_rto" and _is_zero_duration(final.get("srtt")) and _is_zero_duration(final.get("rttvar")) \
            and final.get("granularity", "top:rtt.granularity") == "top:rtt.granularity" \
            and final.get("configured_rto", "top:rtt.configured_rto") == "top:rtt.configured_rto"
        ctx.ob("R15.3", "reset", ok, "reset writes %s" % {k: show(v) for k, v in final.items()}, info["where"])
    r15_3_config_path(ctx, prog)


def r15_3_config_path(ctx, prog, rule="R15.3"):
    """the configured RTO is stored unchanged by new() and read back unchanged by rto()"""
    paths, info = C.explore_fn(prog, "stun_agent::rtt::RttCalcuator::rto", "rtt", [])
    for pa in paths:
        ctx.ob(rule, "rto-accessor", pa.ret == "top:rtt.rto", "rto() returns %r" % (pa.ret,), info["where"])
    paths, info = C.explore_fn(prog, "stun_agent::rtt::RttCalcuator::new", "rtt", [])
    ctx.fn(info["body"])
    for pa in paths:
        r = pa.ret
        ok = isinstance(r, tuple) and len(r) == 6 and r[1] == "top:rto" and r[5] == "top:rto" and r[4] == "top:granularity"
        ctx.ob(rule, "new", ok, "new(rto, granularity) = %s" % (show(C.expr_of(pa, r)),), info["where"])




def r15_1_karn(ctx, prog):
    ctx.rule("R15.1", "Karn's rule wiring: a retransmission clears transaction.instant; transaction_finished feeds "
                      "rtt.update only when the removed transaction still has its send instant, only on unreliable "
                      "transport, with the sample instant - sent_instant")
    R.r15_1_karn_timeout(ctx, prog)
    paths, info = C.explore(prog, "transaction_finished")
    ctx.fn(info["body"])
    n = 0
    for pa in paths:
        removed = pa.choice(r"^variant\(ret:remove@[^.]*\)$")
        inst = None
        for nme, v in pa.choices:
            if re.search(r"^variant\(ret:remove@[^)]*bb\d+\.[^)]+\)$", str(nme)) and v in ("Some", "None"):
                inst = v
        rtt = pa.choice(r"^variant\(client\.rtt\)$")
        upd = pa.calls_to(r"RttCalcuator::update$")
        key = "removed=%s,instant=%s,rtt=%s" % (removed, inst, rtt)
        n += 1
        if upd:
            ok = removed == "Some" and inst == "Some" and rtt == "Unreliable" and len(upd) == 1
            why = "update called with removed=%s instant=%s transport=%s" % (removed, inst, rtt)
            if ok:
                sample = C.expr_of(pa, upd[0][2][1])
                ok = isinstance(sample, tuple) and sample[0] == "Instant::sub" and sample[1] == "top:instant" and show(sample[2]).startswith("(HashMap::remove(client.transactions")
                why = "sample = %s" % show(sample)
                if ok and (upd[0][3] is None or tuple(upd[0][3][:2]) != ("client", "rtt")):
                    ok, why = False, "update on %r" % (upd[0][3],)
        else:
            ok = not (removed == "Some" and inst == "Some" and rtt == "Unreliable")
            why = "no sample with removed=%s instant=%s transport=%s" % (removed, inst, rtt)
        ctx.ob("R15.1", "finished:%s" % key, ok, why, info["where"], replay=None if ok else pa.describe())
    ctx.floor("R15.1", "transaction_finished paths", n, 3)
    # send_request stores Some(instant) as the send instant
    paths, info = C.explore(prog, "send_request")
    for pa in paths:
        ins = pa.calls_to(r"HashMap::<.*>::insert$", R.T_TABLE)
        if ins:
            tr = ins[0][2][2]
            ctx.ob("R15.1", "send-records-instant", isinstance(tr, tuple) and tr[1] == ("Option::Some", "top:instant"),
                   "stored transaction.instant = %r" % (tr[1] if isinstance(tr, tuple) else tr,), info["where"])
            break


def r15_2_stale(ctx, prog):
    ctx.rule("R15.2", "set_timeout: rtt.reset() is reached iff instant - last_request > 600 s; last_request = Some(instant) "
                      "on every unreliable path; the schedule is built from rtt.rto() read after the reset")
    paths, info = C.explore(prog, "set_timeout")
    ctx.fn(info["body"])
    n = 0
    for pa in paths:
        rtt = pa.choice(r"^variant\(client\.rtt\)$")
        if rtt != "Unreliable":
            if rtt == "Reliable":
                new = pa.calls_to(r"RtoManager::new$")
                ok = len(new) == 1 and new[0][2][1] == 1 and new[0][2][2] == 1 and "client.rtt.0" in repr(new[0][2][0])
                ctx.ob("R15.2", "reliable", ok and not pa.calls_to(r"RttCalcuator::"),
                       "reliable: RtoManager::new%r, no estimator call" % (new[0][2] if new else None,), info["where"])
            continue
        n += 1
        last = pa.choice(r"^variant\(client\.rtt\.0\.last_request\)$")
        gt = pa.choice(r"^ret:gt@")
        reset = pa.calls_to(r"RttCalcuator::reset$")
        key = "last_request=%s,stale=%s,%s" % (last, gt, pa.ret_kind)
        ok = True
        why = "ok"
        if last == "Some":
            g = pa.calls_to(r"PartialOrd>::gt$|PartialOrd::gt$")
            if not g:
                ok, why = False, "no staleness comparison"
            else:
                e = C.expr_of(pa, g[0][2])
                exp = (("sub", "top:instant", "top:client.rtt.0.3.0"), ("Duration::from_secs", 600))
                lhs_ok = isinstance(e[0], tuple) and e[0][0] in ("Instant::sub", "Instant::duration_since", "Instant::saturating_duration_since") \
                    and e[0][1] == "top:instant" and "client.rtt.0.last_request" in repr(e[0][2])
                rhs_ok = e[1] == ("Duration::from_secs", 600)
                if not (lhs_ok and rhs_ok):
                    ok, why = False, "staleness test is %s > %s" % (show(e[0]), show(e[1]))
            if ok and ((gt == 1) != bool(reset)):
                ok, why = False, "stale=%s but reset called %d time(s)" % (gt, len(reset))
        else:
            if reset:
                ok, why = False, "reset without a previous request"
        w = [x for x in pa.writes if x[1] == "client" and x[2][-1:] == ("last_request",)]
        if ok and not (len(w) == 1 and w[0][3] == ("Option::Some", "top:instant")):
            ok, why = False, "last_request write: %s" % [x[3] for x in w]
        new = pa.calls_to(r"RtoManager::new$")
        if ok:
            if len(new) != 1:
                ok, why = False, "RtoManager::new x%d" % len(new)
            else:
                a = C.expr_of(pa, new[0][2])
                rto_i = pa.index_of(r"RttCalcuator::rto$")
                reset_i = pa.index_of(r"RttCalcuator::reset$")
                # the estimator that is reset and read is the one stored in the client (RttCalcuator is Copy: a local copy
                # would take the reset and leave the stored state stale)
                stored = ("client", "rtt", "0", "rtt")
                recv = [tuple(x[3]) if x[3] else None for x in pa.calls if re.search(r"RttCalcuator::(reset|rto)$", x[1])]
                if not (isinstance(a[0], tuple) and a[0][0] == "RttCalcuator::rto"):
                    ok, why = False, "schedule not built from rtt.rto(): %s" % show(a[0])
                elif any(r is None or r != stored for r in recv):
                    ok, why = False, "reset()/rto() applied to %s, not to the stored estimator client.rtt.0.rtt" % [r for r in recv if r != stored][:2]
                elif reset and reset_i > rto_i:
                    ok, why = False, "rto() read before the reset"
                elif "rm" not in repr(_names(prog, new[0][2][1])) and False:
                    pass
        ctx.ob("R15.2", "unreliable:%s" % key, ok, why, info["where"], replay=None if ok else pa.describe())
    ctx.floor("R15.2", "unreliable set_timeout paths", n, 4)
    # rm / rc passed in the right slots: RtoManager::new(rto, handler.rm, handler.rc)
    adt = prog.adt("stun_agent::client::RttHandler")
    names = [f["name"] for f in adt["variants"][0]["fields"]]
    for pa in paths:
        if pa.choice(r"^variant\(client\.rtt\)$") == "Unreliable":
            new = pa.calls_to(r"RtoManager::new$")
            if new:
                a = new[0][2]
                want = ("top:client.rtt.0.%s" % "rm", "top:client.rtt.0.%s" % "rc")
                got = (a[1], a[2])
                # labels carry field names for materialised structs
                ctx.ob("R15.2", "rm-rc-slots", got == want, "RtoManager::new(_, %s, %s)" % got, info["where"])
                break


def _names(prog, x):
    return x


def r15_5_config(ctx, prog):
    ctx.rule("R15.5", "the configured estimator parameters reach the estimator unchanged: From<TransportReliability> builds the "
                      "handler with RttCalcuator::new(config.rto, config.granularity), rm = config.rm, rc = config.rc and no "
                      "request time; Reliable(timeout) keeps the timeout")
    fn = "<stun_agent::client::StunRttCalcuator as std::convert::From<stun_agent::TransportReliability>>::from"
    b = prog.body(fn, required=False)
    if b is None:
        cands = [x for x in prog.bodies.values() if re.search(r"StunRttCalcuator as std::convert::From<.*TransportReliability>>::from$", x.path)]
        b = cands[0] if cands else None
    if b is None:
        ctx.anchor_missing("R15.5", "From<TransportReliability> for StunRttCalcuator")
        return
    paths, info = C.explore_fn(prog, b.path, "x", [r"\{closure"])
    ctx.fn(b)
    seen = set()
    for pa in paths:
        r = C.expr_of(pa, pa.ret)
        kind = r[0].split("::")[-1] if isinstance(r, tuple) else "?"
        seen.add(kind)
        if kind == "Unreliable":
            h = r[1]
            ok = isinstance(h, tuple) and h[0] == "RttHandler" and len(h) == 5 \
                and h[1] == ("RttCalcuator::new", "top:reliability.0.rto", "top:reliability.0.granularity") \
                and h[2] == "top:reliability.0.rm" and h[3] == "top:reliability.0.rc" and h[4] == "Option::None"
            extra = [n for n in pa.call_names() if n != "RttCalcuator::new"]
            ctx.ob("R15.5", "unreliable", ok and not extra, "handler = %s; other calls %s" % (show(h)[:200], extra), info["where"], replay=None if ok else pa.describe())
        elif kind == "Reliable":
            ctx.ob("R15.5", "reliable", r[1] == "top:reliability.0" and not pa.calls, "Reliable(%s)" % show(r[1])[:60], info["where"])
    ctx.floor("R15.5", "transport kinds", len(seen & {"Reliable", "Unreliable"}), 2)


def r15_4_who_may_write(ctx, prog):
    ctx.rule("R15.4", "who may mutate the estimator and its clocks: RttHandler.last_request only in set_timeout (a new request, "
                      "never a retransmission or a response); RttHandler.rtt / StunClient.rtt only in set_timeout (reset) and "
                      "transaction_finished (update); rm / rc never; RttCalcuator.{srtt, rttvar, rto} only in update / reset; "
                      "granularity and configured_rto never; StunTransaction.instant only in on_timeout (cleared)")
    table = [
        ("last_request", "stun_agent::client::RttHandler", [r"StunClient::set_timeout$"]),
        ("rtt", "stun_agent::client::RttHandler", [r"StunClient::set_timeout$", r"StunClient::transaction_finished$"]),
        ("rm", "stun_agent::client::RttHandler", []),
        ("rc", "stun_agent::client::RttHandler", []),
        ("rtt", "stun_agent::client::StunClient", [r"StunClient::set_timeout$", r"StunClient::transaction_finished$"]),
        ("srtt", "stun_agent::rtt::RttCalcuator", [r"RttCalcuator::update$", r"RttCalcuator::reset$"]),
        ("rttvar", "stun_agent::rtt::RttCalcuator", [r"RttCalcuator::update$", r"RttCalcuator::reset$"]),
        ("rto", "stun_agent::rtt::RttCalcuator", [r"RttCalcuator::update$", r"RttCalcuator::reset$"]),
        ("granularity", "stun_agent::rtt::RttCalcuator", []),
        ("configured_rto", "stun_agent::rtt::RttCalcuator", []),
        ("instant", "stun_agent::client::StunTransaction", [r"StunClient::on_timeout$"]),
    ]
    total = 0
    for field, adt, allowed in table:
        a = prog.adt(adt)
        if not any(f["name"] == field for f in a["variants"][0]["fields"]):
            from ..facts import AnchorMissing
            raise AnchorMissing("field %s of %s" % (field, adt))
        n, bad = R.who_may_write(ctx, prog, "R15.4", field, adt, allowed + [r"::tests::", r"_tests::"])
        total += n
        ctx.ob("R15.4", "write:%s.%s" % (adt.split("::")[-1], field), not bad,
               "%d mutable access(es) to %s.%s; outside the allowed functions: %s" % (n, adt.split("::")[-1], field, bad or "none"))
    ctx.floor("R15.4", "mutable accesses found", total, 8)


def check(ctx, env):
    ctx.explanation = (
        "Static: RttCalcuator::update/reset/new are interpreted abstractly and the values they write are reconstructed "
        "as expression trees over the old state and the sample, then compared structurally with the RFC 6298 "
        "recurrence (constants 1/8, 1/4, 4 folded from the MIR constants; the old SRTT feeds RTTVAR). Karn's rule and "
        "the 600 s staleness guard are decided on every path of on_timeout / transaction_finished / set_timeout. The "
        "numerical agreement with a double-precision reference is NOT decided (float recurrence over arbitrary samples).")
    ctx.assumptions = ["rustc MIR", "std Duration/Instant operators are the mathematical ones (mul_f32, abs_diff, +, /, max)",
                       "callee models of analysis/models.py"]
    prog = env.prog("agent")
    r15_3_formula(ctx, prog)
    r15_1_karn(ctx, prog)
    r15_2_stale(ctx, prog)
    r15_4_who_may_write(ctx, prog)
    r15_5_config(ctx, prog)
