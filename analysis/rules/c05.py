"""C05 - each request gets at most one final outcome and then falls silent (structural invariant:
ids in the timer heap are in the table; an id for which a final event was pushed is in neither)."""
from . import client_rules as R

ASSUME = [
    "rustc MIR construction and callee resolution",
    "HashMap / BinaryHeap behave as their std documentation says (calls on client.transactions / client.timeouts are "
    "logged, not stepped into); StunMessageTimeout::remove removes every heap entry of the id (checked under C11 R11.4)",
    "callee models of analysis/models.py (Option/Result/Try/PartialEq/Clone)",
]


def check(ctx, env):
    ctx.explanation = (
        "Static: on_buffer_recv, on_timeout, transaction_finished and send_request are explored path-sensitively by "
        "abstract interpretation of their MIR from a fully symbolic client (message class, table membership, "
        "fingerprint and mechanism outcomes, schedule exhaustion are undetermined atoms; loops to a fixpoint). On "
        "every path: responses are processed only behind the table lookup (R5.1); a final event implies removal from "
        "table and heap (R5.2); packets and timers are emitted only for live transactions (R5.3); only the named "
        "functions mutate the table and the heap (R5.4).")
    ctx.assumptions = ASSUME
    prog = env.prog("agent")
    R.r5_1_guard(ctx, prog)
    R.r5_2_recv_final(ctx, prog)
    R.r5_2_timeout(ctx, prog)
    R.r5_2_finished(ctx, prog)
    R.r5_3_retransmit(ctx, prog)
    R.r5_4_who_may_write(ctx, prog)
    R.r12_3_indication(ctx, prog, rule="R5.5")
    # "never again emits a timer for it": the timer heap's remove really drops every entry of the id, check pops what
    # it returns, add pushes what it is given (same rule as C11 R11.4)
    from . import codec_rules as K
    K.r11_4_pairing(ctx, prog, rule="R5.6")
