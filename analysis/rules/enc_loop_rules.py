"""C14 R14.6 - the encode loop of MessageEncoder::encode is safe by induction (premise of its budget entries).

Loop invariant:  length + 20 <= len(buffer).
Base case: the first iteration starts with length = 0 after check_buffer_boundaries(buffer, 20).
Step: one generic iteration (the segment E2 explores from the widened head, where `length` is a single unknown W) is
replayed with the fact W + 20 <= len(buffer); every slice / split / byte-order / arithmetic obligation inside it must
follow from that fact, the callee contracts and the comparisons decided in the iteration; and the `split_at_mut` index
of the following iteration (= length' + 20) must again be <= len(buffer).
Contracts used: check_buffer_boundaries (R3.5), padding <= 3, fill_padding_value(s, n, _) = Ok => n <= len(s),
attribute encoders: Ok(n) => n <= len(output slice) (R14.4, verified per impl).
Only iterations whose head value of `length` is 0 or the widened unknown are replayed: inside them every call label
denotes the current iteration's call (labels are per site, so later iterations would conflate values).
"""
import re
from .. import client as C
from .. import linproof as LP
from .exprs import show

ENC = "stun_rs::context::MessageEncoder::encode"


def _rename(t):
    # the output buffer keeps its length whatever havoc its contents go through
    if isinstance(t, tuple) and len(t) == 2 and t[0] == "len" and isinstance(t[1], str) and (t[1] == "top:buffer" or t[1].startswith("top:havoc:")):
        return "len(buffer)"
    return None


def upper(name):
    if name.startswith("common::padding("):
        return 3
    return None


def c_cbb(w, e, args, suffix, variant):
    if suffix == "" and variant == "Ok":
        return [LP.add(w.L.len_lin(args[0]), w.L.lin(args[1]), -1)]
    return []


def c_fill(w, e, args, suffix, variant):
    """fill_padding_value(s, n, v) = Ok => n <= len(s)"""
    if suffix == "" and variant == "Ok":
        return [LP.add(w.L.len_lin(args[0]), w.L.lin(args[1]), -1)]
    return []


def c_attr_encode(w, e, args, suffix, variant):
    """StunAttribute::encode(attr, ctx) = Ok(n) => n <= len(ctx.raw_value)  (encoder contract, R14.4)"""
    if suffix == "" and variant == "Ok":
        ctxv = args[1] if len(args) > 1 else None
        if isinstance(ctxv, tuple) and ctxv and isinstance(ctxv[0], str) and ctxv[0].endswith("AttributeEncoderContext::new") and len(ctxv) == 4:
            n = w.L.lin(((C.short(e[1]),) + tuple(args), ".ok"))
            return [LP.add(w.L.len_lin(ctxv[3]), n, -1)]
        w.failed.append("attribute encoder called with an unrecognised context %s" % show(ctxv)[:60])
    return []


CONTRACTS = [(r"common::check_buffer_boundaries$", c_cbb), (r"common::fill_padding_value$", c_fill),
             (r"StunAttribute as stun_rs::attributes::EncodeAttributeValue>::encode$", c_attr_encode)]


def r14_6_encode_loop(ctx, prog, rule="R14.6"):
    ctx.rule(rule, "the encode loop is safe by induction on `length + 20 <= len(buffer)`: base case after the 20-byte check; in one "
                   "generic iteration every split / slice / byte-order write / usize addition follows from the invariant, the "
                   "callee contracts (bounds check, padding <= 3, fill_padding_value, encoder contract R14.4) and the iteration's "
                   "comparisons, and the next iteration's split index satisfies the invariant again (Fourier-Motzkin)")
    body = prog.body(ENC)
    slice_params = [l for l in range(1, body.arg_count + 1) if body.tystr(body.locals[l]["ty"]) == "&mut [u8]"]
    if len(slice_params) != 1 or body.debug_name(slice_params[0]) != "buffer":
        ctx.anchor_missing(rule, "MessageEncoder::encode(&self, buffer: &mut [u8], ..)")
        return
    paths, info = C.explore_fn(prog, ENC, "enc", [r"MessageEncoder::encode::\{closure"])
    ctx.fn(body)
    namer = LP.Namer(_rename)
    # msg.transaction_id().as_bytes() is typed &[u8; 12]
    tid = prog.body("stun_rs::types::TransactionId::as_bytes", required=False)
    tid_len = None
    if tid is not None:
        m = re.match(r"&\[u8; (\d+)\]$", tid.tystr(tid.locals[0]["ty"]))
        tid_len = int(m.group(1)) if m else None
    ctx.ob(rule, "transaction-id-length", tid_len == 12, "TransactionId::as_bytes() returns %s" % (tid.tystr(tid.locals[0]["ty"]) if tid is not None else None))

    def leaf_facts(name):
        if tid_len is not None and name.startswith("len(TransactionId::as_bytes("):
            return [{name: 1, 1: -tid_len}, {name: -1, 1: tid_len}]
        return []
    n_base = n_step = n_obl = 0
    failed = set()
    fill_ok = _fill_contract(ctx, prog, rule)
    for pa in paths:
        heads = [i for i, e in enumerate(pa.log) if e[0] == "loop-head" and e[1] == body.path]
        # prologue: everything before the first loop head (header writes)
        w0 = LP.Walker(pa, [], namer=namer, contracts=CONTRACTS, upper=upper, leaf_facts=leaf_facts)
        w0.run(start=0, stop=heads[0] if heads else len(pa.log), with_ret=False)
        n_obl += w0.n
        failed |= set(w0.failed)
        pro_facts = list(w0.facts)
        for k, h in enumerate(heads):
            end = heads[k + 1] if k + 1 < len(heads) else len(pa.log)
            sp = [i for i in range(h, end) if pa.log[i][0] == "call" and re.search(r"split_at_mut$", pa.log[i][1])]
            if not sp:
                continue            # the iteration that only finds the iterator exhausted
            L = LP.Lin(namer)
            idx = L.lin(C.expr_of(pa, pa.log[sp[0]][2], 0, sp[0])[1])
            sym = [v for v in idx if v != 1]
            # the split index is 20 + length (length the accumulator) or the accumulator itself (an absolute offset that
            # starts at 20): base case = the constant 20, generic iteration = the widened accumulator (+ 20)
            c0 = idx.get(1, 0)
            if len(sym) > 1 or (sym and ("widened" not in sym[0] or idx[sym[0]] != 1)) or (not sym and c0 != 20) or (sym and c0 not in (0, 20)):
                continue            # a later concrete iteration: labels of earlier iterations would be conflated
            if not sym:
                facts = list(pro_facts)                  # base case: length = 0, facts of the prologue (buffer >= 20)
                n_base += 1
            else:
                # Inv for the generic iteration: 20 <= split index <= len(buffer)
                facts = [LP.add({"len(buffer)": 1}, dict(idx), -1), LP.add(dict(idx), {1: 20}, -1)]
                n_step += 1
            w = LP.Walker(pa, facts, namer=namer, contracts=CONTRACTS, upper=upper, leaf_facts=leaf_facts)
            w.run(start=h, stop=end, with_ret=False)
            # Inv': the split index of the next iteration
            if k + 1 < len(heads):
                end2 = heads[k + 2] if k + 2 < len(heads) else len(pa.log)
                sp2 = [i for i in range(end, end2) if pa.log[i][0] == "call" and re.search(r"split_at_mut$", pa.log[i][1])]
                if sp2:
                    a2 = C.expr_of(pa, pa.log[sp2[0]][2], 0, sp2[0])
                    w.arith(a2[1])
                    w.prove("Inv': next length + 20 <= len(buffer)", LP.add(w.L.len_lin(a2[0]), w.L.lin(a2[1]), -1))
                    w.prove("Inv': next split index >= 20", LP.add(w.L.lin(a2[1]), {1: 20}, -1))
            elif isinstance(C.expr_of(pa, pa.ret), tuple) and C.expr_of(pa, pa.ret)[0] == "Result::Ok":
                w.arith(C.expr_of(pa, pa.ret))
            n_obl += w.n
            failed |= set(w.failed)
    ok = not failed and n_base >= 1 and n_step >= 1 and not info["bounded"] and fill_ok
    ctx.ob(rule, "encode-loop", ok, ("NOT proved: " + "; ".join(sorted(failed)[:3])) if failed else
           "%d base-case and %d generic iterations replayed on %d paths: %d obligations proved" % (n_base, n_step, len(paths), n_obl),
           body.where(), replay=None if ok else {"function": ENC, "problems": sorted(failed)[:10]})
    ctx.floor(rule, "linear obligations proved", n_obl, 50)


def _fill_contract(ctx, prog, rule):
    """fill_padding_value(buffer, size, v): Ok only after check_buffer_boundaries(buffer, size) succeeded"""
    paths, info = C.explore_fn(prog, "stun_rs::common::fill_padding_value", "x", [r"\{closure"])
    ok = bool(paths)
    for pa in paths:
        r = C.expr_of(pa, pa.ret)
        w = LP.Walker(pa, [], contracts=[(r"common::check_buffer_boundaries$", c_cbb), (LP.SLICE_GET_RX, LP.c_slice_get)]).run()
        if isinstance(r, tuple) and r[0] == "Result::Ok":
            w.prove("size <= len(buffer)", LP.add(w.L.len_lin("top:buffer"), w.L.lin("top:size"), -1))
        ok = ok and not w.failed
    ctx.ob(rule, "contract:fill_padding_value", ok, "Ok => size <= len(buffer); its own slice is in range", info["where"])
    return ok


def r14_7_length_field(ctx, prog, rule="R14.7"):
    ctx.rule(rule, "the 16-bit message length: every value MessageEncoder::encode writes into bytes 2..4 of the header is either the "
                   "constant 0 (before the attributes) or a value that a `u16::try_from` / `try_into` in the same iteration has accepted "
                   "- exactly that value, not an earlier partial sum - and it is the running length including this attribute's padding "
                   "(= the next iteration's length); so a message whose attributes do not fit the length field is rejected rather than "
                   "written with a wrapped length.  Decided on the first and on the generic iteration, as R14.6")
    body = prog.body(ENC)
    paths, info = C.explore_fn(prog, ENC, "enc", [r"MessageEncoder::encode::\{closure"])
    ctx.fn(body)
    L = LP.Lin(LP.Namer(_rename))
    n = n_iter = 0
    bad = {}

    def header_writes(pa, lo_i, hi_i):
        out = []
        for i in range(lo_i, hi_i):
            e = pa.log[i]
            if e[0] != "call" or not re.search(r"ByteOrder>::write_u16$", e[1]):
                continue
            a = C.expr_of(pa, e[2], 0, i)
            root, lo, hi = L.view(a[0])
            if not (lo == {1: 2} and hi == {1: 4}):
                continue                                    # not bytes 2..4 of the view it indexes
            r0 = LP.strip(a[0])
            base = LP.strip(r0[1]) if LP.is_index(r0) else None
            if isinstance(base, tuple) and len(base) == 2 and base[1] == ".1":
                continue                                    # second half of the split: the current attribute's own length field
            out.append((i, a[1]))
        return out
    for pa in paths:
        heads = [i for i, e in enumerate(pa.log) if e[0] == "loop-head" and e[1] == body.path]
        for (i, v) in header_writes(pa, 0, heads[0] if heads else len(pa.log)):
            n += 1
            if v != 0:
                bad["before the attribute loop the length field is set to %s, not 0" % show(v)[:60]] = pa
        for k, h in enumerate(heads):
            end = heads[k + 1] if k + 1 < len(heads) else len(pa.log)
            sp = [i for i in range(h, end) if pa.log[i][0] == "call" and re.search(r"split_at_mut$", pa.log[i][1])]
            if not sp:
                continue
            idx = L.lin(C.expr_of(pa, pa.log[sp[0]][2], 0, sp[0])[1])
            sym = [x for x in idx if x != 1]
            if idx.get(1, 0) != 20 or len(sym) > 1 or (sym and ("widened" not in sym[0] or idx[sym[0]] != 1)):
                continue            # a later concrete iteration: labels of earlier iterations would be conflated (see R14.6)
            n_iter += 1
            # the next iteration's length, from its split index (length' + 20), when this path has a next iteration
            nxt = None
            if k + 1 < len(heads):
                end2 = heads[k + 2] if k + 2 < len(heads) else len(pa.log)
                sp2 = [i for i in range(end, end2) if pa.log[i][0] == "call" and re.search(r"split_at_mut$", pa.log[i][1])]
                if sp2:
                    nxt = LP.add(L.lin(C.expr_of(pa, pa.log[sp2[0]][2], 0, sp2[0])[1]), {1: -20})
            for (i, v) in header_writes(pa, h, end):
                n += 1
                lv = L.lin(v)
                acc = [j for j in range(h, i) if pa.log[j][0] == "narrow" and pa.log[j][1] == "u16" and pa.log[j][3] == "Ok"]
                if not any(L.lin(C.expr_of(pa, pa.log[j][2], 0, j)) == lv for j in acc):
                    bad["the value written at 2..4 was not the one accepted by u16::try_from: %s" % show(v)[:110]] = pa
                elif nxt is not None and nxt != lv:
                    bad["the value written at 2..4 is not the length the next iteration starts from: %s" % show(v)[:110]] = pa
    for why, pa in sorted(bad.items())[:3]:
        ctx.ob(rule, "length-field:unchecked", False, why, info["where"], replay=pa.describe())
    ctx.ob(rule, "length-field", not bad and n >= 3 and n_iter >= 2,
           "%d header-length writes in %d first / generic iterations: each writes exactly the value u16::try_from accepted" % (n, n_iter), info["where"])
