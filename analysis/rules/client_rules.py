"""Rules over the path summaries of the StunClient entry points (analysis/client.py).

Every rule is a predicate over (choices made on the path, ordered effect log, returned value) and is
evaluated on every explored path; obligations are keyed by the semantic class of the path
(message class, table membership, fingerprint outcome, mechanism outcome, ...), never by block or
line numbers.
"""
import re
from .. import client as C
from ..shared import segments
from .exprs import show
CLIENT = C.CLIENT

CLASSES = ("Request", "Indication", "SuccessResponse", "ErrorResponse")
T_TABLE = ("client", "transactions")
T_HEAP = ("client", "timeouts")
T_EVENTS = ("client", "transaction_events")

RX_TF = r"StunClient::transaction_finished$"
RX_RECV = r"CredentialMechanismClient::recv_message$"
RX_PUSH = r"TransactionEvents::<'_>::push$"
RX_INIT = r"TransactionEventHandler::init$"
RX_FP = r"fingerprint::validate_fingerprint$"
RX_DECODE = r"MessageDecoder::decode$"
RX_CONTAINS = r"HashMap::<.*>::contains_key"


def _val(pa, rx):
    return pa.choice(rx)


def recv_desc(pa):
    d = {"decode": None, "cls": None, "contains": None, "use_fp": None, "fp": None, "mech": None, "recv": None}
    for n, v in pa.choices:
        n = str(n)
        if n.startswith("variant(ret:decode@"):
            if v in ("Ok", "Err"):
                d["decode"] = v
            elif v in CLASSES:
                d["cls"] = v
        elif n.startswith("ret:contains_key@"):
            d["contains"] = v
        elif n == "client.use_fingerprint":
            d["use_fp"] = v
        elif n.startswith("variant(ret:validate_fingerprint@"):
            if v == "Err":
                d["fp"] = "err"
        elif n.startswith("ret:validate_fingerprint@"):
            d["fp"] = "true" if v else "false"
        elif n == "variant(client.mechanism)":
            d["mech"] = v
        elif n.startswith("variant(ret:recv_message@"):
            if v == "Ok":
                d["recv"] = "Ok"
            elif v != "Err":
                d["recv"] = v
    return d


def desc_key(d):
    return ",".join("%s=%s" % (k, d[k]) for k in ("decode", "cls", "contains", "use_fp", "fp", "mech", "recv") if d[k] is not None)


def _order(pa):
    """semantic effect names of an on_buffer_recv path in order"""
    out = []
    for e in pa.log:
        if e[0] == "call":
            p = e[1]
            if re.search(RX_DECODE, p):
                out.append("decode")
            elif re.search(RX_CONTAINS, p):
                out.append("contains_key")
            elif re.search(RX_FP, p):
                out.append("validate_fingerprint")
            elif re.search(RX_RECV, p):
                out.append("recv_message")
            elif re.search(RX_TF, p):
                out.append("transaction_finished")
            elif re.search(RX_INIT, p):
                out.append("init")
            elif re.search(RX_PUSH, p):
                ev = e[2][1] if len(e[2]) > 1 else None
                out.append("push:%s" % (ev[0] if isinstance(ev, tuple) else ev))
            elif re.search(r"fmt::|hint::must_use|Argument::|new_display|new_debug|alloc::fmt", p):
                continue
            else:
                # any other call is an effect only if it is handed (by `&mut`) the client itself or one of the parts
                # of it the properties talk about; pure computations and calls that mutate locals or unrelated fields
                # (e.g. a statistics counter) are not
                muts = e[5] if len(e) > 5 else None
                if muts is None or any(m[0] == "client" and (len(m) == 1 or str(m[1]) in STATE_FIELDS) for m in muts) \
                        or any(str(m[0]).startswith("obj:") and "client." in str(m[0]) for m in muts):
                    out.append("other:%s" % C.short(p))
        elif e[0] in ("write", "write-elem", "write-unknown-pointer"):
            path = tuple(str(x) for x in e[2]) if len(e) > 2 else ()
            if e[0] == "write" and e[1] == "client" and path and path[0] not in STATE_FIELDS:
                continue            # a field of the client that no property is about
            out.append("write:%s" % (".".join(path) if path else "?"))
    return out


# the parts of the client the properties are about: transaction table, timers, credential mechanism, RTT estimate,
# event queue, capacity, configuration and codecs
STATE_FIELDS = {"transactions", "timeouts", "mechanism", "rtt", "transaction_events", "max_transactions", "use_fingerprint",
                "encoder", "decoder"}


EFFECTFUL = ("recv_message", "transaction_finished", "init")


def is_effect(x):
    return x in EFFECTFUL or x.startswith("push:") or x.startswith("write:") or x.startswith("other:")


def explore_recv(ctx, prog):
    paths, info = C.explore(prog, "on_buffer_recv")
    ctx.fn(info["body"])
    if info["bounded"]:
        ctx.violation("explore", "on_buffer_recv:bounded", "loop bound hit", info["where"])
    return paths, info


# ------------------------------------------------------------------------------------------------
# on_buffer_recv

def r5_1_guard(ctx, prog, rule="R5.1"):
    """responses are processed only behind the outstanding-transaction lookup"""
    ctx.rule(rule, "on_buffer_recv: for a success/error response, the mechanism, transaction_finished and every "
                   "event are reached only when transactions.contains_key(msg.transaction_id()) was true")
    paths, info = explore_recv(ctx, prog)
    seen = {}
    for pa in paths:
        d = recv_desc(pa)
        if d["cls"] not in ("SuccessResponse", "ErrorResponse"):
            continue
        order = _order(pa)
        effs = [x for x in order if is_effect(x)]
        key = desc_key(d)
        ok = True
        why = ""
        if effs:
            if d["contains"] != 1:
                ok = False
                why = "effects %s without a positive table lookup (contains_key=%s)" % (effs, d["contains"])
            else:
                ci = order.index("contains_key")
                first = min(order.index(x) for x in effs)
                if ci > first:
                    ok = False
                    why = "table lookup happens after %s" % order[first]
                # the lookup must be on client.transactions with the message's own id
                cc = pa.calls_to(RX_CONTAINS)
                if not cc or cc[0][3] != T_TABLE:
                    ok = False
                    why = "lookup is not on client.transactions"
                elif "decode@" not in repr(cc[0][2][1]):
                    ok = False
                    why = "lookup key is not derived from the decoded message: %r" % (cc[0][2][1],)
        if key not in seen or not ok:
            seen[key] = (ok, why, pa)
    n = 0
    for key, (ok, why, pa) in sorted(seen.items()):
        n += 1
        ctx.ob(rule, "recv:%s" % key, ok, why or "effects only behind contains_key=true", info["where"],
               replay=None if ok else pa.describe())
    ctx.floor(rule, "response path classes", n, 8)
    # a received *request* never ends a transaction, whatever id it carries (a reflected copy of the client's own request)
    rq = None
    for pa in paths:
        d = recv_desc(pa)
        if d["cls"] == "Request":
            effs = [x for x in _order(pa) if is_effect(x)]
            ok = pa.ret_kind == "Err" and not effs
            if rq is None or not ok:
                rq = (ok, "%s -> %s, effects %s" % (desc_key(d), pa.ret_kind, effs), pa)
    if rq is not None:
        ctx.ob(rule, "recv-request", rq[0], rq[1], info["where"], replay=None if rq[0] else rq[2].describe())
    else:
        ctx.violation(rule, "recv-request", "no path of on_buffer_recv classifies a received request", info["where"])
    # a response with contains_key=false is rejected
    for pa in paths:
        d = recv_desc(pa)
        if d["cls"] in ("SuccessResponse", "ErrorResponse") and d["contains"] == 0:
            ctx.ob(rule, "recv-unknown-id:%s" % d["cls"], pa.ret_kind == "Err" and pa.ret_err() == "StunAgentError::Discarded",
                   "unknown/finished transaction id -> %s %s" % (pa.ret_kind, pa.ret_err()), info["where"],
                   replay=pa.describe())


def r5_2_recv_final(ctx, prog, rule="R5.2"):
    ctx.rule(rule, "a final event is pushed => the transaction is removed from the table and the timer heap on the "
                   "same path (on_buffer_recv: via transaction_finished(msg id); on_timeout: transactions.remove in "
                   "the same iteration; transaction_finished: both removes on every path)")
    paths, info = explore_recv(ctx, prog)
    seen = {}
    for pa in paths:
        d = recv_desc(pa)
        if d["cls"] not in ("SuccessResponse", "ErrorResponse"):
            continue
        order = _order(pa)
        pushes = [x for x in order if x.startswith("push:")]
        if not pushes:
            continue
        ok = True
        why = "push %s after transaction_finished" % pushes
        if "transaction_finished" not in order:
            ok = False
            why = "event %s pushed for a response without transaction_finished" % pushes
        else:
            tf = pa.calls_to(RX_TF)[0]
            if "decode@" not in repr(tf[2][1]):
                ok = False
                why = "transaction_finished called with an id not taken from the message: %r" % (tf[2][1],)
        if len(pushes) != 1:
            ok = False
            why = "%d events pushed for one response: %s" % (len(pushes), pushes)
        key = desc_key(d)
        if key not in seen or not ok:
            seen[key] = (ok, why, pa)
    for key, (ok, why, pa) in sorted(seen.items()):
        ctx.ob(rule, "recv:%s" % key, ok, why, info["where"], replay=None if ok else pa.describe())
    ctx.floor(rule, "response paths that push an event", len(seen), 8)


def r12_3_indication(ctx, prog, rule="R12.3"):
    ctx.rule(rule, "indications never touch the transaction table or the timer heap (received: no "
                   "transaction_finished; sent: no table/heap call)")
    paths, info = explore_recv(ctx, prog)
    seen = {}
    for pa in paths:
        d = recv_desc(pa)
        if d["cls"] != "Indication":
            continue
        order = _order(pa)
        bad = [x for x in order if x in ("transaction_finished",) or x.startswith("other:") or x.startswith("write:")]
        key = desc_key(d)
        ok = not bad
        if key not in seen or not ok:
            seen[key] = (ok, "received indication reaches %s" % bad if bad else "no table effect", pa)
    for key, (ok, why, pa) in sorted(seen.items()):
        ctx.ob(rule, "recv-indication:%s" % key, ok, why, info["where"], replay=None if ok else pa.describe())
    ctx.floor(rule, "received-indication path classes", len(seen), 4)
    spaths, sinfo = C.explore(prog, "send_indication")
    ctx.fn(sinfo["body"])
    bad = []
    for pa in spaths:
        for e in pa.calls:
            if e[3] is not None and tuple(e[3][:2]) in (T_TABLE, T_HEAP):
                bad.append(C.short(e[1]))
        for w in pa.writes:
            if len(w) > 2 and w[1] == "client" and w[2][:1] in (("transactions",), ("timeouts",), ("max_transactions",)):
                bad.append("write " + ".".join(w[2]))
    ctx.ob(rule, "send_indication", not bad,
           "send_indication: %d paths, table/heap effects: %s" % (len(spaths), sorted(set(bad)) or "none"),
           sinfo["where"])


def r17_1_reject(ctx, prog, rule="R17.1"):
    ctx.rule(rule, "on_buffer_recv: a path that returns Err has no effect on the client other than the mechanism's own "
                   "recv_message (decoder, fingerprint validation and table lookup take shared references)")
    paths, info = explore_recv(ctx, prog)
    seen = {}
    for pa in paths:
        if pa.ret_kind != "Err":
            continue
        d = recv_desc(pa)
        order = _order(pa)
        bad = [x for x in order if is_effect(x) and x != "recv_message"]
        # recv_message is allowed only when its verdict is Discarded (the rejection the mechanism asks for)
        if "recv_message" in order and d["recv"] not in ("Discarded",):
            bad.append("Err after recv_message=%s" % d["recv"])
        key = desc_key(d)
        ok = not bad
        if key not in seen or not ok:
            seen[key] = (ok, ("rejected buffer after effects %s" % bad) if bad else "rejection precedes every effect", pa)
    for key, (ok, why, pa) in sorted(seen.items()):
        ctx.ob(rule, "reject:%s" % key, ok, why, info["where"], replay=None if ok else pa.describe())
    ctx.floor(rule, "rejecting path classes", len(seen), 8)
    # the buffers the statement lists as rejected ARE rejected: undecodable bytes, a request (whatever its transaction id),
    # a response whose id is not in the table - Err on every such path, before the mechanism and every other effect
    must = {}
    for pa in paths:
        d = recv_desc(pa)
        kind = None
        if d["decode"] == "Err":
            kind = "undecodable"
        elif d["cls"] == "Request":
            kind = "request"
        elif d["cls"] in ("SuccessResponse", "ErrorResponse") and d["contains"] == 0:
            kind = "unknown-id"
        if kind is None:
            continue
        effs = [x for x in _order(pa) if is_effect(x)]
        ok = pa.ret_kind == "Err" and not effs
        if kind not in must or not ok:
            must[kind] = (ok, "%s -> %s %s, effects %s" % (desc_key(d), pa.ret_kind, pa.ret_err() if pa.ret_kind == "Err" else "", effs), pa)
    for kind, (ok, why, pa) in sorted(must.items()):
        ctx.ob(rule, "must-reject:%s" % kind, ok, why, info["where"], replay=None if ok else pa.describe())
    ctx.floor(rule, "kinds of buffer that must be rejected", len(must), 3)
    # shared-reference facts: decoder.decode, validate_fingerprint, contains_key receive & only
    body = info["body"]
    for rx, what in ((RX_DECODE, "decode"), (RX_FP, "validate_fingerprint"), (RX_CONTAINS, "contains_key")):
        from ..absint import with_new_helpers
        cs = [c for b2 in with_new_helpers(prog, body) for c in b2.calls() if re.search(rx, c.callee_path)]
        okk = bool(cs)
        for c in cs:
            for a in c.args:
                if a["k"] in ("copy", "move"):
                    t = c.body.local_ty(a["place"]["l"])
                    if t.get("k") == "ref" and t.get("mut"):
                        okk = False
        ctx.ob(rule, "shared-ref:%s" % what, okk, "%s takes only shared references (%d call site(s))" % (what, len(cs)),
               info["where"])


def r10_1_fingerprint_first(ctx, prog, rule="R10.1"):
    ctx.rule(rule, "on_buffer_recv with use_fingerprint: the mechanism, transaction_finished and every event are reached "
                   "only after validate_fingerprint returned Ok(true); any other outcome returns Err with no effect")
    paths, info = explore_recv(ctx, prog)
    seen = {}
    for pa in paths:
        d = recv_desc(pa)
        if d["decode"] != "Ok" or d["cls"] == "Request":
            continue
        order = _order(pa)
        effs = [x for x in order if is_effect(x)]
        key = desc_key(d)
        ok = True
        why = "ok"
        if d["use_fp"] == 1:
            if d["fp"] == "true":
                if effs and order.index("validate_fingerprint") > min(order.index(x) for x in effs):
                    ok, why = False, "fingerprint validated after %s" % effs[0]
            else:
                if effs:
                    ok, why = False, "fingerprint outcome %s but effects %s" % (d["fp"], effs)
                if pa.ret_kind != "Err":
                    ok, why = False, "fingerprint outcome %s but the buffer is accepted" % d["fp"]
                if d["fp"] is None and (d["contains"] != 0):
                    ok, why = False, "use_fingerprint is set but validate_fingerprint was not consulted"
        elif d["use_fp"] is None:
            # the flag was never read on this path: then nothing may have happened yet
            if effs:
                ok, why = False, "effects %s on a path that never consulted use_fingerprint" % effs
        if key not in seen or not ok:
            seen[key] = (ok, why, pa)
    for key, (ok, why, pa) in sorted(seen.items()):
        ctx.ob(rule, "recv:%s" % key, ok, why, info["where"], replay=None if ok else pa.describe())
    ctx.floor(rule, "path classes", len(seen), 10)
    # the validated buffer/message are the received ones
    for pa in paths:
        cc = pa.calls_to(RX_FP)
        if cc:
            a = repr(cc[0][2])
            ctx.ob(rule, "validate-args", "top:buffer" in a and "decode@" in a,
                   "validate_fingerprint(buffer, decoded message): %s" % a[:160], info["where"])
            break
    else:
        ctx.anchor_missing(rule, "call to fingerprint::validate_fingerprint in on_buffer_recv")


EXPECT_EVENT = {
    "Ok": ("StunClientEvent::StunMessageReceived", None),
    "ProtectionViolated": ("StunClientEvent::TransactionFailed", "StunTransactionError::ProtectionViolated"),
    "NotRetryable": ("StunClientEvent::TransactionFailed", "StunTransactionError::DoNotRetry"),
    "Retry": ("StunClientEvent::Retry", None),
}


def r7_3_glue(ctx, prog, rule="R7.3"):
    ctx.rule(rule, "client glue: mechanism verdict -> outcome (Ok: message delivered; Discarded: Err(Discarded), no "
                   "event; ProtectionViolated / NotRetryable: TransactionFailed with that reason; Retry: Retry event); "
                   "no mechanism: delivered")
    paths, info = explore_recv(ctx, prog)
    seen = {}
    for pa in paths:
        d = recv_desc(pa)
        if d["mech"] is None:
            continue
        verdict = d["recv"] if d["mech"] == "Some" else "Ok"
        if verdict is None:
            continue
        pushes = pa.pushes()
        key = "%s:cls=%s" % (verdict if d["mech"] == "Some" else "no-mechanism", d["cls"])
        if verdict == "Discarded":
            ok = pa.ret_kind == "Err" and pa.ret_err() == "StunAgentError::Discarded" and not pushes
            why = "Discarded -> %s %s, %d event(s)" % (pa.ret_kind, pa.ret_err(), len(pushes))
        else:
            exp = EXPECT_EVENT[verdict]
            ok = pa.ret_kind == "Ok" and len(pushes) == 1 and pushes[0][1] == exp[0]
            why = "%s -> %s" % (verdict, [p[1] for p in pushes])
            if ok and exp[1] is not None:
                ev = pushes[0][2]
                reason = ev[1][2] if isinstance(ev, tuple) and isinstance(ev[1], tuple) and len(ev[1]) > 2 else None
                ok = reason == exp[1]
                why += " reason=%s" % reason
            if ok and verdict != "Ok":
                # the failure names the message's transaction
                ok = "decode@" in repr(pushes[0][2])
        if key not in seen or not ok:
            seen[key] = (ok, why, pa)
    for key, (ok, why, pa) in sorted(seen.items()):
        ctx.ob(rule, "verdict:%s" % key, ok, why, info["where"], replay=None if ok else pa.describe())
    ctx.floor(rule, "verdict classes", len(seen), 12)


# ------------------------------------------------------------------------------------------------
# on_timeout

def timeout_segments(ctx, prog):
    paths, info = C.explore(prog, "on_timeout")
    ctx.fn(info["body"])
    if info["bounded"]:
        ctx.violation("explore", "on_timeout:bounded", "loop bound hit", info["where"])
    segs = []
    tails = []
    fn_path = info["body"].path
    for pa in paths:
        ss = segments(pa.log, fn_path)
        for i, seg in enumerate(ss[1:]):
            segs.append(seg)
        if len(ss) > 1:
            # the tail = what follows the loop in the last segment (after the iterator returned None)
            last = ss[-1]
            tails.append((last, pa))
    return segs, tails, info, paths


def seg_desc(seg):
    d = {"next": None, "get_mut": None, "next_rto": None, "violated": None}
    for e in seg:
        if e[0] != "choice":
            continue
        n, v = str(e[1]), e[2]
        if n.startswith("variant(ret:next@"):
            d["next"] = v
        elif n.startswith("variant(ret:get_mut@"):
            d["get_mut"] = v
        elif n.startswith("variant(ret:next_rto@"):
            d["next_rto"] = v
        elif n.startswith("ret:signal_protection_violated_on_timeout@") or n.startswith("ret:is_some_and@"):
            d["violated"] = v
        elif n == "variant(client.mechanism)":
            d["mech"] = v
    return d


def seg_calls(seg, rx, receiver=None):
    r = re.compile(rx)
    return [e for e in seg if e[0] == "call" and r.search(e[1]) and (receiver is None or (e[3] is not None and tuple(e[3][:len(receiver)]) == tuple(receiver)))]


def seg_pushes(seg):
    out = []
    for e in seg:
        if e[0] == "call" and re.search(RX_PUSH, e[1]):
            ev = e[2][1] if len(e[2]) > 1 else None
            out.append((ev[0] if isinstance(ev, tuple) else str(ev), ev))
    return out


def seg_key(d):
    return ",".join("%s=%s" % (k, d.get(k)) for k in ("get_mut", "next_rto", "mech", "violated") if d.get(k) is not None)


def r5_2_timeout(ctx, prog, rule="R5.2"):
    segs, tails, info, paths = timeout_segments(ctx, prog)
    seen = {}
    for seg in segs:
        d = seg_desc(seg)
        if d["next"] != "Some":
            continue
        pushes = seg_pushes(seg)
        failed = [p for p in pushes if p[0] == "StunClientEvent::TransactionFailed"]
        if not failed:
            continue
        rem = seg_calls(seg, r"HashMap::<.*>::remove", T_TABLE)
        add = seg_calls(seg, r"StunMessageTimeout::add$")
        ok = True
        why = "TransactionFailed with transactions.remove in the same iteration"
        if not rem:
            ok, why = False, "TransactionFailed pushed but the transaction is not removed from client.transactions in that iteration"
        elif "next@" not in repr(rem[0][2][1]):
            ok, why = False, "transactions.remove with a key that is not the timed-out id: %r" % (rem[0][2][1],)
        if add:
            ok, why = False, "a transaction reported as failed is re-armed (timeouts.add)"
        if len(failed) != 1:
            ok, why = False, "%d failure events for one timed-out id" % len(failed)
        if ok and "next@" not in repr(failed[0][1]):
            ok, why = False, "failure event does not name the timed-out id: %r" % (failed[0][1],)
        key = seg_key(d)
        if key not in seen or not ok:
            seen[key] = (ok, why, seg)
    for key, (ok, why, seg) in sorted(seen.items()):
        ctx.ob(rule, "timeout:%s" % key, ok, why, info["where"],
               replay=None if ok else {"segment": [repr(e)[:200] for e in seg]})
    ctx.floor(rule, "on_timeout iterations that report a failure", len(seen), 2)
    # exhausted arm must report the failure
    for seg in segs:
        d = seg_desc(seg)
        if d["get_mut"] == "Some" and d["next_rto"] == "None":
            failed = [p for p in seg_pushes(seg) if p[0] == "StunClientEvent::TransactionFailed"]
            ctx.ob(rule, "timeout-exhausted-reports:%s" % seg_key(d), len(failed) == 1,
                   "exhausted transaction -> %d TransactionFailed" % len(failed), info["where"])


def r5_2_finished(ctx, prog, rule="R5.2"):
    paths, info = C.explore(prog, "transaction_finished")
    ctx.fn(info["body"])
    n = 0
    for pa in paths:
        n += 1
        hr = pa.calls_to(r"StunMessageTimeout::remove$", T_HEAP)
        tr = pa.calls_to(r"HashMap::<.*>::remove", T_TABLE)
        key = ",".join("%s" % v for _n, v in pa.choices)
        ok = len(hr) == 1 and len(tr) == 1
        why = "timeouts.remove x%d, transactions.remove x%d" % (len(hr), len(tr))
        if ok:
            a1, a2 = repr(hr[0][2][1]), repr(tr[0][2][1])
            if "transaction_id" not in a1 or "transaction_id" not in a2:
                ok, why = False, "removes do not use the transaction_id argument: %s / %s" % (a1, a2)
        ctx.ob(rule, "finished:%s" % key, ok, why, info["where"], replay=None if ok else pa.describe())
    ctx.floor(rule, "transaction_finished paths", n, 3)


def r5_3_retransmit(ctx, prog, rule="R5.3"):
    ctx.rule(rule, "on_timeout emits a packet only for a transaction still in the table whose schedule has a next slot, "
                   "together with exactly one timeouts.add for that id; the packet is the stored one")
    segs, tails, info, paths = timeout_segments(ctx, prog)
    seen = {}
    for seg in segs:
        d = seg_desc(seg)
        pushes = seg_pushes(seg)
        outp = [p for p in pushes if p[0] == "StunClientEvent::OutputPacket"]
        add = seg_calls(seg, r"StunMessageTimeout::add$")
        if not outp and not add:
            continue
        ok = True
        why = "retransmission in the get_mut=Some, next_rto=Some arm with one timeouts.add"
        if d["get_mut"] != "Some" or d["next_rto"] != "Some":
            ok, why = False, "packet/timer emitted with get_mut=%s next_rto=%s" % (d["get_mut"], d["next_rto"])
        if len(outp) != 1 or len(add) != 1:
            ok, why = False, "%d OutputPacket, %d timeouts.add in one iteration" % (len(outp), len(add))
        if ok:
            if add[0][3] is None or tuple(add[0][3][:2]) != T_HEAP:
                ok, why = False, "timer added to %r" % (add[0][3],)
            elif "next@" not in repr(add[0][2][3]):
                ok, why = False, "timer armed for an id that is not the timed-out one: %r" % (add[0][2][3],)
            elif "next_rto@" not in repr(add[0][2][2]):
                ok, why = False, "timer duration is not the schedule's next slot: %r" % (add[0][2][2],)
            elif "get_mut@" not in repr(outp[0][1]) or "packet" not in repr(outp[0][1]):
                ok, why = False, "retransmitted packet is not the stored transaction.packet: %r" % (outp[0][1],)
        key = seg_key(d)
        if key not in seen or not ok:
            seen[key] = (ok, why, seg)
    for key, (ok, why, seg) in sorted(seen.items()):
        ctx.ob(rule, "timeout:%s" % key, ok, why, info["where"],
               replay=None if ok else {"segment": [repr(e)[:200] for e in seg]})
    ctx.floor(rule, "retransmitting iterations", len(seen), 1)
    # unknown id popped from the heap: nothing is emitted
    for seg in segs:
        d = seg_desc(seg)
        if d["next"] == "Some" and d["get_mut"] == "None":
            ctx.ob(rule, "timeout-unknown-id", not seg_pushes(seg) and not seg_calls(seg, r"StunMessageTimeout::add$"),
                   "id not in the table: %d pushes" % len(seg_pushes(seg)), info["where"])


def r7_3_timeout_reason(ctx, prog, rule="R7.3"):
    segs, tails, info, paths = timeout_segments(ctx, prog)
    seen = {}
    for seg in segs:
        d = seg_desc(seg)
        sig = seg_calls(seg, r"signal_protection_violated_on_timeout$")
        failed = [p for p in seg_pushes(seg) if p[0] == "StunClientEvent::TransactionFailed"]
        if not sig and not failed:
            continue
        ok = True
        why = "marker consumed only at the final time-out; reason follows it"
        if sig and not failed:
            ok, why = False, "signal_protection_violated_on_timeout (which clears the marker) is called in an iteration that does not end the transaction"
        if failed:
            ev = failed[0][1]
            reason = ev[1][2] if isinstance(ev, tuple) and isinstance(ev[1], tuple) and len(ev[1]) > 2 else None
            mech = d.get("mech")
            if mech == "Some":
                if not sig:
                    ok, why = False, "final time-out with a mechanism does not consult the violated marker"
                exp = "StunTransactionError::ProtectionViolated" if d["violated"] == 1 else "StunTransactionError::TimedOut"
                if reason != exp:
                    ok, why = False, "marker=%s but reason %s" % (d["violated"], reason)
            elif mech == "None":
                if reason != "StunTransactionError::TimedOut":
                    ok, why = False, "no mechanism but reason %s" % reason
        key = seg_key(d)
        if key not in seen or not ok:
            seen[key] = (ok, why, seg)
    for key, (ok, why, seg) in sorted(seen.items()):
        ctx.ob(rule, "timeout-reason:%s" % key, ok, why, info["where"],
               replay=None if ok else {"segment": [repr(e)[:200] for e in seg]})
    ctx.floor(rule, "final time-out classes", len(seen), 3)


def r15_1_karn_timeout(ctx, prog, rule="R15.1"):
    segs, tails, info, paths = timeout_segments(ctx, prog)
    seen = {}
    for seg in segs:
        d = seg_desc(seg)
        outp = [p for p in seg_pushes(seg) if p[0] == "StunClientEvent::OutputPacket"]
        if not outp:
            continue
        w = [e for e in seg if e[0] == "write" and e[2][-1:] == ("instant",) and "get_mut@" in str(e[1])]
        ok = len(w) >= 1 and all(x[3] == "Option::None" for x in w)
        key = seg_key(d)
        if key not in seen or not ok:
            seen[key] = (ok, "retransmission clears transaction.instant: %s" % ([x[3] for x in w] or "no write"), seg)
    for key, (ok, why, seg) in sorted(seen.items()):
        ctx.ob(rule, "karn-retransmit:%s" % key, ok, why, info["where"],
               replay=None if ok else {"segment": [repr(e)[:200] for e in seg]})
    ctx.floor(rule, "retransmitting iterations", len(seen), 1)


def r11_1_last_action(ctx, prog, rule="R11.1"):
    ctx.rule(rule, "the timeout notification is the last action of send_request / on_timeout: it is pushed iff "
                   "timeouts.next_timeout returned Some, carries that pair, and no table/heap mutation follows")
    for fn in ("on_timeout", "send_request"):
        paths, info = C.explore(prog, fn)
        ctx.fn(info["body"])
        seen = {}
        for pa in paths:
            if fn == "send_request" and pa.ret_kind != "Ok":
                # no notification on refused / failed sends
                bad = [p for p in pa.pushes() if p[1] == "StunClientEvent::RestransmissionTimeOut"]
                if bad:
                    seen["err-path"] = (False, "notification on a failing send_request", pa)
                continue
            idx = pa.index_of(r"StunMessageTimeout::next_timeout$")
            nt_choice = pa.choice(r"^variant\(ret:next_timeout@")
            notif = [(i, ev) for (i, name, ev) in pa.pushes() if name == "StunClientEvent::RestransmissionTimeOut"]
            ok = True
            why = "notification after the work, iff a deadline is pending"
            if idx < 0:
                ok, why = False, "next_timeout is not consulted"
            else:
                nt = pa.log[idx]
                if nt[3] is None or tuple(nt[3][:2]) != T_HEAP:
                    ok, why = False, "next_timeout on %r" % (nt[3],)
                elif "instant" not in repr(nt[2][1]):
                    ok, why = False, "next_timeout is not given the current instant: %r" % (nt[2][1],)
                # after the deadline was read nothing may change the timer heap or the table (the pair reported would be
                # stale): calls that can mutate that state (by their `&mut` arguments) and writes to it; pushing the events
                # themselves, building iterators over them and formatting are not such work
                def touches_state(e):
                    muts = e[5] if len(e) > 5 else ()
                    return any(m and m[0] == "client" and (len(m) == 1 or str(m[1]) in (STATE_FIELDS - {"transaction_events"})) for m in muts)
                after = [e for e in pa.log[idx + 1:] if e[0] == "call" and not re.search(RX_PUSH, e[1]) and touches_state(e)]
                after_w = [e for e in pa.log[idx + 1:] if e[0] in ("write", "write-elem") and e[1] == "client"
                           and e[2] and str(e[2][0]) in (STATE_FIELDS - {"transaction_events"})] + \
                          [e for e in pa.log[idx + 1:] if e[0] == "write-unknown-pointer"]
                if after or after_w:
                    ok, why = False, "work after the notification point: %s" % [C.short(e[1]) if e[0] == "call" else e[:3] for e in after + after_w][:4]
                # the notification is the last event of the batch
                nidx = max([i for (i, name, ev) in pa.pushes() if name == "StunClientEvent::RestransmissionTimeOut"], default=None)
                others = [(i, name) for (i, name, ev) in pa.pushes() if nidx is not None and i > nidx and name != "StunClientEvent::RestransmissionTimeOut"]
                if others:
                    ok, why = False, "events after the notification: %s" % others
                if nt_choice == "Some":
                    if len(notif) != 1 or notif[0][0] < idx:      # pushed after the deadline was read
                        ok, why = False, "pending deadline but %d notification(s)" % len(notif)
                    elif "next_timeout@" not in repr(notif[0][1]):
                        ok, why = False, "notification does not carry next_timeout's pair: %r" % (notif[0][1],)
                elif nt_choice == "None":
                    if notif:
                        ok, why = False, "notification without a pending deadline"
            key = "%s:next_timeout=%s" % (fn, nt_choice)
            if key not in seen or not ok:
                seen[key] = (ok, why, pa)
        for key, (ok, why, pa) in sorted(seen.items()):
            ctx.ob(rule, key, ok, why, info["where"], replay=None if ok else pa.describe())
        ctx.floor(rule, "%s notification classes" % fn, len(seen), 2)


# ------------------------------------------------------------------------------------------------
# send_request

def send_desc(pa):
    d = {"full": None, "mech": None, "prep": None, "use_fp": None, "enc": None, "rtt": None, "rto": None}
    for n, v in pa.choices:
        n = str(n)
        if n.startswith("cmp:") and "len@" in n:
            # canonical form of the capacity test, however it is spelled: full <=> len() >= max_transactions
            ent = next((e for e in pa.log if e[0] == "cmp" and e[1] == n), None)
            op = n.split(":")[1]
            a_len = ent is not None and "len@" in repr(ent[3]) and "max_transactions" in repr(ent[4])
            b_len = ent is not None and "len@" in repr(ent[4]) and "max_transactions" in repr(ent[3])
            if a_len and op in ("Ge", "Eq"):
                d["full"], d["cmp"] = v, "Ge"
            elif a_len and op == "Lt":
                d["full"], d["cmp"] = 1 - v, "Ge"
            elif b_len and op in ("Le", "Eq"):
                d["full"], d["cmp"] = v, "Ge"
            elif b_len and op == "Gt":
                d["full"], d["cmp"] = 1 - v, "Ge"
            else:
                d["full"], d["cmp"] = v, op
        elif n == "variant(client.mechanism)":
            d["mech"] = v
        elif n.startswith("variant(ret:prepare_request@"):
            d["prep"] = v
        elif n == "client.use_fingerprint":
            d["use_fp"] = v
        elif n.startswith("variant(ret:encode_buffer@"):
            d["enc"] = v
        elif n == "variant(client.rtt)":
            d["rtt"] = v
        elif n.startswith("variant(ret:next_rto@"):
            d["rto"] = v
    return d


def send_key(d):
    return ",".join("%s=%s" % (k, d[k]) for k in ("full", "mech", "prep", "use_fp", "enc", "rtt", "rto") if d.get(k) is not None)


def r12_1_refusal(ctx, prog, rule="R12.1"):
    ctx.rule(rule, "send_request: the capacity test transactions.len() >= max_transactions precedes every effect; the "
                   "refusing path returns MaxOutstandingRequestsReached with an empty effect log")
    paths, info = C.explore(prog, "send_request")
    ctx.fn(info["body"])
    seen = {}
    for pa in paths:
        d = send_desc(pa)
        key = send_key(d)
        ok = True
        why = "capacity test first"
        first_call = pa.calls[0] if pa.calls else None
        if first_call is None or not re.search(r"HashMap::<.*>::len$", first_call[1]) or first_call[3] != T_TABLE:
            ok, why = False, "first action is %s, not transactions.len()" % (C.short(first_call[1]) if first_call else None)
        if d["full"] is None:
            ok, why = False, "capacity comparison not found on the path"
        else:
            # position of the comparison choice in the log relative to other effects
            ci = [i for i, e in enumerate(pa.log) if e[0] == "choice" and str(e[1]).startswith("cmp:") and "len@" in str(e[1])][0]
            before = [e for e in pa.log[:ci] if e[0] in ("call", "write") and not re.search(r"HashMap::<.*>::len$", e[1] if e[0] == "call" else "")]
            if before:
                ok, why = False, "effects before the capacity test: %s" % [C.short(e[1]) if e[0] == "call" else e for e in before][:4]
            if d.get("cmp") not in ("Ge", "Eq") or "max_transactions" not in str([n for n, v in pa.choices if str(n).startswith("cmp:") and "len@" in str(n)][0]):
                ok, why = False, "capacity comparison is %s, expected len() >= max_transactions" % d.get("cmp")
            if d["full"] == 1:
                others = [e for e in pa.log[ci + 1:] if e[0] in ("call", "write")]
                if others or pa.ret_err() != "StunAgentError::MaxOutstandingRequestsReached":
                    ok, why = False, "refusal path: ret=%s effects=%s" % (pa.ret_err(), [C.short(e[1]) for e in others if e[0] == "call"][:4])
        if key not in seen or not ok:
            seen[key] = (ok, why, pa)
    for key, (ok, why, pa) in sorted(seen.items()):
        ctx.ob(rule, "send:%s" % key, ok, why, info["where"], replay=None if ok else pa.describe())
    ctx.floor(rule, "send_request path classes", len(seen), 10)


def r12_2_one_insert(ctx, prog, rule="R12.2"):
    ctx.rule(rule, "send_request: exactly one transactions.insert (and one timeouts.add, same id) on every Ok path, none on "
                   "any Err path, no event on Err paths; max_transactions is written only by the constructor")
    paths, info = C.explore(prog, "send_request")
    seen = {}
    for pa in paths:
        d = send_desc(pa)
        ins = pa.calls_to(r"HashMap::<.*>::insert$", T_TABLE)
        add = pa.calls_to(r"StunMessageTimeout::add$", T_HEAP)
        pushes = pa.pushes()
        key = send_key(d) + ":" + pa.ret_kind
        if pa.ret_kind == "Ok":
            ok = len(ins) == 1 and len(add) == 1
            why = "Ok path: %d insert, %d timeouts.add" % (len(ins), len(add))
            if ok:
                k1, k2 = repr(ins[0][2][1]), repr(add[0][2][3])
                if k1 != k2 or "create_stun_message@" not in k1:
                    ok, why = False, "insert key %s / timer id %s are not the new message's id" % (k1, k2)
                if "create_stun_message@" not in repr(pa.ret):
                    ok, why = False, "returned id is not the new message's id: %r" % (pa.ret,)
                outp = [p for p in pushes if p[1] == "StunClientEvent::OutputPacket"]
                if len(outp) != 1:
                    ok, why = False, "%d OutputPacket on an Ok path" % len(outp)
        else:
            ok = not ins and not add and not pushes
            why = "Err path: %d insert, %d timeouts.add, %d events" % (len(ins), len(add), len(pushes))
        if key not in seen or not ok:
            seen[key] = (ok, why, pa)
    for key, (ok, why, pa) in sorted(seen.items()):
        ctx.ob(rule, "send:%s" % key, ok, why, info["where"], replay=None if ok else pa.describe())
    ctx.floor(rule, "send_request path classes", len(seen), 10)


def who_may_write(ctx, prog, rule, field, adt, allowed_fns):
    """every write access (assignment or &mut borrow) to StunClient.<field> outside the allowed functions"""
    n = 0
    bad = []
    for b in prog.bodies.values():
        if b.crate != "stun_agent":
            continue
        for bi, blk in enumerate(b.blocks):
            for s in blk["stmts"]:
                if s["k"] != "assign":
                    continue
                places = [(s["place"], "assign")]
                rv = s["rv"]
                if rv["k"] in ("ref", "rawptr") and rv.get("mut"):
                    places.append((rv["place"], "&mut"))
                for pl, how in places:
                    for e in pl["p"]:
                        if e["k"] == "field" and e.get("name") == field and e.get("adt") == adt:
                            # only the *last* field projection counts for assign; any for &mut
                            if how == "assign" and pl["p"][-1] is not e:
                                # writing a sub-field of the field
                                pass
                            n += 1
                            # a closure belongs to its function, a non-public helper split off by a refactoring to its callers
                            from ..absint import owning_functions
                            for fnname in sorted(owning_functions(prog, b)):
                                if not any(re.search(a, fnname) for a in allowed_fns):
                                    bad.append("%s (%s) at %s:%s" % (fnname if fnname == b.path else "%s via %s" % (fnname, b.path), how, b.file, s.get("line")))
    return n, bad


def r5_4_who_may_write(ctx, prog, rule="R5.4"):
    ctx.rule(rule, "who may mutate: client.transactions only in send_request (insert), transaction_finished and on_timeout "
                   "(remove / get_mut); client.timeouts only in set_timeout, on_timeout, transaction_finished, send_request; "
                   "max_transactions never after construction")
    adt = "stun_agent::client::StunClient"
    table = {
        "transactions": [r"StunClient::send_request$", r"StunClient::transaction_finished$", r"StunClient::on_timeout$"],
        "timeouts": [r"StunClient::set_timeout$", r"StunClient::on_timeout$", r"StunClient::transaction_finished$", r"StunClient::send_request$"],
        "max_transactions": [],
        "use_fingerprint": [],
    }
    for field, allowed in table.items():
        n, bad = who_may_write(ctx, prog, rule, field, adt, allowed)
        ctx.ob(rule, "write:%s" % field, not bad,
               "%d mutable access(es) to StunClient.%s, outside the allowed functions: %s" % (n, field, bad or "none"))
    # which table methods are called where
    calls = {}
    for b in prog.bodies.values():
        if b.crate != "stun_agent" or "::tests" in b.path or "_tests::" in b.path:
            continue
        from ..mirq import q_of
        q = q_of(b)
        for c in q.calls(r"HashMap::<.*>::(insert|remove|get_mut|clear|drain|retain|entry|extend)"):
            if q.receiver_fields(c) == ("transactions",):
                m = re.search(r"::(\w+)(::<.*>)?$", c.callee_path).group(1)
                calls.setdefault(m, set()).add(b.path.split("::")[-1])
    exp = {"insert": {"send_request"}, "remove": {"transaction_finished", "on_timeout"}, "get_mut": {"on_timeout"}}
    # transactions.entry(k) stands for the operations then applied to the entry in the same function: occupied.remove ->
    # remove, occupied.get_mut / into_mut -> get_mut, vacant.insert / or_insert* / occupied.insert -> insert.  A function that
    # takes an entry and applies nothing recognisable to it keeps the `entry` row (not allowed anywhere).
    ENTRY_OPS = {"remove": "remove", "remove_entry": "remove", "get_mut": "get_mut", "into_mut": "get_mut", "insert": "insert",
                 "insert_entry": "insert", "or_insert": "insert", "or_insert_with": "insert", "or_insert_with_key": "insert",
                 "or_default": "insert", "and_modify": "get_mut"}
    for fname in sorted(calls.get("entry", ())):
        ops = set()
        for b in prog.bodies.values():
            if b.crate == "stun_agent" and b.path.split("::")[-1] == fname and "::tests" not in b.path:
                for c in b.calls():
                    m_ = re.match(r"^std::collections::hash_map::(OccupiedEntry|VacantEntry|Entry)::<.*>::(\w+)(::<.*>)?$", c.full)
                    if m_ and m_.group(2) in ENTRY_OPS:
                        ops.add(ENTRY_OPS[m_.group(2)])
        if ops:
            calls["entry"].discard(fname)
            for op in ops:
                calls.setdefault(op, set()).add(fname)
    if "entry" in calls and not calls["entry"]:
        del calls["entry"]
    for m, fns in sorted(calls.items()):
        ctx.ob(rule, "table-method:%s" % m, m in exp and fns <= exp[m],
               "transactions.%s called in %s (allowed: %s)" % (m, sorted(fns), sorted(exp.get(m, []))))
    ctx.floor(rule, "table mutators found", len(calls), 3)


def r12_5_limit_passthrough(ctx, prog, rule="R12.5"):
    ctx.rule(rule, "the configured limit is the limit: with_max_transactions stores its argument unchanged and leaves every other "
                   "setting alone; the builder starts from the default 10; build hands the parameters to StunClient::new, "
                   "which copies params.max_transactions into the client on every Ok path")
    B = "stun_agent::client::StunClienteBuilder"
    adt = prog.adt("stun_agent::client::StunClientParameters")
    names = [f["name"] for f in adt["variants"][0]["fields"]]
    if "max_transactions" not in names:
        ctx.anchor_missing(rule, "StunClientParameters.max_transactions")
        return
    ix = names.index("max_transactions")
    paths, info = C.explore_fn(prog, B + "::with_max_transactions", "b", [r"\{closure"])
    ctx.fn(info["body"])
    for pa in paths:
        r = C.expr_of(pa, pa.ret)
        ok = isinstance(r, tuple) and r[0] == "StunClienteBuilder" and isinstance(r[1], tuple) and len(r[1]) == len(names) + 1
        if ok:
            p = r[1][1:]
            ok = p[ix] == "top:max_transactions" and all(str(p[i]).endswith("b.0.%s" % names[i]) for i in range(len(names)) if i != ix)
        ctx.ob(rule, "setter", ok and not pa.calls, "with_max_transactions(n) -> %s; calls %s" % (show(r)[:200], pa.call_names()), info["where"],
               replay=None if ok else pa.describe())
    ctx.floor(rule, "setter paths", len(paths), 1)
    paths, info = C.explore_fn(prog, B + "::new", "b", [r"\{closure"])
    for pa in paths:
        r = C.expr_of(pa, pa.ret)
        ok = isinstance(r, tuple) and isinstance(r[1], tuple) and len(r[1]) == len(names) + 1 and r[1][1 + ix] == 10
        ctx.ob(rule, "default", ok, "builder default: max_transactions = %s" % (r[1][1 + ix] if isinstance(r, tuple) and isinstance(r[1], tuple) and len(r[1]) > ix + 1 else "?"), info["where"])
    paths, info = C.explore_fn(prog, B + "::build", "b", [r"\{closure"])
    for pa in paths:
        r = C.expr_of(pa, pa.ret)
        ctx.ob(rule, "build", r == ("StunClient::new", "top:b.0"), "build() = %s" % show(r)[:120], info["where"])
    paths, info = C.explore_fn(prog, CLIENT + "::new", "c", [r"\{closure"])
    ctx.fn(info["body"])
    cadt = prog.adt(CLIENT)
    cn = [f["name"] for f in cadt["variants"][0]["fields"]]
    vals = set()
    n = 0
    for pa in paths:
        r = C.expr_of(pa, pa.ret)
        if isinstance(r, tuple) and r[0] == "Result::Ok" and isinstance(r[1], tuple) and len(r[1]) == len(cn) + 1:
            n += 1
            vals.add(str(r[1][1 + cn.index("max_transactions")]))
    ctx.ob(rule, "constructor", n >= 1 and vals == {"top:params.max_transactions"}, "StunClient::new: max_transactions = %s on %d Ok path(s)" % (sorted(vals), n), info["where"])
