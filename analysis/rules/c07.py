"""C07 - short-term credentials: only authenticated messages are delivered (decided at the
abstraction 'which integrity attributes are admitted on the wire / the MAC verifies or not')."""
from . import client_rules as R
from . import mech_rules as M


def check(ctx, env):
    ctx.explanation = (
        "Static: ShortTermCredentialClient::recv_message (through process_message, the real protected iterator, "
        "TransportIntegrity::compute_message_integrity / discard_message) is explored by abstract interpretation with "
        "message class, configured/learned algorithm, transport, wire attribute sequence (loop fixpoint over "
        "attribute kinds: all lengths) and the atom 'MAC verifies' undetermined; the resulting decision table "
        "(outcome, learned algorithm, violated marker, which attribute is verified under which key) is compared row by "
        "row with RFC 8489 9.1.4 as the property words it (R7.1). The request decoration table (R7.2) and the client "
        "glue verdict -> event, including the final time-out reason (R7.3), are decided the same way. That the MAC "
        "bytes verify under the password is NOT decided (C04's undecided part).")
    ctx.assumptions = ["rustc MIR", "callee models of analysis/models.py", "HashSet insert/remove logged, not stepped into",
                       "validate_message_integrity is an atom (its code is checked under C04 R4.5)",
                       "for responses carrying both integrity attributes the expected outcome is Discarded without marker (the code's documented choice)"]
    prog = env.prog("agent")
    M.r7_1_st_table(ctx, prog)
    M.r7_2_st_send(ctx, prog)
    R.r7_3_glue(ctx, prog)
    R.r7_3_timeout_reason(ctx, prog)
    # "ends the transaction": every event pushed for a response comes with transaction_finished (same rule as C05 R5.2)
    R.r5_2_recv_final(ctx, prog, rule="R7.4")
    ctx.extra["exhaustive"] = True
