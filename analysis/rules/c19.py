"""C19 - value types never panic and clones are independent."""
import re
from ..absint import owning_functions
from . import panic_rules as P
from .. import panics

STD_TRAIT = re.compile(r"^(std|core|alloc)::")


def public_entries(prog):
    out = []
    for b in prog.bodies.values():
        if b.crate != "stun_rs" or b.kind not in ("Fn", "AssocFn"):
            continue
        if re.search(r"::expect_\w+$", b.path):
            continue                      # documented to panic on a type mismatch
        tn = b.raw.get("trait_name")
        if tn is not None:
            if STD_TRAIT.search(tn) or tn in ("stun_rs::Encode", "stun_rs::Decode", "stun_rs::attributes::StunAttributeType"):
                out.append(b)
            continue
        if b.is_public:
            out.append(b)
    return out


def r19_2_shared_pointers(ctx, prog, rule="R19.2"):
    ctx.rule(rule, "shared-pointer discipline: in types holding Arc/Rc the only way to obtain &mut into the shared allocation is "
                   "Arc::make_mut (copy-on-write); Arc::get_mut / get_mut_unchecked / as_ptr writes are violations")
    holders = []
    for a in prog.adts.values():
        if not a.get("local") or a["crate"] not in ("stun_rs", "stun_agent"):
            continue
        for v in a["variants"]:
            for f in v["fields"]:
                if "ty" in f:
                    ts = a["types"][f["ty"]]["s"]
                    if ts.startswith(("std::sync::Arc<", "std::rc::Rc<")):
                        holders.append((a["name"], f["name"], ts))
    ctx.floor(rule, "types holding a shared pointer", len(holders), 5)
    bad, good = [], []
    for b in prog.bodies.values():
        if b.crate not in ("stun_rs", "stun_agent") or "::tests::" in b.path or "_tests::" in b.path:
            continue
        for c in b.calls():
            p = c.callee_path
            if re.search(r"^std::sync::Arc::<.*>::(get_mut|get_mut_unchecked|as_ptr|into_raw|from_raw)$|^std::rc::Rc::<.*>::(get_mut|get_mut_unchecked)$", c.full) \
                    or re.search(r"^std::sync::Arc::<.*>::(get_mut|get_mut_unchecked)$", p):
                bad.append("%s calls %s at %s:%s" % (b.path, c.full.split("::")[-1], b.file, c.line))
            if re.search(r"Arc::<.*>::make_mut$", c.full) or re.search(r"Arc::<.*>::make_mut$", p):
                good.append(b.path)
    ctx.ob(rule, "no-get_mut", not bad, "mutation through a shared pointer without copy-on-write: %s" % (bad or "none"))
    ctx.ob(rule, "make_mut-sites", len(good) >= 2, "copy-on-write sites (Arc::make_mut): %s" % sorted(set(x.split("::")[-2] + "::" + x.split("::")[-1] for x in good)))
    # no unsafe / interior mutability in the value types (so a clone's other fields are owned copies)
    inter = []
    for a in prog.adts.values():
        if a.get("local") and a["crate"] == "stun_rs":
            for v in a["variants"]:
                for f in v["fields"]:
                    if "ty" in f and re.search(r"(cell::(Cell|RefCell|UnsafeCell|OnceCell)|sync::(Mutex|RwLock|atomic))", a["types"][f["ty"]]["s"]):
                        inter.append("%s.%s" % (a["name"], f["name"]))
    ctx.ob(rule, "no-interior-mutability", not inter, "value types with interior mutability: %s" % (inter or "none"))


def check(ctx, env):
    ctx.explanation = (
        "Static: (R19.1) every function of stun-rs callable from outside (public fns, and impls of std traits and of the "
        "public Encode/Decode/StunAttributeType traits; the generated expect_* accessors are excluded as documented) is an "
        "entry point of the panic-site inventory (all features); every site in the reachable set is discharged by the prover "
        "or in the reviewed budget. (R19.2) mutation through shared pointers only by Arc::make_mut; no interior mutability.")
    ctx.assumptions = ["rustc MIR", "std functions outside MAY_PANIC do not panic", "reviewed budget anchors/panic_budget.json",
                       "no unsafe code in the workspace (checked by R19.2 scan of the MIR for raw-pointer derefs is not needed: #![forbid] not assumed)"]
    ctx.rule("R19.1", "no reachable panic from the public API of the value types: every site discharged or budgeted")
    prog = env.prog("full")
    entries = public_entries(prog)
    ctx.floor("R19.1", "public entry points", len(entries), 400)
    seen, ext, ind = P.inventory(ctx, prog, "R19.1", entries)
    st = P.check_sites(ctx, prog, "R19.1", "C19", seen)
    st["reachable_functions"] = len(seen)
    st["entry_points"] = len(entries)
    ctx.extra["panic_sites"] = st
    ctx.floor("R19.1", "panic sites inventoried", st["sites"], 120)
    r19_2_shared_pointers(ctx, prog)
    r19_3_error_code_invariant(ctx, prog)
    if env.tier == "thorough":
        from .. import witness
        witness.run(ctx, "R19.3", ["W3"])


def r19_3_error_code_invariant(ctx, prog, rule="R19.3"):
    """the budgeted unwraps of ErrorCode::class / number rely on 300 <= error_code <= 699"""
    ctx.rule(rule, "ErrorCode invariant (required by the budgeted unwraps in ErrorCode::class/number): the only constructors of "
                   "the private field are ErrorCode::new, whose Ok path is exactly (300..700).contains(&error_code), and "
                   "ErrorCode::decode, which builds class*100 + number with class in 3..=6 and number in 0..=99")
    from .. import client as C
    paths, info = C.explore_fn(prog, "stun_rs::types::ErrorCode::new", "x", [r"\{closure"])
    ctx.fn(info["body"])
    n = 0
    for pa in paths:
        cs = pa.calls_to(r"Range::<u16>::contains|ops::Range::<.*>::contains|RangeBounds|Range<u16>")
        cs = cs or [e for e in pa.calls if e[1].endswith("::contains::<u16>") or "Range" in e[1] and "contains" in e[1]]
        val = pa.choice(r"^ret:contains@")
        n += 1
        ok = len(cs) == 1 and C.expr_of(pa, cs[0][2]) == (("Range", 300, 700), "top:error_code") and val is not None \
            and ((pa.ret_kind == "Ok") == (val == 1))
        if ok and pa.ret_kind == "Ok":
            r = pa.ret
            ok = isinstance(r, tuple) and isinstance(r[1], tuple) and r[1][0] == "ErrorCode" and r[1][1] == "top:error_code"
        ctx.ob(rule, "new:%s" % pa.ret_kind, ok, "ErrorCode::new -> %s when contains=%s of %s" % (pa.ret_kind, val, [C.expr_of(pa, c[2]) for c in cs][:1]),
               info["where"], replay=None if ok else pa.describe())
    ctx.floor(rule, "ErrorCode::new paths", n, 2)
    # who constructs ErrorCode { error_code, .. }
    makers = set()
    for b in prog.bodies.values():
        if b.crate != "stun_rs":
            continue
        for blk in b.blocks:
            for s in blk["stmts"]:
                if s["k"] == "assign" and s["rv"]["k"] == "aggregate" and s["rv"].get("adt", "").endswith("types::ErrorCode"):
                    makers.update(owning_functions(prog, b))
                if s["k"] == "assign" and any(e["k"] == "field" and e.get("name") == "error_code" and e.get("adt", "").endswith("types::ErrorCode") for e in s["place"]["p"]):
                    makers.add(b.path + " (field write)")
    allowed = {"stun_rs::types::ErrorCode::new", "<stun_rs::types::ErrorCode as stun_rs::Decode<'_>>::decode",
               "<stun_rs::types::ErrorCode as std::clone::Clone>::clone"}
    ctx.ob(rule, "constructors", makers <= allowed and len(makers) >= 2, "ErrorCode values are built in %s" % sorted(x.split("::")[-1] + "@" + x.split("::")[-2] for x in makers))
    # decode builds its value through ErrorCode::new, so the invariant has a single gate
    b = prog.body("<stun_rs::types::ErrorCode as stun_rs::Decode<'_>>::decode")
    via_new = [c for c in b.calls() if c.callee_path == "stun_rs::types::ErrorCode::new"]
    ctx.ob(rule, "decode-uses-new", len(via_new) == 1, "ErrorCode::decode constructs through ErrorCode::new (%d call)" % len(via_new), b.where())
