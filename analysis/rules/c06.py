"""C06 - retransmission schedule (structural clauses: the recurrence that generates the schedule and the
per-call bookkeeping identities; the closed-form instants over sequences of calls are NOT decided)."""
import re
from .. import client as C
from .exprs import show, same
from . import client_rules as R
from ..shared import segments

CALC = "stun_agent::timeout::RtoCalculator"
MGR = "stun_agent::timeout::RtoManager"


def r6_1_calculator(ctx, prog):
    ctx.rule("R6.1", "RtoCalculator::next_rto is the RFC 8489 7.2.1 recurrence: None once Rc transmissions were scheduled; the "
                     "last interval is RTO x Rm; every other interval is RTO x multiplier; each call doubles the multiplier "
                     "and decrements the counter; new() starts with multiplier 1; defaults 500 ms / Rc 7 / Rm 16")
    paths, info = C.explore_fn(prog, CALC + "::next_rto", "m", [])
    ctx.fn(info["body"])
    n = 0
    for pa in paths:
        z = pa.choice(r"^cmp:Eq:\('t', 'm\.rc'\):\('c', 0\)$")
        one = pa.choice(r"^cmp:Eq:\('t', 'm\.rc'\):\('c', 1\)$")
        for d_, v_ in pa.switches():
            # `match self.rc { 0 => .., 1 => .., _ => .. }`: the same three classes, decided by a switch
            if d_ == "top:m.rc":
                z = 1 if str(v_) == "0" else 0
                one = 1 if str(v_) == "1" else (one if z else 0)
        if z is None:
            # any other spelling (`self.rc.checked_sub(1)?`, `remaining == 0`, `rc < 2`): the tests on the counter are linear
            # comparisons with constants; the counter values they admit decide the class
            adm = _admitted_counter_values(pa.guards(), pa.switches(), "top:m.rc")
            if adm is not None:
                if adm == {0}:
                    z, one = 1, 0
                elif adm == {1}:
                    z, one = 0, 1
                elif adm and min(adm) >= 2 and set(range(2, 9)) <= adm:
                    z, one = 0, 0
        r = C.expr_of(pa, pa.ret)
        w = {x[2][0]: C.expr_of(pa, x[3]) for x in pa.writes if x[1] == "m" and len(x[2]) == 1}
        n += 1
        if z == 1:
            ok = r == "Option::None" and not w
            key = "exhausted"
        else:
            mult = "top:m.last_rm" if one == 1 else "top:m.rm"
            ok = r == ("Option::Some", ("Duration::mul", "top:m.rtt", mult)) and \
                w == {"rm": ("op:Mul", "top:m.rm", 2), "rc": ("op:Sub", "top:m.rc", 1)}
            key = "last" if one == 1 else "doubling"
        ctx.ob("R6.1", "next_rto:%s" % key, ok and z is not None, "-> %s; writes %s" % (show(r), {k: show(v) for k, v in w.items()}), info["where"],
               replay=None if ok else pa.describe())
    ctx.floor("R6.1", "RtoCalculator::next_rto paths", n, 3)
    paths, info = C.explore_fn(prog, CALC + "::new", "x", [])
    for pa in paths:
        r = pa.ret
        ctx.ob("R6.1", "new", r == ("RtoCalculator", "top:rtt", 1, "top:rc", "top:last_rm"), "RtoCalculator::new = %s" % show(r), info["where"])
    adt = prog.adt(CALC)
    names = [f["name"] for f in adt["variants"][0]["fields"]]
    ctx.ob("R6.1", "fields", names == ["rtt", "rm", "rc", "last_rm"], "RtoCalculator fields %s" % names)
    # defaults
    vals = {}
    for nme in ("DEFAULT_RTO", "DEFAULT_RC", "DEFAULT_RM"):
        b = prog.body("stun_agent::timeout::" + nme, required=False)
        if b is None:
            ctx.anchor_missing("R6.1", "timeout::" + nme)
            continue
        for blk in b.blocks:
            for s in blk["stmts"]:
                if s["k"] == "assign" and s["rv"]["k"] == "use" and s["rv"]["op"]["k"] == "const" and "bits" in s["rv"]["op"]:
                    vals[nme] = int(s["rv"]["op"]["bits"])
            t = blk["term"]
            if t["k"] == "call" and "from_millis" in (t["func"].get("fn", {}).get("path", "")):
                a = t["args"][0]
                if a["k"] == "const" and "bits" in a:
                    vals[nme] = ("ms", int(a["bits"]))
    ctx.ob("R6.1", "defaults", vals == {"DEFAULT_RTO": ("ms", 500), "DEFAULT_RC": 7, "DEFAULT_RM": 16}, "defaults %s" % vals)
    cfgs = [b for b in prog.bodies.values() if b.path == "<stun_agent::RttConfig as std::default::Default>::default"]
    if cfgs:
        used = set()
        for blk in cfgs[0].blocks:
            for s in blk["stmts"]:
                if s["k"] == "assign" and s["rv"]["k"] == "aggregate":
                    for o in s["rv"]["ops"]:
                        if o["k"] == "const" and "named" in o:
                            used.add(o["named"].split("::")[-1])
                if s["k"] == "assign" and s["rv"]["k"] == "use" and s["rv"]["op"]["k"] == "const" and "named" in s["rv"]["op"]:
                    used.add(s["rv"]["op"]["named"].split("::")[-1])
        ctx.ob("R6.1", "config-defaults", {"DEFAULT_RTO", "DEFAULT_RC", "DEFAULT_RM"} <= used, "RttConfig::default uses %s" % sorted(used), cfgs[0].where())


def _admitted_counter_values(guards, switches, leaf, upto=9):
    """the values 0..upto of `leaf` that satisfy every test of the path; None when a test on it is not a comparison of a
    linear form with a constant"""
    def ev(e, x):
        if e == leaf:
            return x
        if isinstance(e, int) and not isinstance(e, bool):
            return e
        if isinstance(e, tuple) and len(e) == 3 and e[0] in ("op:Sub", "op:Add"):
            a, b = ev(e[1], x), ev(e[2], x)
            if a is None or b is None:
                return None
            return a - b if e[0] == "op:Sub" else a + b
        return None
    rel = {"Eq": lambda a, b: a == b, "Ne": lambda a, b: a != b, "Lt": lambda a, b: a < b, "Le": lambda a, b: a <= b,
           "Gt": lambda a, b: a > b, "Ge": lambda a, b: a >= b}
    adm = set(range(0, upto + 1))
    for op, a, b, v in guards:
        if leaf not in repr(a) + repr(b):
            continue
        if op not in rel:
            return None
        keep = set()
        for x in adm:
            va, vb = ev(a, x), ev(b, x)
            if va is None or vb is None:
                return None
            if va < 0 or vb < 0:
                continue                 # an unsigned subtraction that would have overflowed: not on this path
            if rel[op](va, vb) == bool(v):
                keep.add(x)
        adm = keep
    for d_, v_ in switches:
        if d_ == leaf:
            if str(v_).isdigit():
                adm &= {int(v_)}
            else:
                return None
    return adm


def r6_2_manager(ctx, prog):
    ctx.rule("R6.2", "RtoManager::next_rto keeps an absolute schedule: first call arms the first interval; a call before the "
                     "deadline (latest + last_rto) re-arms the remaining time without consuming a slot; a call at or after it "
                     "consumes slots until the first deadline beyond now and arms deadline - now; exhaustion returns None and "
                     "clears the schedule")
    paths, info = C.explore_fn(prog, MGR + "::next_rto", "m", [r"\{closure"])
    ctx.fn(info["body"])
    deadline = ("Instant::add", "top:m.latest.some", "top:m.last_rto")
    seen = {}
    for pa in paths:
        latest = pa.choice(r"^variant\(m\.latest\)$")
        # the deadline test, however it is spelled (instant >= deadline, instant < deadline, deadline > instant, ..):
        # ge = 0 when the path established deadline > instant (early), 1 when it established deadline <= instant (due)
        from .codec_rules import order_facts
        facts = order_facts(pa)
        ge = None
        dl_facts = [f for f in facts if same(f[0], deadline) and f[1] == "top:instant"]
        if dl_facts:
            ge = 0 if dl_facts[0][2] else 1
        slot_facts = [f for f in facts if f not in dl_facts[:1]]
        r = C.expr_of(pa, pa.ret)
        w = {}
        for x in pa.writes:
            if x[1] == "m" and len(x[2]) == 1:
                w[x[2][0]] = C.expr_of(pa, x[3])
        calc = pa.calls_to(r"RtoCalculator::next_rto$")
        ok = True
        why = "ok"
        if latest == "None":
            first = pa.choice(r"^variant\(ret:next_rto@")
            key = "first:%s" % first
            if first == "Some":
                t = (("RtoCalculator::next_rto", "top:m.calculator"), ".some")
                ok = len(calc) == 1 and r == ("Option::Some", t) and w == {"last_rto": t, "latest": ("Option::Some", "top:instant")}
            else:
                # nothing armed: no write, or `latest = None` again (it is None on this path)
                ok = len(calc) == 1 and r == "Option::None" and (not w or w == {"latest": "Option::None"})
            why = "-> %s, writes %s" % (show(r)[:80], {k: show(v)[:60] for k, v in w.items()})
        elif ge == 0:
            key = "early"
            rem = ("Instant::sub", deadline, "top:instant")
            ok = not calc and r == ("Option::Some", rem) and w == {"last_rto": rem, "latest": ("Option::Some", "top:instant")} \
                and len(facts) == 1
            why = "-> %s, calculator calls %d" % (show(r)[:100], len(calc))
        else:
            # late / on time: a chain deadline + t1 + ... + tk, returned as chain - instant
            outcome = "Some" if isinstance(r, tuple) and r[0] == "Option::Some" else "None"
            key = "due:%s" % outcome
            if outcome == "Some":
                v = r[1]
                ok = isinstance(v, tuple) and v[0] == "Instant::sub" and v[2] == "top:instant"
                k = len(calc)
                key = "due:Some:slots=%s" % (k if k <= 2 else "many")
                if ok and k == 1:
                    t1 = (("RtoCalculator::next_rto", "top:m.calculator"), ".some")
                    ok = v[1] == ("Instant::add", deadline, t1)
                elif ok:
                    ok = "RtoCalculator::next_rto" in repr(v[1]) or "widened" in repr(v[1])
                ok = ok and w.get("last_rto") == v and w.get("latest") == ("Option::Some", "top:instant")
                # one test `chain > instant` per consumed slot: false for all but the last
                ok = ok and ge == 1 and all(f[1] == "top:instant" and ("Instant::add" in repr(f[0]) or "widened" in repr(f[0]) or "add" in repr(f[0])) for f in slot_facts) \
                    and bool(slot_facts) and slot_facts[-1][2] is True and not any(f[2] for f in slot_facts[:-1])
                if k <= 2:
                    ok = ok and len(slot_facts) == k
                why = "deadline + %d slot(s) - now: %s" % (k, show(v)[:120])
            else:
                ok = r == "Option::None" and w.get("latest") == "Option::None" and "last_rto" not in w and len(calc) >= 1
                why = "exhausted after %d slot(s): writes %s" % (len(calc), {k: show(v)[:40] for k, v in w.items()})
        if key not in seen or not ok:
            seen[key] = (ok, why, pa)
    for key, (ok, why, pa) in sorted(seen.items()):
        ctx.ob("R6.2", "next_rto:%s" % key, ok, why, info["where"], replay=None if ok else pa.describe())
    ctx.ob("R6.2", "next_rto:one-slot-instance", "due:Some:slots=1" in seen, "the exact one-slot late path was explored")
    ctx.floor("R6.2", "RtoManager::next_rto path classes", len(seen), 5)
    paths, info = C.explore_fn(prog, MGR + "::new", "x", [r"RtoCalculator::new$"])
    for pa in paths:
        r = C.expr_of(pa, pa.ret)
        ok = isinstance(r, tuple) and r[0] == "RtoManager" and r[1] == "Option::None" and r[3] == ("RtoCalculator", "top:rtt", 1, "top:rc", "top:rm")
        ctx.ob("R6.2", "new", ok, "RtoManager::new(rtt, rm, rc) = %s" % show(r)[:160], info["where"])


def r6_3_wiring(ctx, prog):
    ctx.rule("R6.3", "client wiring: a request arms timeouts.add(now, first interval, id) with the schedule built from "
                     "(timeout, 1, 1) on reliable and (estimator RTO, Rm, Rc) on unreliable transport; every timer call "
                     "re-arms with rtos.next_rto(now) or fails the request when it returns None; each retransmission is the "
                     "stored packet (C13 R13.6)")
    paths, info = C.explore(prog, "set_timeout")
    seen = set()
    for pa in paths:
        rtt = pa.choice(r"^variant\(client\.rtt\)$")
        new = pa.calls_to(r"RtoManager::new$")
        nr = pa.calls_to(r"RtoManager::next_rto$")
        add = pa.calls_to(r"StunMessageTimeout::add$")
        got = pa.choice(r"^variant\(ret:next_rto@")
        key = "%s:%s" % (rtt, got)
        if key in seen:
            continue
        seen.add(key)
        ok = len(new) == 1 and len(nr) == 1 and nr[0][2][1] == "top:instant" and "new@" in repr(nr[0][2][0])
        if rtt == "Reliable":
            ok = ok and new[0][2][1] == 1 and new[0][2][2] == 1 and "client.rtt.0" in repr(new[0][2][0])
        else:
            ok = ok and new[0][2][1] == "top:client.rtt.0.rm" and new[0][2][2] == "top:client.rtt.0.rc" and "rto@" in repr(new[0][2][0])
        if got == "Some":
            ok = ok and len(add) == 1 and add[0][2][1] == "top:instant" and "next_rto@" in repr(add[0][2][2]) and add[0][2][3] == "top:transaction_id" \
                and pa.ret_kind == "Ok"
        else:
            ok = ok and not add and pa.ret_kind == "Err"
        ctx.ob("R6.3", "set_timeout:%s" % key, ok, "RtoManager::new%s, add %s" % (repr(new[0][2])[:120] if new else "", repr(add[0][2][1:])[:120] if add else "none"),
               info["where"], replay=None if ok else pa.describe())
    ctx.floor("R6.3", "set_timeout classes", len(seen), 4)
    R.r5_3_retransmit(ctx, prog, rule="R6.3")
    R.r5_2_timeout(ctx, prog, rule="R6.3")
    # the re-arm uses the current instant
    segs, tails, info, paths = R.timeout_segments(ctx, prog)
    okk = True
    n = 0
    for seg in segs:
        for e in R.seg_calls(seg, r"StunMessageTimeout::add$"):
            n += 1
            okk = okk and e[2][1] == "top:instant"
        for e in R.seg_calls(seg, r"RtoManager::next_rto$"):
            okk = okk and e[2][1] == "top:instant"
    ctx.ob("R6.3", "on_timeout-uses-now", okk and n >= 1, "on_timeout passes the current instant to next_rto and timeouts.add (%d re-arms)" % n, info["where"])


def r6_5_default_schedule(ctx, prog, configs=((7, 16), (1, 1), (3, 4), (9, 16))):
    """thorough: constant propagation (abstract interpretation with concrete Rc / Rm and a symbolic RTO) through
    successive next_rto calls: with concrete counters every call has exactly one feasible path, so the sequence of
    multipliers is a static fact of the code."""
    from ..absint import Adt, Const, Top
    ctx.rule("R6.5", "the multiplier sequence produced by RtoCalculator for concrete (Rc, Rm) and symbolic RTO, by constant "
                     "propagation through Rc+1 successive calls, is 1, 2, 4, ..., 2^(Rc-2), Rm, then None; for the defaults "
                     "(7, 16) its prefix sums x 500 ms are 0, 500, 1500, 3500, 7500, 15500, 31500 and the failure point 39500")
    adt = prog.adt(CALC)
    names = [f["name"] for f in adt["variants"][0]["fields"]]
    for rc0, rm0 in configs:
        state = {"rtt": Top("m.rtt"), "rm": Const(1, "u32"), "rc": Const(rc0, "u32"), "last_rm": Const(rm0, "u32")}
        seq = []
        ok = True
        why = ""
        for i in range(rc0 + 1):
            sv = Adt(CALC, 0, [state[n] for n in names])
            paths, info = C.explore_fn(prog, CALC + "::next_rto", "m", [], self_value=sv)
            if len(paths) != 1:
                ok, why = False, "call %d has %d feasible paths with concrete counters" % (i, len(paths))
                break
            pa = paths[0]
            r = C.expr_of(pa, pa.ret)
            if r == "Option::None":
                seq.append(None)
            elif isinstance(r, tuple) and r[0] == "Option::Some" and isinstance(r[1], tuple) and r[1][0] == "Duration::mul" and r[1][1] == "top:m.rtt" and isinstance(r[1][2], int):
                seq.append(r[1][2])
            else:
                ok, why = False, "call %d returns %s" % (i, show(r)[:80])
                break
            for w in pa.writes:
                if w[1] == "m" and len(w[2]) == 1 and w[2][0] in state:
                    v = C.expr_of(pa, w[3])
                    if not isinstance(v, int):
                        ok, why = False, "call %d writes non-constant %s = %s" % (i, w[2][0], show(v)[:60])
                        break
                    state[w[2][0]] = Const(v, "u32")
        exp = [2 ** k for k in range(rc0 - 1)] + [rm0, None] if rc0 >= 1 else [None]
        if ok and seq != exp:
            ok, why = False, "multipliers %s, expected %s" % (seq, exp)
        if ok and (rc0, rm0) == (7, 16):
            pre = [0]
            for m in seq[:-1]:
                pre.append(pre[-1] + m)
            inst = [x * 500 for x in pre]
            okd = inst == [0, 500, 1500, 3500, 7500, 15500, 31500, 39500]
            ok, why = okd, "transmissions at %s ms, failure at %s ms" % (inst[:-1], inst[-1])
        ctx.ob("R6.5", "schedule:rc=%d,rm=%d" % (rc0, rm0), ok, why or "multipliers %s" % seq)
    ctx.floor("R6.5", "configurations", len(configs), 4)


def check(ctx, env):
    ctx.explanation = (
        "Static: the functions that generate the retransmission schedule are interpreted abstractly and the values they "
        "return / store are compared, as expression trees, with the RFC 8489 7.2.1 recurrence (R6.1) and with the "
        "absolute-deadline bookkeeping identities of the manager (R6.2); the client's wiring of these values into the "
        "timer heap is decided on every path (R6.3). NOT decided: the closed-form instants t0 + (2^k - 1) RTO, the failure "
        "instant t0 + (2^(Rc-1) - 1 + Rm) RTO and the behaviour over arbitrary sequences of early / late timer calls - "
        "these need induction over calls and arithmetic on runtime Instants (stated in DESIGN.md C06).")
    ctx.assumptions = ["rustc MIR", "std Instant / Duration operators are the mathematical ones", "callee models of analysis/models.py"]
    prog = env.prog("agent")
    r6_1_calculator(ctx, prog)
    r6_2_manager(ctx, prog)
    r6_3_wiring(ctx, prog)
    # R6.4: with several outstanding requests the schedule of each depends on the shared timer heap being ordered by
    # absolute expiry and on check() popping exactly the expired entries (same rules as C11 R11.3 / R11.4)
    from . import codec_rules as K
    K.r11_3_order(ctx, prog, rule="R6.4")
    K.r11_4_pairing(ctx, prog, rule="R6.4")
    # the RTO the schedule is built from is the configured / estimated one: RttCalcuator::new stores it unchanged, rto() reads it back
    from . import c15
    c15.r15_3_config_path(ctx, prog, rule="R6.3")
    # a later request's schedule starts from the estimator's RTO: a retransmitted transaction must not feed it (Karn's rule:
    # the retransmission clears the send instant) - else a quick answer after a retransmission shrinks every later schedule
    ctx.rule("R6.6", "a retransmission clears transaction.instant, so a retransmitted request contributes no RTT sample to the RTO "
                     "later schedules start from (= C15 R15.1, on_timeout part)")
    from . import client_rules as R_
    R_.r15_1_karn_timeout(ctx, prog, rule="R6.6")
    if env.tier == "thorough":
        r6_5_default_schedule(ctx, prog)
