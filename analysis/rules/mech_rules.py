"""Rules over the credential mechanisms (short-term: C07; long-term: C08; effect confinement: C17).

The mechanisms' recv_message are explored with E2: the message class, the configured / learned
algorithm, the transport kind and "the MAC verifies" are undetermined atoms; the wire attributes are
an unknown sequence - the slice iterator model returns, at each `next`, either the end or a fresh
attribute of one of the kinds that matter, and the loops are solved to a fixpoint - filtered by the
real ProtectedAttributeIteratorObject::next (stepped into, not modelled).
"""
import re
from .. import client as C
from ..absint import Interp, State, Const, Top, Sym, Adt, Ref, UNIT, TyRef
from ..models import compile_models, some, NONE
from ..shared import sym_iter_models, segments
from ..facts import AnchorMissing

ST = "stun_agent::st_cred_mech::ShortTermCredentialClient"
LT = "stun_agent::lt_cred_mech::LongTermCredentialClient"

STEP_COMMON = [
    r"integrity::TransportIntegrity::(compute_message_integrity|discard_message|signal_protection_violated_on_timeout)$",
    r"ProtectedAttributeIterator", r"ProtectedAttributeIteratorObject",
    r"stun_rs::message::StunMessage::(class|attributes|transaction_id)$",
    r"stun_rs::attributes::StunAttribute::(is_\w+|attribute_type)$",
    r"\{closure",
]
STEP_ST = STEP_COMMON + [r"ShortTermCredentialClient::(process_message|recv_message|prepare_request_or_indication|add_attributes|signal_protection_violated_on_timeout)$",
                         r"st_cred_mech::remove_auth_and_integrity_attrs$"]
STEP_LT = STEP_COMMON + [r"LongTermCredentialClient::\w+$", r"lt_cred_mech::(remove_auth_and_integrity_attrs|authenticate_message|create_long_term_auth_attrs|create_user_hash_attr)$"]


def attr_kinds(prog, names):
    """{kind name: abstract StunAttribute value} for the given variant names (+ 'Other')"""
    enum = prog.adt("stun_rs::StunAttribute")
    vnames = [v["name"] for v in enum["variants"]]
    out = {}
    for n in names:
        if n == "Other":
            # a representative of every kind the code does not single out
            ix = vnames.index("Software") if "Software" in vnames else 0
        else:
            if n not in vnames:
                raise AnchorMissing("StunAttribute::%s" % n)
            ix = vnames.index(n)
        out[n] = Adt("stun_rs::StunAttribute", ix, [Top("value-of-%s" % n)], vnames[ix])
    return out


def slice_iter_model():
    def m_iter(interp, fn, args, st, site, frame):
        return [(Adt("symiter", 0, ()), st)]
    return [(r"^core::slice::<impl \[T\]>::iter$|^core::slice::<impl \[stun_rs::StunAttribute\]>::iter$|slice::<impl \[.*\]>::iter$", m_iter)]


def wire_summary(choices):
    """which integrity attributes the protected iterator yields for the wire sequence of this path
    (RFC automaton, verified against the iterator's code under C09 R9.3)"""
    mi = sha = fp = False
    y_mi = y_sha = False
    seq = []
    for n, v in choices:
        if n != "wire.next":
            continue
        seq.append(v)
        if v == "MessageIntegrity":
            if not (mi or sha or fp):
                y_mi = True
            mi = True
        elif v == "MessageIntegritySha256":
            if not (sha or fp):
                y_sha = True
            sha = True
        elif v == "Fingerprint":
            fp = True
    return y_mi, y_sha, seq


# ------------------------------------------------------------------------------------------------
# short-term

def explore_st_recv(ctx, prog):
    kinds = attr_kinds(prog, ["MessageIntegrity", "MessageIntegritySha256", "Fingerprint", "Other"])
    models = sym_iter_models(kinds, label="wire") + slice_iter_model()
    paths, info = C.explore_fn(prog, ST + "::recv_message", "st", STEP_ST, extra_models=models)
    ctx.fn(info["body"])
    for p in info["stepped"]:
        ctx.functions.add(p)
    if info["bounded"]:
        ctx.violation("explore", "st-recv:bounded", "loop bound hit", info["where"])
    return paths, info


def st_desc(pa):
    d = {"cls": None, "cfg": None, "reliable": None, "mac": None}
    for n, v in pa.choices:
        n = str(n)
        if n.startswith("variant(msg.") and v in ("Request", "Indication", "SuccessResponse", "ErrorResponse"):
            d["cls"] = v
        elif n == "variant(st.integrity)":
            d["cfg"] = "None" if v == "None" else d["cfg"]
        elif n.startswith("variant(st.integrity.") and v in ("MessageIntegrity", "MessageIntegritySha256"):
            d["cfg"] = v
        elif n == "st.validator.is_reliable":
            d["reliable"] = v
        elif n.startswith("ret:validate_message_integrity@"):
            d["mac"] = v
    d["mi"], d["sha"], d["seq"] = wire_summary(pa.choices)
    return d


def st_outcome(pa):
    """(ret, learned algorithm or None, marker op or None, which attribute kind was verified or None)"""
    r = pa.ret
    if isinstance(r, tuple) and r[0] == "Result::Err":
        ret = "Err(%s)" % (r[1].split("::")[-1] if isinstance(r[1], str) else r[1])
    elif r == "Result::Ok" or (isinstance(r, tuple) and r[0] == "Result::Ok"):
        ret = "Ok"
    else:
        ret = repr(r)
    learned = None
    for w in pa.writes:
        if w[0] == "write" and w[1] == "st" and w[2] == ("integrity",):
            v = w[3]
            learned = v[1].split("::")[-1] if isinstance(v, tuple) and len(v) > 1 and isinstance(v[1], str) else repr(v)
    other_writes = [w for w in pa.writes if not (w[0] == "write" and w[1] == "st" and w[2] == ("integrity",))
                    and not (w[0] == "write" and w[1] == "wire.elem")]
    marker = None
    for e in pa.calls:
        if e[3] is not None and tuple(e[3]) == ("st", "validator", "transactions"):
            m = C.short(e[1])
            marker = (marker or []) + [m.split("::")[-1]]
    verified = None
    for e in pa.calls:
        if re.search(r"validate_message_integrity$", e[1]):
            a = e[2][0]
            verified = repr(a)
            if "value-of-MessageIntegritySha256" in verified:
                verified = "MessageIntegritySha256"
            elif "value-of-MessageIntegrity" in verified:
                verified = "MessageIntegrity"
            key_arg = repr(e[2][1])
            if "st.key" not in key_arg:
                verified = "WRONG-KEY:" + key_arg
    return ret, learned, marker, verified, other_writes


def st_spec(d):
    """expected outcome per RFC 8489 9.1.4 as worded by the property"""
    cls, cfg, mi, sha, rel, mac = d["cls"], d["cfg"], d["mi"], d["sha"], d["reliable"], d["mac"]
    if cls == "Request":
        return ("Err(Discarded)", None, None, None)
    resp = cls != "Indication"
    if resp and mi and sha:
        return ("Err(Discarded)", None, None, None)
    if cfg == "MessageIntegrity":
        attr = "MessageIntegrity" if mi else None
    elif cfg == "MessageIntegritySha256":
        attr = "MessageIntegritySha256" if sha else None
    else:
        attr = "MessageIntegrity" if mi else ("MessageIntegritySha256" if sha else None)
    if attr is not None and mac == 1:
        learned = attr if (cfg == "None" and resp) else None
        return ("Ok", learned, ["remove"] if resp else None, attr)
    # absent or not verifying
    if not resp:
        return ("Err(Discarded)", None, None, attr)
    if rel == 1:
        return ("Err(ProtectionViolated)", None, None, attr)
    return ("Err(Discarded)", None, ["insert"], attr)


def r7_1_st_table(ctx, prog, rule="R7.1"):
    ctx.rule(rule, "short-term recv_message: for every (class, configured/learned algorithm, admitted integrity "
                   "attributes on the wire, transport, MAC verifies) the outcome, the learned algorithm, the "
                   "violated-transaction marker and the attribute/key that is verified equal RFC 8489 9.1.4")
    paths, info = explore_st_recv(ctx, prog)
    table = {}
    for pa in paths:
        d = st_desc(pa)
        key = "cls=%s,cfg=%s,mi=%d,sha=%d,reliable=%s,mac=%s" % (d["cls"], d["cfg"], d["mi"], d["sha"], d["reliable"], d["mac"])
        got = st_outcome(pa)
        table.setdefault(key, []).append((d, got, pa))
    n = 0
    for key in sorted(table):
        for (d, got, pa) in table[key]:
            exp = st_spec(d)
            # undetermined inputs that the code never consulted on this path are wildcards: evaluate the
            # spec for every completion and require agreement with one that is consistent
            comps = completions(d)
            oks = []
            for dd in comps:
                e = st_spec(dd)
                ok = (got[0] == e[0] and got[1] == e[1] and got[2] == e[2])
                if ok and got[3] is not None and e[3] is not None and got[3] != e[3]:
                    ok = False
                if ok and got[3] is not None and e[3] is None:
                    ok = False
                oks.append(ok)
            ok = all(oks) and not got[4]
            n += 1
            ctx.ob(rule, "st:%s" % key, ok,
                   "wire %s -> ret=%s learned=%s marker=%s verified=%s%s (expected %s)"
                   % (d["seq"][:6], got[0], got[1], got[2], got[3], " other writes=%s" % got[4] if got[4] else "",
                      [st_spec(x) for x in comps][:2]),
                   info["where"], replay=None if ok else pa.describe())
    ctx.floor(rule, "short-term decision table rows", len(table), 40)
    ctx.extra["st_table_rows"] = len(table)
    ctx.extra["st_paths"] = len(paths)


def completions(d):
    """all completions of the atoms a path left undetermined"""
    outs = [dict(d)]
    for k, dom in (("reliable", (0, 1)), ("mac", (0, 1)), ("cfg", ("None", "MessageIntegrity", "MessageIntegritySha256"))):
        nxt = []
        for x in outs:
            if x[k] is None:
                for v in dom:
                    y = dict(x)
                    y[k] = v
                    nxt.append(y)
            else:
                nxt.append(x)
        outs = nxt
    return outs


def r17_2_mechanisms(ctx, prog, rule="R17.2"):
    ctx.rule(rule, "mechanisms: on every path of recv_message returning Err(Discarded) the writes to mechanism state are "
                   "within {violated-transaction marker insert for a non-indication on unreliable transport}; learned "
                   "algorithm, credentials, nonce and state are written only on paths returning Ok / Retry / "
                   "NotRetryable / ProtectionViolated")
    paths, info = explore_st_recv(ctx, prog)
    seen = {}
    for pa in paths:
        d = st_desc(pa)
        got = st_outcome(pa)
        if got[0] != "Err(Discarded)":
            continue
        bad = []
        if got[1] is not None:
            bad.append("integrity algorithm learned (%s)" % got[1])
        if got[4]:
            bad.append("writes %s" % got[4])
        if got[2]:
            for m in got[2]:
                if m != "insert":
                    bad.append("marker %s" % m)
                elif d["cls"] == "Indication" or d["reliable"] == 1:
                    bad.append("marker inserted for cls=%s reliable=%s" % (d["cls"], d["reliable"]))
        key = "cls=%s,cfg=%s,mi=%d,sha=%d,reliable=%s,mac=%s" % (d["cls"], d["cfg"], d["mi"], d["sha"], d["reliable"], d["mac"])
        ok = not bad
        if key not in seen or not ok:
            seen[key] = (ok, "; ".join(bad) or "no state change (marker: %s)" % got[2], pa)
    for key, (ok, why, pa) in sorted(seen.items()):
        ctx.ob(rule, "st-discarded:%s" % key, ok, why, info["where"], replay=None if ok else pa.describe())
    ctx.floor(rule, "short-term Discarded path classes", len(seen), 10)
    lt_r17(ctx, prog, rule)


# ------------------------------------------------------------------------------------------------
# short-term send

def r7_2_st_send(ctx, prog, rule="R7.2"):
    ctx.rule(rule, "short-term request/indication decoration: strip {USERNAME, MESSAGE-INTEGRITY, MESSAGE-INTEGRITY-SHA256} "
                   "first, add USERNAME(user), then MI and/or SHA256 keyed with the configured key according to the "
                   "agreed algorithm (both while none is agreed)")
    paths, info = C.explore_fn(prog, ST + "::add_attributes", "st", STEP_ST)
    ctx.fn(info["body"])
    n = 0
    for pa in paths:
        d = st_desc(pa)
        removes, adds = [], []
        first_add = None
        for i, e in enumerate(pa.calls):
            m = re.search(r"StunAttributes::remove::<(.*)>$", e[1])
            if m:
                removes.append((i, m.group(1).split("::")[-1]))
            m = re.search(r"StunAttributes::add::<(.*)>$", e[1])
            if m:
                adds.append((i, m.group(1).split("::")[-1], C.expr_of(pa, e[2][1])))
        exp_adds = {"None": ["UserName", "MessageIntegrity", "MessageIntegritySha256"],
                    "MessageIntegrity": ["UserName", "MessageIntegrity"],
                    "MessageIntegritySha256": ["UserName", "MessageIntegritySha256"]}.get(d["cfg"])
        ok = True
        why = "strip %s then add %s" % ([r[1] for r in removes], [a[1] for a in adds])
        if exp_adds is None:
            ok, why = False, "configured algorithm not determined on the path"
        else:
            if {r[1] for r in removes} < {"UserName", "MessageIntegrity", "MessageIntegritySha256"}:
                ok, why = False, "strip set %s does not cover USERNAME/MI/SHA256" % sorted({r[1] for r in removes})
            if adds and removes and max(r[0] for r in removes) > min(a[0] for a in adds):
                ok, why = False, "an attribute is added before the stripping is complete"
            if [a[1] for a in adds] != exp_adds:
                ok, why = False, "adds %s, expected %s for agreed=%s" % ([a[1] for a in adds], exp_adds, d["cfg"])
            for a in adds:
                if a[1] == "UserName" and a[2] != "top:st.user_name":
                    ok, why = False, "USERNAME value is %r" % (a[2],)
                if a[1] in ("MessageIntegrity", "MessageIntegritySha256"):
                    if not (isinstance(a[2], tuple) and a[2][0] == "%s::new" % a[1] and a[2][1] == "top:st.key"):
                        ok, why = False, "%s built from %r, expected %s::new(st.key)" % (a[1], a[2], a[1])
        n += 1
        ctx.ob(rule, "st-send:agreed=%s" % d["cfg"], ok, why, info["where"], replay=None if ok else pa.describe())
    ctx.floor(rule, "decoration cases", n, 3)
    # the same decoration is used for requests and indications
    for nm in ("prepare_request", "prepare_indication"):
        b = prog.body("stun_agent::client::CredentialMechanismClient::%s" % nm)
        cs = [c for c in b.calls() if re.search(r"ShortTermCredentialClient::add_attributes$", c.callee_path)]
        ctx.ob(rule, "dispatch:%s" % nm, len(cs) == 1, "CredentialMechanismClient::%s -> add_attributes (%d site)" % (nm, len(cs)),
               b.where())


# ------------------------------------------------------------------------------------------------
# long-term (R8.x) - see lt section below

def lt_r17(ctx, prog, rule):
    try:
        paths, info = explore_lt_recv(ctx, prog)
    except AnchorMissing as e:
        ctx.anchor_missing(rule, str(e))
        return
    seen = {}
    for pa in paths:
        got = lt_outcome(pa)
        if got["ret"] != "Err(Discarded)":
            continue
        d = lt_desc(pa)
        bad = []
        for w in got["writes"]:
            bad.append("write %s" % (".".join(w[2]),))
        for m in got["marker"]:
            if m != "insert":
                bad.append("marker %s" % m)
            elif d["cls"] == "Indication" or d["reliable"] == 1:
                bad.append("marker inserted for cls=%s reliable=%s" % (d["cls"], d["reliable"]))
        key = lt_key(d)
        ok = not bad
        if key not in seen or not ok:
            seen[key] = (ok, "; ".join(bad) or "no state change (marker: %s)" % got["marker"], pa)
    for key, (ok, why, pa) in sorted(seen.items()):
        ctx.ob(rule, "lt-discarded:%s" % key, ok, why, info["where"], replay=None if ok else pa.describe())
    ctx.floor(rule, "long-term Discarded path classes", len(seen), 10)


LT_KINDS = ["ErrorCode", "Realm", "Nonce", "PasswordAlgorithms", "MessageIntegrity", "MessageIntegritySha256",
            "Fingerprint", "Other"]


def explore_lt_recv(ctx, prog):
    kinds = attr_kinds(prog, LT_KINDS)
    models = sym_iter_models(kinds, label="wire") + slice_iter_model() + lt_models()
    paths, info = C.explore_fn(prog, LT + "::recv_message", "lt", STEP_LT, extra_models=models)
    ctx.fn(info["body"])
    for p in info["stepped"]:
        ctx.functions.add(p)
    if info["bounded"]:
        ctx.violation("explore", "lt-recv:bounded", "loop bound hit", info["where"])
    return paths, info


def lt_models():
    """the error code is only compared with 401 / 438: model it as a three-valued atom"""

    def m_error_code(interp, fn, args, st, site, frame):
        out = []
        for v, name in ((401, "401"), (438, "438"), (400, "other")):
            st2 = st.fork()
            st2.choose("error_code", name)
            out.append((Const(v, "u16"), st2))
        return out

    def m_pwd_iter(interp, fn, args, st, site, frame):
        # PasswordAlgorithms::iter(): an unknown list of algorithms: abstracted by what the selection
        # loop can conclude (a supported one found or not) -> the loop over it is replaced by an atom
        return None

    return [(r"stun_rs::types::ErrorCode::error_code$|stun_rs::ErrorCode::error_code$", m_error_code)]


def lt_desc(pa):
    d = {"cls": None, "state": None, "params": None, "reliable": None, "mac": None, "code": None, "cfg": None}
    for n, v in pa.choices:
        n = str(n)
        if n.startswith("variant(msg.") and v in ("Request", "Indication", "SuccessResponse", "ErrorResponse"):
            d["cls"] = v
        elif n == "variant(lt.params)":
            d["params"] = v
        elif n.startswith("variant(lt.params.") and v in ("MessageIntegrity", "MessageIntegritySha256"):
            d["cfg"] = v
        elif n == "lt.validator.is_reliable":
            d["reliable"] = v
        elif n.startswith("ret:validate_message_integrity@"):
            d["mac"] = v
        elif n == "error_code":
            d["code"] = v
    d["mi"], d["sha"], d["seq"] = wire_summary(pa.choices)
    kinds = set(d["seq"])
    d["has"] = {k: (k in kinds) for k in ("ErrorCode", "Realm", "Nonce", "PasswordAlgorithms")}
    return d


def lt_key(d):
    return "cls=%s,params=%s,cfg=%s,code=%s,mi=%d,sha=%d,realm=%d,nonce=%d,algs=%d,reliable=%s,mac=%s" % (
        d["cls"], d["params"], d["cfg"], d["code"], d["mi"], d["sha"], d["has"]["Realm"], d["has"]["Nonce"],
        d["has"]["PasswordAlgorithms"], d["reliable"], d["mac"])


def lt_outcome(pa):
    r = pa.ret
    if isinstance(r, tuple) and r[0] == "Result::Err":
        ret = "Err(%s)" % (r[1].split("::")[-1] if isinstance(r[1], str) else r[1])
    elif r == "Result::Ok" or (isinstance(r, tuple) and r[0] == "Result::Ok"):
        ret = "Ok"
    else:
        ret = repr(r)
    writes = [w for w in pa.writes if w[0] == "write" and w[1] in ("lt",) or (w[0] == "write" and str(w[1]).startswith("obj:") and "lt.params" in str(w[1]))]
    marker = []
    for e in pa.calls:
        if e[3] is not None and tuple(e[3]) == ("lt", "validator", "transactions"):
            marker.append(C.short(e[1]).split("::")[-1])
    return {"ret": ret, "writes": writes, "marker": marker}
