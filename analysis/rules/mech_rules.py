"""Rules over the credential mechanisms (short-term: C07; long-term: C08; effect confinement: C17).

The mechanisms' recv_message are explored with E2: the message class, the configured / learned
algorithm, the transport kind and "the MAC verifies" are undetermined atoms; the wire attributes are
an unknown sequence - the slice iterator model returns, at each `next`, either the end or a fresh
attribute of one of the kinds that matter, and the loops are solved to a fixpoint - filtered by the
real ProtectedAttributeIteratorObject::next (stepped into, not modelled).
"""
import re
from .. import client as C
from ..absint import Interp, State, Const, Top, Sym, Adt, Ref, UNIT, TyRef
from ..models import compile_models, some, NONE
from ..shared import sym_iter_models, segments, protected_iter_spec_models
from ..facts import AnchorMissing

ST = "stun_agent::st_cred_mech::ShortTermCredentialClient"
LT = "stun_agent::lt_cred_mech::LongTermCredentialClient"

STEP_COMMON = [
    r"integrity::TransportIntegrity::(compute_message_integrity|discard_message|signal_protection_violated_on_timeout)$",
    r"ProtectedAttributeIterator", r"ProtectedAttributeIteratorObject",
    r"stun_rs::message::StunMessage::(class|attributes|transaction_id)$",
    r"stun_rs::attributes::StunAttribute::(is_\w+|attribute_type)$",
    r"\{closure",
]
STEP_ST = STEP_COMMON + [r"ShortTermCredentialClient::(process_message|recv_message|prepare_request_or_indication|add_attributes|signal_protection_violated_on_timeout)$",
                         r"st_cred_mech::remove_auth_and_integrity_attrs$"]
STEP_LT = STEP_COMMON + [r"LongTermCredentialClient::\w+$", r"lt_cred_mech::(remove_auth_and_integrity_attrs|authenticate_message|create_long_term_auth_attrs|create_user_hash_attr)$"]


def attr_kinds(prog, names):
    """{kind name: abstract StunAttribute value} for the given variant names (+ 'Other')"""
    enum = prog.adt("stun_rs::StunAttribute")
    vnames = [v["name"] for v in enum["variants"]]
    out = {}
    for n in names:
        if n == "Other":
            # a representative of every kind the code does not single out
            ix = vnames.index("Software") if "Software" in vnames else 0
        else:
            if n not in vnames:
                raise AnchorMissing("StunAttribute::%s" % n)
            ix = vnames.index(n)
        out[n] = Adt("stun_rs::StunAttribute", ix, [Top("value-of-%s" % n)], vnames[ix])
    return out


def slice_iter_model():
    def m_iter(interp, fn, args, st, site, frame):
        return [(Adt("symiter", 0, ()), st)]
    return [(r"^core::slice::<impl \[T\]>::iter$|^core::slice::<impl \[stun_rs::StunAttribute\]>::iter$|slice::<impl \[.*\]>::iter$", m_iter)]


def wire_summary_yielded(choices):
    seq = [v for n, v in choices if n == "wire.next" and v != "end"]
    return ("MessageIntegrity" in seq), ("MessageIntegritySha256" in seq), seq


def wire_summary(choices):
    """which integrity attributes the protected iterator yields for the wire sequence of this path
    (RFC automaton, verified against the iterator's code under C09 R9.3)"""
    mi = sha = fp = False
    y_mi = y_sha = False
    seq = []
    for n, v in choices:
        if n != "wire.next":
            continue
        seq.append(v)
        if v == "MessageIntegrity":
            if not (mi or sha or fp):
                y_mi = True
            mi = True
        elif v == "MessageIntegritySha256":
            if not (sha or fp):
                y_sha = True
            sha = True
        elif v == "Fingerprint":
            fp = True
    return y_mi, y_sha, seq


# ------------------------------------------------------------------------------------------------
# short-term

def explore_st_recv(ctx, prog):
    kinds = attr_kinds(prog, ["MessageIntegrity", "MessageIntegritySha256", "Fingerprint", "Other"])
    models = sym_iter_models(kinds, label="wire") + slice_iter_model()
    paths, info = C.explore_fn(prog, ST + "::recv_message", "st", STEP_ST, extra_models=models)
    ctx.fn(info["body"])
    for p in info["stepped"]:
        ctx.functions.add(p)
    if info["bounded"]:
        ctx.violation("explore", "st-recv:bounded", "loop bound hit", info["where"])
    return paths, info


def st_desc(pa):
    d = {"cls": None, "cfg": None, "reliable": None, "mac": None}
    for n, v in pa.choices:
        n = str(n)
        if n.startswith("variant(msg.") and v in ("Request", "Indication", "SuccessResponse", "ErrorResponse"):
            d["cls"] = v
        elif n == "variant(st.integrity)":
            d["cfg"] = "None" if v == "None" else d["cfg"]
        elif n.startswith("variant(st.integrity.") and v in ("MessageIntegrity", "MessageIntegritySha256"):
            d["cfg"] = v
        elif n == "st.validator.is_reliable":
            d["reliable"] = v
        elif n.startswith("ret:validate_message_integrity@"):
            d["mac"] = v
    d["mi"], d["sha"], d["seq"] = wire_summary(pa.choices)
    return d


def st_outcome(pa):
    """(ret, learned algorithm or None, marker op or None, which attribute kind was verified or None)"""
    r = pa.ret
    if isinstance(r, tuple) and r[0] == "Result::Err":
        ret = "Err(%s)" % (r[1].split("::")[-1] if isinstance(r[1], str) else r[1])
    elif r == "Result::Ok" or (isinstance(r, tuple) and r[0] == "Result::Ok"):
        ret = "Ok"
    else:
        ret = repr(r)
    learned = None
    for w in pa.writes:
        if w[0] == "write" and w[1] == "st" and w[2] == ("integrity",):
            v = w[3]
            learned = v[1].split("::")[-1] if isinstance(v, tuple) and len(v) > 1 and isinstance(v[1], str) else repr(v)
    other_writes = [w for w in pa.writes if not (w[0] == "write" and w[1] == "st" and w[2] == ("integrity",))
                    and not (w[0] == "write" and w[1] == "wire.elem")]
    marker = None
    for e in pa.calls:
        if e[3] is not None and tuple(e[3]) == ("st", "validator", "transactions"):
            m = C.short(e[1])
            marker = (marker or []) + [m.split("::")[-1]]
        for rc in (e[5] if len(e) > 5 else ()):
            if rc[0] == "st" and len(rc) >= 2 and tuple(rc[:2]) != ("st", "validator"):
                # a callee that receives `&mut` into mechanism state may mutate it (Option::insert / replace / take ...)
                other_writes.append(("write-via-call", "st", tuple(rc[1:]), C.short(e[1])))
    verified = None
    for e in pa.calls:
        if re.search(r"validate_message_integrity$", e[1]):
            a = e[2][0]
            verified = repr(a)
            if "value-of-MessageIntegritySha256" in verified:
                verified = "MessageIntegritySha256"
            elif "value-of-MessageIntegrity" in verified:
                verified = "MessageIntegrity"
            key_arg = repr(e[2][1])
            if "st.key" not in key_arg:
                verified = "WRONG-KEY:" + key_arg
    return ret, learned, marker, verified, other_writes


def st_spec(d):
    """expected outcome per RFC 8489 9.1.4 as worded by the property"""
    cls, cfg, mi, sha, rel, mac = d["cls"], d["cfg"], d["mi"], d["sha"], d["reliable"], d["mac"]
    if cls == "Request":
        return ("Err(Discarded)", None, None, None)
    resp = cls != "Indication"
    if resp and mi and sha:
        return ("Err(Discarded)", None, None, None)
    if cfg == "MessageIntegrity":
        attr = "MessageIntegrity" if mi else None
    elif cfg == "MessageIntegritySha256":
        attr = "MessageIntegritySha256" if sha else None
    else:
        attr = "MessageIntegrity" if mi else ("MessageIntegritySha256" if sha else None)
    if attr is not None and mac == 1:
        learned = attr if (cfg == "None" and resp) else None
        return ("Ok", learned, ["remove"] if resp else None, attr)
    # absent or not verifying
    if not resp:
        return ("Err(Discarded)", None, None, attr)
    if rel == 1:
        return ("Err(ProtectionViolated)", None, None, attr)
    return ("Err(Discarded)", None, ["insert"], attr)


def r7_1_st_table(ctx, prog, rule="R7.1"):
    ctx.rule(rule, "short-term recv_message: for every (class, configured/learned algorithm, admitted integrity "
                   "attributes on the wire, transport, MAC verifies) the outcome, the learned algorithm, the "
                   "violated-transaction marker and the attribute/key that is verified equal RFC 8489 9.1.4")
    paths, info = explore_st_recv(ctx, prog)
    table = {}
    for pa in paths:
        d = st_desc(pa)
        key = "cls=%s,cfg=%s,mi=%d,sha=%d,reliable=%s,mac=%s" % (d["cls"], d["cfg"], d["mi"], d["sha"], d["reliable"], d["mac"])
        got = st_outcome(pa)
        table.setdefault(key, []).append((d, got, pa))
    n = 0
    for key in sorted(table):
        for (d, got, pa) in table[key]:
            exp = st_spec(d)
            # undetermined inputs that the code never consulted on this path are wildcards: evaluate the
            # spec for every completion and require agreement with one that is consistent
            comps = completions(d)
            oks = []
            for dd in comps:
                e = st_spec(dd)
                ok = (got[0] == e[0] and got[1] == e[1] and got[2] == e[2])
                if ok and got[3] is not None and e[3] is not None and got[3] != e[3]:
                    ok = False
                if ok and got[3] is not None and e[3] is None:
                    ok = False
                oks.append(ok)
            ok = all(oks) and not got[4]
            n += 1
            ctx.ob(rule, "st:%s" % key, ok,
                   "wire %s -> ret=%s learned=%s marker=%s verified=%s%s (expected %s)"
                   % (d["seq"][:6], got[0], got[1], got[2], got[3], " other writes=%s" % got[4] if got[4] else "",
                      [st_spec(x) for x in comps][:2]),
                   info["where"], replay=None if ok else pa.describe())
    ctx.floor(rule, "short-term decision table rows", len(table), 40)
    ctx.extra["st_table_rows"] = len(table)
    ctx.extra["st_paths"] = len(paths)


def completions(d):
    """all completions of the atoms a path left undetermined"""
    outs = [dict(d)]
    for k, dom in (("reliable", (0, 1)), ("mac", (0, 1)), ("cfg", ("None", "MessageIntegrity", "MessageIntegritySha256"))):
        nxt = []
        for x in outs:
            if x[k] is None:
                for v in dom:
                    y = dict(x)
                    y[k] = v
                    nxt.append(y)
            else:
                nxt.append(x)
        outs = nxt
    return outs


def r17_2_mechanisms(ctx, prog, rule="R17.2"):
    ctx.rule(rule, "mechanisms: on every path of recv_message returning Err(Discarded) the writes to mechanism state are "
                   "within {violated-transaction marker insert for a non-indication on unreliable transport}; learned "
                   "algorithm, credentials, nonce and state are written only on paths returning Ok / Retry / "
                   "NotRetryable / ProtectionViolated")
    paths, info = explore_st_recv(ctx, prog)
    seen = {}
    for pa in paths:
        d = st_desc(pa)
        got = st_outcome(pa)
        if got[0] != "Err(Discarded)":
            continue
        bad = []
        if got[1] is not None:
            bad.append("integrity algorithm learned (%s)" % got[1])
        if got[4]:
            bad.append("writes %s" % got[4])
        if got[2]:
            for m in got[2]:
                if m != "insert":
                    bad.append("marker %s" % m)
                elif d["cls"] == "Indication" or d["reliable"] == 1:
                    bad.append("marker inserted for cls=%s reliable=%s" % (d["cls"], d["reliable"]))
        key = "cls=%s,cfg=%s,mi=%d,sha=%d,reliable=%s,mac=%s" % (d["cls"], d["cfg"], d["mi"], d["sha"], d["reliable"], d["mac"])
        ok = not bad
        if key not in seen or not ok:
            seen[key] = (ok, "; ".join(bad) or "no state change (marker: %s)" % got[2], pa)
    for key, (ok, why, pa) in sorted(seen.items()):
        ctx.ob(rule, "st-discarded:%s" % key, ok, why, info["where"], replay=None if ok else pa.describe())
    ctx.floor(rule, "short-term Discarded path classes", len(seen), 10)
    lt_r17(ctx, prog, rule)


# ------------------------------------------------------------------------------------------------
# short-term send

def r7_2_st_send(ctx, prog, rule="R7.2"):
    ctx.rule(rule, "short-term request/indication decoration: strip {USERNAME, MESSAGE-INTEGRITY, MESSAGE-INTEGRITY-SHA256} "
                   "first, add USERNAME(user), then MI and/or SHA256 keyed with the configured key according to the "
                   "agreed algorithm (both while none is agreed)")
    paths, info = C.explore_fn(prog, ST + "::add_attributes", "st", STEP_ST)
    ctx.fn(info["body"])
    n = 0
    for pa in paths:
        d = st_desc(pa)
        removes, adds = [], []
        first_add = None
        for i, e in enumerate(pa.calls):
            m = re.search(r"StunAttributes::remove::<(.*)>$", e[1])
            if m:
                removes.append((i, m.group(1).split("::")[-1]))
            m = re.search(r"StunAttributes::add::<(.*)>$", e[1])
            if m:
                adds.append((i, _added_kind(m.group(1).split("::")[-1], C.expr_of(pa, e[2][1])), _unwrap_conv(C.expr_of(pa, e[2][1]))))
        exp_adds = {"None": ["UserName", "MessageIntegrity", "MessageIntegritySha256"],
                    "MessageIntegrity": ["UserName", "MessageIntegrity"],
                    "MessageIntegritySha256": ["UserName", "MessageIntegritySha256"]}.get(d["cfg"])
        ok = True
        why = "strip %s then add %s" % ([r[1] for r in removes], [a[1] for a in adds])
        if exp_adds is None:
            ok, why = False, "configured algorithm not determined on the path"
        else:
            if {r[1] for r in removes} < {"UserName", "MessageIntegrity", "MessageIntegritySha256"}:
                ok, why = False, "strip set %s does not cover USERNAME/MI/SHA256" % sorted({r[1] for r in removes})
            if adds and removes and max(r[0] for r in removes) > min(a[0] for a in adds):
                ok, why = False, "an attribute is added before the stripping is complete"
            if [a[1] for a in adds] != exp_adds:
                ok, why = False, "adds %s, expected %s for agreed=%s" % ([a[1] for a in adds], exp_adds, d["cfg"])
            for a in adds:
                if a[1] == "UserName" and a[2] != "top:st.user_name":
                    ok, why = False, "USERNAME value is %r" % (a[2],)
                if a[1] in ("MessageIntegrity", "MessageIntegritySha256"):
                    if not (isinstance(a[2], tuple) and a[2][0] == "%s::new" % a[1] and a[2][1] == "top:st.key"):
                        ok, why = False, "%s built from %r, expected %s::new(st.key)" % (a[1], a[2], a[1])
        n += 1
        ctx.ob(rule, "st-send:agreed=%s" % d["cfg"], ok, why, info["where"], replay=None if ok else pa.describe())
    ctx.floor(rule, "decoration cases", n, 3)
    # the same decoration is used for requests and indications
    for nm in ("prepare_request", "prepare_indication"):
        b = prog.body("stun_agent::client::CredentialMechanismClient::%s" % nm)
        cs = [c for c in b.calls() if re.search(r"ShortTermCredentialClient::add_attributes$", c.callee_path)]
        ctx.ob(rule, "dispatch:%s" % nm, len(cs) == 1, "CredentialMechanismClient::%s -> add_attributes (%d site)" % (nm, len(cs)),
               b.where())


# ------------------------------------------------------------------------------------------------
# long-term (R8.x) - see lt section below

def lt_r17(ctx, prog, rule):
    """long-term part of R17.2, compositional: every function on the receive path is explored with its
    workspace callees opaque; on each path returning Err(Discarded) the function's own writes must be
    empty and the marker may only be inserted for a non-indication on unreliable transport."""
    total = 0
    for fn, models in (("recv_message", ()), ("process_error_response", "iter+lt"), ("process_success_response", "iter"),
                       ("process_error", ()), ("process_unauthenticated_error_response", ()),
                       ("process_stale_nonce_error_response", ())):
        ms = []
        if models == "iter+lt":
            ms = lt_iter_models(prog) + lt_models()
        elif models == "iter":
            ms = lt_iter_models(prog)
        if fn == "recv_message":
            step = [r"LongTermCredentialClient::(recv_message|change_state)$", r"stun_rs::message::StunMessage::class$", r"\{closure"]
            paths, info = C.explore_fn(prog, LT + "::recv_message", "lt", step)
        elif fn == "process_error_response":
            paths, info = C.explore_fn(prog, LT + "::process_error_response", "lt",
                                       STEP_COMMON + [r"LongTermCredentialClient::process_error_response$"], extra_models=ms)
        else:
            paths, info = _explore_lt_fn(prog, fn, models=ms)
        ctx.fn(info["body"])
        seen = {}
        for pa in paths:
            ret = _ret_str(pa.ret)
            if ret != "Err(Discarded)":
                continue
            w = _lt_writes(pa)
            marker = [C.short(e[1]).split("::")[-1] for e in pa.calls
                      if e[3] is not None and tuple(e[3][:2]) == ("lt", "validator") and "HashSet" in e[1]]
            cls = None
            for nme, v in pa.choices:
                if str(nme).startswith("variant(msg.") and v in ("Request", "Indication", "SuccessResponse", "ErrorResponse"):
                    cls = v
            rel = pa.choice(r"is_reliable$")
            bad = []
            if w:
                bad.append("writes %s" % [t for t, _v in w])
            for m in marker:
                if m != "insert":
                    bad.append("marker %s" % m)
                elif cls == "Indication" or rel == 1:
                    bad.append("marker inserted for cls=%s reliable=%s" % (cls, rel))
            key = "%s:cls=%s,reliable=%s,marker=%s" % (fn, cls, rel, "+".join(marker))
            ok = not bad
            if key not in seen or not ok:
                seen[key] = (ok, "; ".join(bad) or "no state change", pa)
        for key, (ok, why, pa) in sorted(seen.items()):
            ctx.ob(rule, "lt-discarded:%s" % key, ok, why, info["where"], replay=None if ok else pa.describe())
        total += len(seen)
    ctx.floor(rule, "long-term Discarded path classes", total, 8)


LT_KINDS = ["ErrorCode", "Realm", "Nonce", "PasswordAlgorithms", "MessageIntegrity", "MessageIntegritySha256",
            "Fingerprint", "Other"]


def explore_lt_recv(ctx, prog):
    kinds = attr_kinds(prog, LT_KINDS)
    models = lt_iter_models(prog) + lt_models()
    paths, info = C.explore_fn(prog, LT + "::recv_message", "lt", STEP_LT, extra_models=models)
    ctx.fn(info["body"])
    for p in info["stepped"]:
        ctx.functions.add(p)
    if info["bounded"]:
        ctx.violation("explore", "lt-recv:bounded", "loop bound hit", info["where"])
    return paths, info


KIND_CLASS = {"MessageIntegrity": "MI", "MessageIntegritySha256": "SHA", "Fingerprint": "FP"}


def lt_iter_models(prog):
    kinds = attr_kinds(prog, LT_KINDS)
    return protected_iter_spec_models(kinds, KIND_CLASS, label="wire") + slice_iter_model()


def lt_models():
    """the error code is only compared with 401 / 438: model it as a three-valued atom"""

    def m_error_code(interp, fn, args, st, site, frame):
        out = []
        for v, name in ((401, "401"), (438, "438"), (400, "other")):
            st2 = st.fork()
            st2.choose("error_code", name)
            out.append((Const(v, "u16"), st2))
        return out

    def m_pwd_iter(interp, fn, args, st, site, frame):
        # PasswordAlgorithms::iter(): an unknown list of algorithms: abstracted by what the selection
        # loop can conclude (a supported one found or not) -> the loop over it is replaced by an atom
        return None

    return [(r"stun_rs::types::ErrorCode::error_code$|stun_rs::ErrorCode::error_code$", m_error_code)]


def lt_desc(pa):
    d = {"cls": None, "state": None, "params": None, "reliable": None, "mac": None, "code": None, "cfg": None}
    for n, v in pa.choices:
        n = str(n)
        if n.startswith("variant(msg.") and v in ("Request", "Indication", "SuccessResponse", "ErrorResponse"):
            d["cls"] = v
        elif n == "variant(lt.params)":
            d["params"] = v
        elif n.startswith("variant(lt.params.") and v in ("MessageIntegrity", "MessageIntegritySha256"):
            d["cfg"] = v
        elif n == "lt.validator.is_reliable":
            d["reliable"] = v
        elif n.startswith("ret:validate_message_integrity@"):
            d["mac"] = v
        elif n == "error_code":
            d["code"] = v
    d["mi"], d["sha"], d["seq"] = wire_summary_yielded(pa.choices)
    kinds = set(d["seq"])
    d["has"] = {k: (k in kinds) for k in ("ErrorCode", "Realm", "Nonce", "PasswordAlgorithms")}
    return d


def lt_key(d):
    return "cls=%s,params=%s,cfg=%s,code=%s,mi=%d,sha=%d,realm=%d,nonce=%d,algs=%d,reliable=%s,mac=%s" % (
        d["cls"], d["params"], d["cfg"], d["code"], d["mi"], d["sha"], d["has"]["Realm"], d["has"]["Nonce"],
        d["has"]["PasswordAlgorithms"], d["reliable"], d["mac"])


def lt_outcome(pa):
    r = pa.ret
    if isinstance(r, tuple) and r[0] == "Result::Err":
        ret = "Err(%s)" % (r[1].split("::")[-1] if isinstance(r[1], str) else r[1])
    elif r == "Result::Ok" or (isinstance(r, tuple) and r[0] == "Result::Ok"):
        ret = "Ok"
    else:
        ret = repr(r)
    writes = [w for w in pa.writes if w[0] == "write" and w[1] in ("lt",) or (w[0] == "write" and str(w[1]).startswith("obj:") and "lt.params" in str(w[1]))]
    marker = []
    for e in pa.calls:
        if e[3] is not None and tuple(e[3]) == ("lt", "validator", "transactions"):
            marker.append(C.short(e[1]).split("::")[-1])
    return {"ret": ret, "writes": writes, "marker": marker}


# ================================================================================================
# long-term credentials (C08)

def _ret_str(r):
    if isinstance(r, tuple) and r and r[0] == "Result::Err":
        e = r[1]
        return "Err(%s)" % (e.split("::")[-1] if isinstance(e, str) else (e[0] if isinstance(e, tuple) else e))
    if r == "Result::Ok" or (isinstance(r, tuple) and r and r[0] == "Result::Ok"):
        return "Ok"
    return repr(r)[:80]


# a callee that receives `&mut` into the mechanism's state may mutate it (Option::insert / replace / take, mem::replace ...):
# E2 logs those references with every call (6th field of the call entry)


def _lt_writes(pa):
    out = []
    for w in pa.writes:
        if w[0] == "write" and (w[1] == "lt" or "lt.params" in str(w[1])):
            tgt = ".".join(str(x) for x in w[2])
            if w[1] != "lt":
                tgt = "params.*." + tgt
            out.append((tgt, w[3]))
    for e in pa.calls:
        for rc in (e[5] if len(e) > 5 else ()):
            if rc[0] != "lt" or len(rc) < 2:
                continue        # `&mut lt` itself: a method of the mechanism, explored on its own (compositional)
            if tuple(rc[:3]) == ("lt", "validator", "transactions") and re.search(r"HashSet::<.*>::(insert|remove)", e[1]):
                continue        # the violated-transaction marker, judged separately
            if tuple(rc[:2]) == ("lt", "validator") and len(rc) == 2:
                continue        # TransportIntegrity's own methods: they only touch the marker set (R7.1 / R8.x explore them)
            out.append(("%s via %s" % (".".join(str(x) for x in rc[1:]), C.short(e[1])), "call"))
    return out


def _opt(v):
    """'Some' / 'None' / None of an abstract Option value"""
    if v == "Option::None":
        return "None"
    if isinstance(v, tuple) and v and v[0] == "Option::Some":
        return "Some"
    return None


def r8_1_decoration(ctx, prog, rule="R8.1"):
    ctx.rule(rule, "long-term request decoration per state: first request strips the 8 credential types and adds none; "
                   "retry after 401 adds USERNAME|USERHASH, REALM, NONCE, [PASSWORD-ALGORITHMS], [PASSWORD-ALGORITHM] and "
                   "no integrity; retry after 438 adds user, REALM, NONCE, integrity and no password algorithms; "
                   "subsequent requests add all; USERHASH iff one was derived; integrity keyed with the cached key")
    STRIP = {"UserName", "UserHash", "Realm", "Nonce", "PasswordAlgorithm", "PasswordAlgorithms", "MessageIntegrity",
             "MessageIntegritySha256"}
    table = {
        "first_request": ([], False),
        "retry_from_unauthenticated_error_response": (["user", "Realm", "Nonce", "PasswordAlgorithms?", "PasswordAlgorithm?"], False),
        "retry_from_stale_nonce_error_response": (["user", "Realm", "Nonce"], True),
        "subsequent_request": (["user", "Realm", "Nonce", "PasswordAlgorithms?", "PasswordAlgorithm?"], True),
    }
    for fn, (exp, with_integrity) in table.items():
        paths, info = C.explore_fn(prog, "%s::%s" % (LT, fn), "lt", STEP_COMMON + [r"LongTermCredentialClient::%s$" % fn,
                                                                                  r"lt_cred_mech::remove_auth_and_integrity_attrs$"])
        ctx.fn(info["body"])
        n = 0
        for pa in paths:
            params = pa.choice(r"^variant\(lt\.params\)$")
            removes, adds = [], []
            for i, e in enumerate(pa.calls):
                m = re.search(r"StunAttributes::remove::<(.*)>$", e[1])
                if m:
                    removes.append((i, m.group(1).split("::")[-1]))
                m = re.search(r"StunAttributes::add::<(.*)>$", e[1])
                if m:
                    adds.append((i, _added_kind(m.group(1).split("::")[-1], C.expr_of(pa, e[2][1])), _unwrap_conv(C.expr_of(pa, e[2][1]))))
            ret = _ret_str(pa.ret)
            uh = pa.choice(r"^variant\(.*lt\.params.*user_hash\)$")
            pas = pa.choice(r"^variant\(.*lt\.params.*password_algorithms\)$")
            pa1 = pa.choice(r"^variant\(.*lt\.params.*password_algorithm\)$")
            integ = None
            for nme, v in pa.choices:
                if re.search(r"lt\.params.*integrity", str(nme)) and v in ("MessageIntegrity", "MessageIntegritySha256"):
                    integ = v
            key = "%s:params=%s,user_hash=%s,algs=%s,alg=%s,integrity=%s" % (fn, params, uh, pas, pa1, integ)
            n += 1
            ok = True
            why = "strip %d types, add %s" % (len(removes), [a[1] for a in adds])
            if fn != "first_request" and params == "None":
                ok = ret.startswith("Err(") and not adds and not removes
                why = "no cached parameters -> %s, %d adds" % (ret, len(adds))
                ctx.ob(rule, key, ok, why, info["where"], replay=None if ok else pa.describe())
                continue
            if {r[1] for r in removes} != STRIP:
                ok, why = False, "strip set %s != the 8 credential types" % sorted({r[1] for r in removes})
            if adds and removes and max(r[0] for r in removes) > min(a[0] for a in adds):
                ok, why = False, "an attribute is added before the stripping is complete"
            want = []
            for x in exp:
                if x == "user":
                    want.append("UserHash" if uh == "Some" else "UserName")
                elif x == "PasswordAlgorithms?":
                    if pas == "Some":
                        want.append("PasswordAlgorithms")
                elif x == "PasswordAlgorithm?":
                    if pa1 == "Some":
                        want.append("PasswordAlgorithm")
                else:
                    want.append(x)
            if with_integrity:
                want.append(integ)
            if ok and [a[1] for a in adds] != want:
                ok, why = False, "adds %s, expected %s" % ([a[1] for a in adds], want)
            if ok and ret != "Ok":
                ok, why = False, "returns %s" % ret
            if ok:
                for a in adds:
                    src = repr(a[2])
                    if a[1] == "UserName" and "lt.user_name" not in src:
                        ok, why = False, "USERNAME from %s" % src
                    elif a[1] in ("UserHash", "Realm", "Nonce", "PasswordAlgorithms", "PasswordAlgorithm") and "lt.params" not in src:
                        ok, why = False, "%s not taken from the cached parameters: %s" % (a[1], src[:100])
                    elif a[1] in ("MessageIntegrity", "MessageIntegritySha256"):
                        if not (isinstance(a[2], tuple) and a[2][0] == "%s::new" % a[1] and "lt.params" in repr(a[2][1]) and "key" in repr(a[2][1])):
                            ok, why = False, "%s built from %s" % (a[1], src[:120])
                    fieldname = {"Realm": "realm", "Nonce": "nonce", "UserHash": "user_hash",
                                 "PasswordAlgorithms": "password_algorithms", "PasswordAlgorithm": "password_algorithm"}.get(a[1])
                    if ok and fieldname and ("." + fieldname) not in src:
                        ok, why = False, "%s filled from %s" % (a[1], src[:100])
            ctx.ob(rule, key, ok, why, info["where"], replay=None if ok else pa.describe())
        ctx.floor(rule, "%s decoration cases" % fn, n, 1 if fn == "first_request" else 3)


def r8_2_dispatch(ctx, prog, rule="R8.2"):
    ctx.rule(rule, "long-term dispatch: prepare_request by state (FirstRequest / Retry(401) / Retry(438) / Subsequent); "
                   "prepare_indication refuses (Ignored); recv_message: Request and Indication -> Discarded with no effect, "
                   "ErrorResponse -> process_error_response, SuccessResponse -> process_success_response, and the state "
                   "becomes SubsequentRequest only after Ok")
    paths, info = C.explore_fn(prog, LT + "::prepare_request", "lt", [r"LongTermCredentialClient::prepare_request$"])
    ctx.fn(info["body"])
    exp = {"FirstRequest": "first_request", "Unauthenticated": "retry_from_unauthenticated_error_response",
           "StaleNonce": "retry_from_stale_nonce_error_response", "SubsequentRequest": "subsequent_request"}
    n = 0
    for pa in paths:
        state = None
        for nme, v in pa.choices:
            if str(nme).startswith("variant(lt.state") and v in exp:
                state = v
        called = [C.short(e[1]).split("::")[-1] for e in pa.calls if "LongTermCredentialClient::" in e[1]]
        n += 1
        ctx.ob(rule, "prepare_request:%s" % state, state in exp and called == [exp[state]] and "ret:" in repr(pa.ret),
               "state %s -> %s" % (state, called), info["where"], replay=pa.describe())
    ctx.floor(rule, "prepare_request states", n, 4)
    paths, info = C.explore_fn(prog, LT + "::prepare_indication", "lt", [r"LongTermCredentialClient::prepare_indication$"])
    for pa in paths:
        ctx.ob(rule, "prepare_indication", _ret_str(pa.ret) == "Err(Ignored)" and not pa.calls_to(r"StunAttributes::"),
               "prepare_indication -> %s" % _ret_str(pa.ret), info["where"])
    # recv_message (callees opaque)
    paths, info = C.explore_fn(prog, LT + "::recv_message", "lt",
                               [r"LongTermCredentialClient::(recv_message|change_state)$", r"stun_rs::message::StunMessage::class$", r"\{closure"])
    ctx.fn(info["body"])
    n = 0
    for pa in paths:
        cls = None
        for nme, v in pa.choices:
            if str(nme).startswith("variant(msg.") and v in ("Request", "Indication", "SuccessResponse", "ErrorResponse"):
                cls = v
        called = [C.short(e[1]).split("::")[-1] for e in pa.calls if "LongTermCredentialClient::process" in e[1]]
        inner = None
        for nme, v in pa.choices:
            if re.search(r"^variant\(ret:process_(error|success)_response@[^.]*\)$", str(nme)):
                inner = v
        w = _lt_writes(pa)
        ret = _ret_str(pa.ret)
        key = "recv:%s:%s" % (cls, inner)
        n += 1
        if cls in ("Request", "Indication"):
            ok = ret == "Err(Discarded)" and not called and not w
            why = "%s -> %s, calls %s, writes %s" % (cls, ret, called, w)
        else:
            want = "process_error_response" if cls == "ErrorResponse" else "process_success_response"
            ok = called == [want]
            why = "%s -> %s" % (cls, called)
            if ok and inner == "Ok":
                ok = ret == "Ok" and all(t == "state" for t, _v in w) and \
                    (not w or w[-1][1] == "LongTermCredentialState::SubsequentRequest")
                why += "; Ok: state writes %s" % w
            elif ok and inner == "Err":
                ok = ret.startswith("Err(") and not w
                why += "; Err propagated, writes %s" % w
        ctx.ob(rule, key, ok, why, info["where"], replay=None if ok else pa.describe())
    ctx.floor(rule, "recv_message classes", n, 6)


def _unwrap_conv(val):
    """the value without a leading conversion into StunAttribute (`X::into(v)`, `StunAttribute::from(v)`)"""
    for _ in range(3):
        if isinstance(val, tuple) and len(val) == 2 and isinstance(val[0], str) and \
                (val[0].endswith("::into") or val[0] in ("StunAttribute::from", "From::from")):
            val = val[1]
        else:
            break
    return val


def _added_kind(generic, val):
    """which attribute `StunAttributes::add::<T>(v)` adds: T, or - when the caller converted first and T is StunAttribute
    itself - the variant / source type the value was built from"""
    if generic != "StunAttribute":
        return generic
    t = val
    for _ in range(6):
        if not (isinstance(t, tuple) and t and isinstance(t[0], str)):
            break
        head = t[0]
        if head.startswith("StunAttribute::") and head not in ("StunAttribute::from", "StunAttribute::into"):
            return head.split("::")[1]
        if head.endswith("::into") and head.split("::")[0] not in ("T", "StunAttribute", "Into"):
            return head.split("::")[0]
        if head in ("StunAttribute::from", "T::into", "Into::into", "From::from") and len(t) > 1:
            inner = t[1]
            if isinstance(inner, tuple) and inner and isinstance(inner[0], str) and "::" in inner[0]:
                k = inner[0].split("::")[0]
                if k and k[0].isupper() and k not in ("Option", "Result"):
                    return k
            t = inner
            continue
        break
    return generic


def _explore_lt_fn(prog, fn, extra_step=(), models=()):
    return C.explore_fn(prog, "%s::%s" % (LT, fn), "lt",
                        STEP_COMMON + [r"LongTermCredentialClient::(%s|change_state)$" % fn,
                                       r"lt_cred_mech::authenticate_message$"] + list(extra_step),
                        extra_models=list(models))


def r8_4_write_after_auth(ctx, prog, rule="R8.4"):
    ctx.rule(rule, "401 / 438 handling: cached parameters, nonce and state are written only on the path that returns "
                   "Retry, and - when the response carries an integrity attribute - only after authenticate_message "
                   "succeeded with the right key and algorithm; every other path leaves the mechanism untouched")
    for fn in ("process_unauthenticated_error_response", "process_stale_nonce_error_response"):
        paths, info = _explore_lt_fn(prog, fn)
        ctx.fn(info["body"])
        n = 0
        for pa in paths:
            mi = pa.choice(r"^variant\(message_integrity\)$")
            sha = pa.choice(r"^variant\(message_integrity_sha256\)$")
            mac = pa.choice(r"^ret:validate_message_integrity@")
            nonce = pa.choice(r"^variant\(nonce\)$")
            params = pa.choice(r"^variant\(lt\.params\)$")
            ret = _ret_str(pa.ret)
            w = _lt_writes(pa)
            key = "%s:mi=%s,sha=%s,mac=%s,nonce=%s,params=%s,ret=%s" % (fn.split("_error")[0], mi, sha, mac, nonce, params, ret)
            n += 1
            ok = True
            why = "writes %s" % [t for t, _v in w]
            has_integrity = (mi == "Some" or sha == "Some")
            if ret != "Err(Retry)":
                if w:
                    ok, why = False, "path returning %s writes %s" % (ret, [t for t, _v in w])
            else:
                if has_integrity and mac != 1:
                    ok, why = False, "Retry although the integrity attribute did not verify (mac=%s)" % mac
                elif mac != 1 and not (mi == "None" and sha == "None"):
                    # an unauthenticated Retry is for a response that carries NO integrity attribute: the path must have
                    # established the absence of both kinds (looking only at the negotiated kind lets a response with the
                    # other kind through unauthenticated)
                    ok, why = False, "unauthenticated Retry on a path that did not establish the absence of both integrity attributes (mi %s, sha %s)" % (mi or "not examined", sha or "not examined")
                vi = pa.index_of(r"validate_message_integrity$")
                wi = [i for i, e in enumerate(pa.log) if e[0] == "write" and (e[1] == "lt" or "lt.params" in str(e[1]))]
                if has_integrity and ok and (vi < 0 or (wi and min(wi) < vi)):
                    ok, why = False, "state written before the response was authenticated"
                targets = [t for t, _v in w]
                if fn.startswith("process_unauth"):
                    if not ("params" in targets and targets.count("params") == 1):
                        ok, why = False, "401: cached parameters not replaced exactly once: %s" % targets
                    elif [v for t, v in w if t == "params"][0] != ("Option::Some", "top:auth_params"):
                        ok, why = False, "401: params := %r" % ([v for t, v in w if t == "params"][0],)
                    st = [v for t, v in w if t == "state"]
                    if ok and st and st[-1] != ("LongTermCredentialState::Retry", "RetryCause::Unauthenticated"):
                        ok, why = False, "401: state := %r" % (st[-1],)
                else:
                    nw = [v for t, v in w if t.endswith("nonce")]
                    if len(nw) != 1 or "nonce" not in repr(nw[0]) or "lt." in repr(nw[0]):
                        ok, why = False, "438: nonce write %r" % (nw,)
                    if any(t for t in targets if t not in ("state",) and not t.endswith("nonce")):
                        ok, why = False, "438: unexpected writes %s" % targets
                    st = [v for t, v in w if t == "state"]
                    if ok and st and st[-1] != ("LongTermCredentialState::Retry", "RetryCause::StaleNonce"):
                        ok, why = False, "438: state := %r" % (st[-1],)
            # authentication uses the right key / algorithm
            v = pa.calls_to(r"validate_message_integrity$")
            if ok and v:
                keyarg = repr(v[0][2][1])
                want = "auth_params" if fn.startswith("process_unauth") else "lt.params"
                if want not in keyarg or "key" not in keyarg:
                    ok, why = False, "authenticated with key %s" % keyarg[:100]
            if ok and fn.startswith("process_stale") and (nonce == "None" or params == "None") and ret != "Err(Discarded)":
                ok, why = False, "missing nonce/params -> %s" % ret
            ctx.ob(rule, key, ok, why, info["where"], replay=None if ok else pa.describe())
        ctx.floor(rule, "%s paths" % fn, n, 6)


def r8_5_derivation(ctx, prog, rule="R8.5"):
    ctx.rule(rule, "challenge -> credentials: REALM and NONCE are required (else Discarded); USERHASH iff the anonymity bit; "
                   "key = HMACKey::new_long_term(user, realm, password, chosen algorithm or MD5); integrity = SHA256 iff "
                   "PASSWORD-ALGORITHMS was offered; success/other responses are authenticated with the cached key and the "
                   "agreed algorithm only")
    paths, info = C.explore_fn(prog, "stun_agent::lt_cred_mech::create_long_term_auth_attrs", "x",
                               [r"lt_cred_mech::create_long_term_auth_attrs$", r"\{closure"])
    ctx.fn(info["body"])
    n = 0
    for pa in paths:
        realm = pa.choice(r"^variant\(attrs\.realm\)$")
        nonce = pa.choice(r"^variant\(attrs\.nonce\)$")
        anon = pa.choice(r"^user_anonymity$")
        algs = pa.choice(r"^variant\(attrs\.password_algorithms\)$")
        alg = pa.choice(r"^variant\(attrs\.password_algorithm\)$")
        ret = _ret_str(pa.ret)
        key = "derive:realm=%s,nonce=%s,anon=%s,algs=%s,alg=%s,ret=%s" % (realm, nonce, anon, algs, alg, ret)
        n += 1
        ok = True
        why = ret
        if realm == "None" or (realm == "Some" and nonce == "None"):
            ok = ret == "Err(Discarded)" and not pa.calls_to(r"HMACKey::new_long_term")
            why = "missing realm/nonce -> %s" % ret
        elif ret == "Ok":
            r = C.expr_of(pa, pa.ret)
            st = r[1] if isinstance(r, tuple) and len(r) > 1 else None
            if not (isinstance(st, tuple) and st[0] == "LongTermCredentialAttributes" and len(st) == 8):
                ok, why = False, "unexpected result %r" % (r,)
            else:
                _n, f_realm, f_nonce, f_algs, f_alg, f_key, f_uh, f_int = st
                if "attrs.realm" not in repr(f_realm) or "attrs.nonce" not in repr(f_nonce):
                    ok, why = False, "realm/nonce not copied from the challenge: %r %r" % (f_realm, f_nonce)
                if ok and (_opt(f_algs) != algs or _opt(f_alg) != alg
                           or (algs == "Some" and "attrs.password_algorithms" not in repr(f_algs))
                           or (alg == "Some" and "attrs.password_algorithm" not in repr(f_alg))):
                    ok, why = False, "password algorithm fields: %r %r" % (f_algs, f_alg)
                want_int = "Integrity::MessageIntegritySha256" if algs == "Some" else "Integrity::MessageIntegrity"
                if ok and f_int != want_int:
                    ok, why = False, "integrity %s with PASSWORD-ALGORITHMS %s" % (f_int, algs)
                if ok:
                    if anon == 1:
                        okh = isinstance(f_uh, tuple) and f_uh[0] == "Option::Some" and "create_user_hash_attr" in repr(f_uh)
                        if okh:
                            uh = [e for e in pa.calls if "create_user_hash_attr" in e[1]][0]
                            okh = "user_name" in repr(uh[2][1]) and "attrs.realm" in repr(uh[2][2])
                    else:
                        okh = f_uh == "Option::None"
                    if not okh:
                        ok, why = False, "anonymity=%s but user_hash=%r" % (anon, f_uh)
                if ok:
                    k = [e for e in pa.calls if re.search(r"HMACKey::new_long_term", e[1])]
                    if len(k) != 1:
                        ok, why = False, "HMACKey::new_long_term x%d" % len(k)
                    else:
                        a = C.expr_of(pa, k[0][2])
                        okk = "user_name" in repr(a[0]) and "attrs.realm" in repr(a[1]) and "password" in repr(a[2])
                        if alg == "Some":
                            okk = okk and "attrs.password_algorithm" in repr(a[3]) and "as_ref" in repr(a[3])
                        else:
                            okk = okk and a[3] == ("Algorithm::from", "AlgorithmId::MD5")
                        if not okk:
                            ok, why = False, "key derived from %s" % (repr(a)[:200],)
                        elif "new_long_term" not in repr(f_key):
                            ok, why = False, "stored key is %r" % (f_key,)
        ctx.ob(rule, key, ok, why, info["where"], replay=None if ok else pa.describe())
    ctx.floor(rule, "derivation paths", n, 8)
    # authenticated delivery of success / other error responses
    for fn in ("process_success_response", "process_error"):
        models = lt_iter_models(prog)
        paths, info = _explore_lt_fn(prog, fn, models=models)
        ctx.fn(info["body"])
        seen = {}
        for pa in paths:
            ret = _ret_str(pa.ret)
            params = pa.choice(r"^variant\(lt\.params\)$")
            cfg = None
            for nme, v in pa.choices:
                if re.search(r"lt\.params.*integrity", str(nme)) and v in ("MessageIntegrity", "MessageIntegritySha256"):
                    cfg = v
            mac = pa.choice(r"^ret:validate_message_integrity@")
            if fn == "process_success_response":
                mi, sha, seq = wire_summary_yielded(pa.choices)
            else:
                mi = pa.choice(r"^variant\(message_integrity\)$") == "Some"
                sha = pa.choice(r"^variant\(message_integrity_sha256\)$") == "Some"
            v = pa.calls_to(r"validate_message_integrity$")
            key = "%s:params=%s,cfg=%s,mi=%d,sha=%d,mac=%s,ret=%s" % (fn, params, cfg, mi, sha, mac, ret)
            ok = True
            why = ret
            if params == "None":
                ok = ret == "Err(Discarded)" and not v
            elif ret == "Ok":
                want = cfg
                if not v or mac != 1:
                    ok, why = False, "accepted without a verifying MAC"
                else:
                    a = repr(v[0][2][0])
                    if ("value-of-%s'" % want) not in a and ("value-of-%s\"" % want) not in a and fn == "process_success_response":
                        ok, why = False, "verified attribute %s, agreed %s" % (a[:80], want)
                    if "lt.params" not in repr(v[0][2][1]) or "key" not in repr(v[0][2][1]):
                        ok, why = False, "verified under %s" % repr(v[0][2][1])[:80]
                if fn == "process_success_response" and ok:
                    other = sha if cfg == "MessageIntegrity" else mi
                    if other:
                        ok, why = False, "accepted although the non-agreed integrity attribute is present"
            if _lt_writes(pa):
                ok, why = False, "writes %s" % _lt_writes(pa)
            if key not in seen or not ok:
                seen[key] = (ok, why, pa)
        for key, (ok, why, pa) in sorted(seen.items()):
            ctx.ob(rule, key, ok, why, info["where"], replay=None if ok else pa.describe())
        ctx.floor(rule, "%s classes" % fn, len(seen), 6)


def r8_3_error_dispatch(ctx, prog, rule="R8.3"):
    ctx.rule(rule, "process_error_response over every admitted attribute sequence (loop fixpoint): 401 / 438 / other are "
                   "dispatched on error_code().error_code() with the harvested REALM / NONCE / PASSWORD-ALGORITHMS / "
                   "integrity attributes; missing ERROR-CODE -> Discarded; 'password algorithms' bit without the attribute "
                   "or no supported algorithm -> NotRetryable; 401 needs create_long_term_auth_attrs to succeed first")
    models = lt_iter_models(prog) + lt_models()
    STEP = STEP_COMMON + [r"LongTermCredentialClient::process_error_response$"]
    # the loop head is revisited once per abstract store (7 harvested options x iterator flags: thousands of stores)
    paths, info = C.explore_fn(prog, LT + "::process_error_response", "lt", STEP, extra_models=models, adaptor_loops=True, loop_bound=40000, max_paths=1500000)
    ctx.fn(info["body"])
    if info["bounded"]:
        ctx.violation(rule, "bounded", "loop bound hit", info["where"])
    seen = {}
    for pa in paths:
        seq = [v for n, v in pa.choices if n == "wire.next" and v != "end"]
        has = {k: (k in seq) for k in LT_KINDS}
        code = pa.choice(r"^error_code$")
        ret = _ret_str(pa.ret)
        calls = [e for e in pa.calls if "lt_cred_mech::" in e[1]]
        names = [C.short(e[1]).split("::")[-1] for e in calls]
        # password algorithm selection
        algsel = [v for n, v in pa.choices if str(n).startswith("variant(ret:algorithm@")]
        supported = any(v in ("MD5", "SHA256") for v in algsel)
        pwbit = None
        anon = None
        for e in pa.calls:
            if e[1].endswith("BitFlags::<stun_rs::attributes::stun::nonce_cookie::StunSecurityFeatures>::contains") or "BitFlags" in e[1] and "contains" in e[1]:
                which = repr(e[2][1])
                val = pa.choice("^" + re.escape(e[4]) + "$")
                if "PasswordAlgorithms" in which:
                    pwbit = val
                elif "UserNameAnonymity" in which:
                    anon = val
        key = "code=%s,err=%d,realm=%d,nonce=%d,algs=%d,supported=%s,pwbit=%s,mi=%d,sha=%d,ret=%s,calls=%s" % (
            code, has["ErrorCode"], has["Realm"], has["Nonce"], has["PasswordAlgorithms"], supported if has["PasswordAlgorithms"] else None,
            pwbit, has["MessageIntegrity"], has["MessageIntegritySha256"], ret if not ret.startswith("top") else "callee", "+".join(names))
        ok = True
        why = "ok"
        w = _lt_writes(pa)
        if w:
            ok, why = False, "process_error_response itself writes %s" % w
        elif has["PasswordAlgorithms"] and not supported:
            ok = ret == "Err(NotRetryable)" and not calls
            why = "no supported password algorithm -> %s %s" % (ret, names)
        elif pwbit == 1 and not has["PasswordAlgorithms"]:
            ok = ret == "Err(NotRetryable)" and not calls
            why = "password-algorithms bit without the attribute -> %s %s" % (ret, names)
        elif not has["ErrorCode"]:
            ok = ret == "Err(Discarded)" and not calls
            why = "no ERROR-CODE -> %s %s" % (ret, names)
        elif code == "401":
            if names[:1] != ["create_long_term_auth_attrs"]:
                ok, why = False, "401 -> %s" % names
            else:
                a = calls[0][2]
                attrs = a[3]
                okk = "msg.transaction_id" in repr(a[0]) and "lt.user_name" in repr(a[1]) and "lt.password" in repr(a[2])
                okk = okk and isinstance(attrs, tuple) and attrs[0] == "LongTermAttributes" and len(attrs) == 5
                if okk:
                    okk = (_opt(attrs[1]) == ("Some" if has["Realm"] else "None")) and \
                          (_opt(attrs[2]) == ("Some" if has["Nonce"] else "None")) and \
                          (_opt(attrs[3]) == ("Some" if has["PasswordAlgorithms"] else "None")) and \
                          (_opt(attrs[4]) == ("Some" if (has["PasswordAlgorithms"] and supported) else "None"))
                    if okk and has["Realm"]:
                        okk = "value-of-Realm" in repr(attrs[1])
                    if okk and has["Nonce"]:
                        okk = "value-of-Nonce" in repr(attrs[2])
                    if okk and has["PasswordAlgorithms"]:
                        okk = "value-of-PasswordAlgorithms" in repr(attrs[3])
                    if okk:
                        # the anonymity flag passed is the nonce-cookie bit
                        flag = a[4]
                        if anon is None:
                            okk = flag == 0 or (isinstance(flag, str) and "contains" in flag)
                        else:
                            okk = flag == anon or (isinstance(flag, str) and "contains" in flag)
                if not okk:
                    ok, why = False, "401: create_long_term_auth_attrs%s" % (repr(a)[:260],)
                created = pa.choice(r"^variant\(ret:create_long_term_auth_attrs@[^.]*\)$")
                if ok and created == "Err":
                    ok = names == ["create_long_term_auth_attrs"] and ret.startswith("Err(")
                    why = "derivation failed -> %s %s" % (ret, names)
                elif ok:
                    if names != ["create_long_term_auth_attrs", "process_unauthenticated_error_response"]:
                        ok, why = False, "401 -> %s" % names
                    else:
                        b = calls[1][2]
                        okk = "raw_buffer" in repr(b[1]) and "top:msg" in repr(b[2]) and "create_long_term_auth_attrs" in repr(b[3]) \
                            and _opt(b[4]) == ("Some" if has["MessageIntegrity"] else "None") \
                            and _opt(b[5]) == ("Some" if has["MessageIntegritySha256"] else "None")
                        if not okk:
                            ok, why = False, "401: process_unauthenticated_error_response%s" % (repr(b[1:])[:260],)
                        elif "process_unauthenticated_error_response" not in repr(pa.ret):
                            ok, why = False, "401: result is not the handler's result"
        elif code == "438":
            if names != ["process_stale_nonce_error_response"]:
                ok, why = False, "438 -> %s" % names
            else:
                b = calls[0][2]
                okk = "raw_buffer" in repr(b[1]) and "top:msg" in repr(b[2]) \
                    and _opt(b[3]) == ("Some" if has["Nonce"] else "None") \
                    and (not has["Nonce"] or "value-of-Nonce" in repr(b[3])) \
                    and _opt(b[4]) == ("Some" if has["MessageIntegrity"] else "None") \
                    and _opt(b[5]) == ("Some" if has["MessageIntegritySha256"] else "None")
                if not okk:
                    ok, why = False, "438: process_stale_nonce_error_response%s" % (repr(b[1:])[:260],)
                elif "process_stale_nonce_error_response" not in repr(pa.ret):
                    ok, why = False, "438: result is not the handler's result"
        else:
            if names != ["process_error"]:
                ok, why = False, "other error code -> %s" % names
            else:
                b = calls[0][2]
                okk = "raw_buffer" in repr(b[1]) and "top:msg" in repr(b[2]) \
                    and _opt(b[3]) == ("Some" if has["MessageIntegrity"] else "None") \
                    and _opt(b[4]) == ("Some" if has["MessageIntegritySha256"] else "None")
                if not okk:
                    ok, why = False, "other: process_error%s" % (repr(b[1:])[:200],)
                elif "process_error" not in repr(pa.ret):
                    ok, why = False, "other: result is not the handler's result"
        if key not in seen or not ok:
            seen[key] = (ok, why, pa)
    for key, (ok, why, pa) in sorted(seen.items()):
        ctx.ob(rule, "err-resp:%s" % key, ok, why, info["where"], replay=None if ok else pa.describe())
    ctx.floor(rule, "process_error_response classes", len(seen), 60)
    ctx.extra["lt_error_response_paths"] = len(paths)
    # the comparison constants
    body = info["body"]
    consts = set()
    for bi, b in enumerate(body.blocks):
        for s in b["stmts"]:
            if s["k"] == "assign" and s["rv"]["k"] == "binop" and s["rv"]["op"] == "Eq":
                for o in (s["rv"]["a"], s["rv"]["b"]):
                    if o["k"] == "const" and "bits" in o:
                        consts.add(int(o["bits"]))
    ctx.ob(rule, "constants", {401, 438} <= consts, "error codes compared with %s" % sorted(consts), info["where"])


def r8_6_password_taint(ctx, prog, rule="R8.6"):
    ctx.rule(rule, "the password flows only into the key derivation (HMACKey::new_long_term / new_short_term): never into "
                   "StunAttributes::add, an encoder, format! or log")
    # field readers
    readers = {}
    for b in prog.bodies.values():
        if b.crate != "stun_agent" or "_tests::" in b.path or "::tests::" in b.path:
            continue
        for bi, blk in enumerate(b.blocks):
            items = []
            for s in blk["stmts"]:
                if s["k"] == "assign":
                    rv = s["rv"]
                    if rv["k"] in ("ref", "rawptr", "discr"):
                        items.append(rv["place"])
                    for o in ([rv.get("op"), rv.get("a"), rv.get("b")] + list(rv.get("ops", []))):
                        if isinstance(o, dict) and o["k"] in ("copy", "move"):
                            items.append(o["place"])
            t = blk["term"]
            if t["k"] == "call":
                for a in t["args"]:
                    if a["k"] in ("copy", "move"):
                        items.append(a["place"])
            for pl in items:
                for e in pl["p"]:
                    if e["k"] == "field" and e.get("name") == "password" and e.get("adt", "").endswith(("LongTermCredentialClient", "StunClientParameters")):
                        from ..absint import owning_functions
                        readers.setdefault(e["adt"].split("::")[-1], set()).update(owning_functions(prog, b))
    lt_readers = readers.get("LongTermCredentialClient", set())
    ok = lt_readers <= {LT + "::process_error_response", "<stun_agent::lt_cred_mech::LongTermCredentialClient as std::fmt::Debug>::fmt"}
    # Debug derive prints the password field: flag separately (it is not the wire)
    ctx.ob(rule, "password-readers", ok and bool(lt_readers),
           "LongTermCredentialClient.password is read in %s" % sorted(x.split("::")[-1] for x in lt_readers))
    # flows inside the explored paths: every logged call that mentions lt.password
    models = lt_iter_models(prog) + lt_models()
    STEP = STEP_COMMON + [r"LongTermCredentialClient::process_error_response$", r"lt_cred_mech::create_long_term_auth_attrs$"]
    paths, info = C.explore_fn(prog, "stun_agent::lt_cred_mech::create_long_term_auth_attrs", "x",
                               [r"lt_cred_mech::create_long_term_auth_attrs$", r"\{closure"])
    sinks = set()
    for pa in paths:
        for e in pa.calls:
            if "top:password" in repr(e[2]):
                sinks.add(C.short(e[1]))
    ctx.ob(rule, "password-sinks", sinks <= {"HMACKey::new_long_term"} and bool(sinks),
           "inside create_long_term_auth_attrs the password reaches %s" % sorted(sinks), info["where"])
    b = prog.body("stun_agent::client::StunClient::new")
    from ..mirq import q_of
    q = q_of(b)
    tgt = set()
    for c in b.calls():
        for a in c.args:
            for o in q.origins(a):
                if o.kind == "place":
                    names = [e.get("name") for e in o.place["p"] if e["k"] == "field"]
                    if "password" in names:
                        tgt.add(C.short(c.callee_path))
    ctx.ob(rule, "client-new", True, "StunClient::new passes params.password to %s" % sorted(tgt), b.where())


def r8_8_lt_end_to_end(ctx, prog, rule="R8.8"):
    """thorough: one-shot exploration of LongTermCredentialClient::recv_message with every callee of the
    mechanism stepped into (about 50k paths): end-to-end statements that the compositional rules imply."""
    ctx.rule(rule, "end to end (one-shot exploration of recv_message, all mechanism functions stepped into): Ok only after a "
                   "verifying MAC under the cached / derived key; Retry only for 401 / 438 error responses; Discarded paths "
                   "write nothing but the violated marker; the state becomes SubsequentRequest only on Ok")
    models = lt_iter_models(prog) + lt_models()
    body = prog.body(LT + "::recv_message")
    it = Interp(prog, compile_models(list(models)), step_only=list(STEP_LT), max_paths=20000000)
    st = State()
    st.heap["lt"] = it.materialize(LT, "lt")
    st.heap["raw_buffer"] = Top("raw_buffer")
    st.heap["msg"] = it.materialize("stun_rs::message::StunMessage", "msg")
    outs = it.run(body, [Ref("lt", (), True), Ref("raw_buffer"), Ref("msg")], st)
    paths = [C.Path(it, o) for o in outs]
    ctx.fn(body)
    for p in it.stepped:
        ctx.functions.add(p)
    if it.bounded:
        ctx.violation(rule, "bounded", "loop bound hit", body.where())
    seen = {}
    for pa in paths:
        ret = _ret_str(pa.ret)
        d = lt_desc(pa)
        w = _lt_writes(pa)
        mac = d["mac"]
        v = pa.calls_to(r"validate_message_integrity$")
        bad = []
        if ret == "Ok":
            if not v or mac != 1:
                bad.append("accepted without a verifying MAC")
            elif "lt.params" not in repr(v[-1][2][1]) and "create_long_term_auth_attrs" not in repr(C.expr_of(pa, v[-1][2][1])) and "new_long_term" not in repr(C.expr_of(pa, v[-1][2][1])):
                bad.append("verified under %s" % repr(v[-1][2][1])[:80])
            if d["cls"] not in ("SuccessResponse", "ErrorResponse"):
                bad.append("class %s accepted" % d["cls"])
            if any(t not in ("state",) for t, _x in w):
                bad.append("Ok path writes %s" % [t for t, _x in w])
        elif ret == "Err(Retry)":
            if d["cls"] != "ErrorResponse" or d["code"] not in ("401", "438"):
                bad.append("Retry for cls=%s code=%s" % (d["cls"], d["code"]))
        elif ret == "Err(Discarded)":
            if w:
                bad.append("Discarded path writes %s" % [t for t, _x in w])
        if any(t == "state" and x == "LongTermCredentialState::SubsequentRequest" for t, x in w) and ret != "Ok":
            bad.append("state := SubsequentRequest on %s" % ret)
        key = "cls=%s,code=%s,params=%s,ret=%s,mac=%s" % (d["cls"], d["code"], d["params"], ret, mac)
        ok = not bad
        if key not in seen or not ok:
            seen[key] = (ok, "; ".join(bad) or "ok", pa)
    for key, (ok, why, pa) in sorted(seen.items()):
        ctx.ob(rule, key, ok, why, body.where(), replay=None if ok else pa.describe())
    ctx.floor(rule, "end-to-end classes", len(seen), 20)
    ctx.extra["lt_full_paths"] = len(paths)
