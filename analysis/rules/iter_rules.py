"""C03 R3.5 - the wire-attribute iterator and the decode loops that drive it: safety by linear proof.

The budget entries of RawAttributesIter::next, MessageDecoder::decode and raw::get_input_text rely on the invariant
`pos <= len(attributes)` and on the callee contracts below.  Here they are *proved* (analysis/linproof.py):

  (a) contracts, each established on the callee's own paths:
        check_buffer_boundaries(s, n) = Ok   =>  n <= len(s)
        padding(x) <= 3
        RawAttribute::decode(s) = Ok((_, n)) =>  4 <= n <= len(s)
        RawMessage::decode(b) = Ok((m, S))   =>  20 <= S <= len(b), m.attributes = b[20..S]
  (b) RawAttributesIter::next under Inv (pos <= len(buffer)): every slice / arithmetic obligation holds, and Inv holds
      again on every Ok(Some) return; Ok(None) changes nothing; only next() writes `pos`, nobody writes `buffer`;
  (c) callers never call next() again after it returned Err (the only exits that may leave pos > len);
  (d) in MessageDecoder::decode and get_input_text the iterator is built over raw_msg.attributes of
      RawMessage::decode(buffer), and every slice of `buffer` by 20 + pos lies within it.
"""
import re
from .. import client as C
from .. import linproof as LP
from ..cfg import cfg_of
from .exprs import show
from ..absint import owning_functions

IT = "stun_rs::raw::RawAttributesIter"
NEXT = "<stun_rs::raw::RawAttributesIter<'a> as fallible_iterator::FallibleIterator>::next"
RAW_ATTR = "<stun_rs::raw::RawAttribute<'a> as stun_rs::Decode<'a>>::decode"
RAW_MSG = "<stun_rs::raw::RawMessage<'a> as stun_rs::Decode<'a>>::decode"
CBB = "stun_rs::common::check_buffer_boundaries"


def upper(name):
    m0 = re.match(r"(?:num|usize|u64|u32)::from\((.*)\)$|(?:T|u16|u8)::into\((.*)\)$", name)
    if m0:
        return upper(m0.group(1) or m0.group(2))     # a lossless integer conversion keeps the bound
    mw = re.match(r"u(8|16|32)::from_be_bytes\(", name)
    if mw:
        return (1 << int(mw.group(1))) - 1          # the width is in the name
    m = re.match(r"(?:num|u\d+)::from_be_bytes\(array\((.*)\)\)$", name)
    if m and not name.startswith("len("):
        k = m.group(1).count(", ") + 1          # an integer assembled from k bytes
        if k in (1, 2, 4):
            return (1 << (8 * k)) - 1
    if name.startswith(("BigEndian::read_u16(", "u16::from_be_bytes(")) and "read_u16" in name.split("(")[0]:
        return 65535
    if "read_u16" in name or "msg_length" in name:
        return 65535
    if name.startswith("common::padding("):
        return 3
    return None


def c_cbb(w, e, args, suffix, variant):
    """check_buffer_boundaries(s, n) returned Ok => n <= len(s)"""
    if suffix == "" and variant == "Ok":
        return [LP.add(w.L.len_lin(args[0]), w.L.lin(args[1]), -1)]
    return []


def c_raw_attr(w, e, args, suffix, variant):
    """RawAttribute::decode(s) = Ok((_, n)) => 4 <= n <= len(s)"""
    if suffix == "" and variant == "Ok":
        n = w.L.lin(((C.short(e[1]),) + tuple(args), ".ok.1"))
        return [LP.add(n, {1: -4}), LP.add(w.L.len_lin(args[0]), n, -1)]
    return []


def c_raw_msg(w, e, args, suffix, variant):
    """RawMessage::decode(b) = Ok((m, S)) => 20 <= S <= len(b) and len(m.attributes) = S - 20"""
    if suffix == "" and variant == "Ok":
        node = (C.short(e[1]),) + tuple(args)
        s = w.L.lin((node, ".ok.1"))
        a = w.L.len_lin((node, ".ok.0.attributes"))
        d = LP.add(LP.add(a, s, -1), {1: 20})
        return [LP.add(s, {1: -20}), LP.add(w.L.len_lin(args[0]), s, -1), d, {k: -v for k, v in d.items()}]
    return []


def c_get(w, e, args, suffix, variant):
    """s.get(a..b) = Some(_) => a <= b <= len(s)   (std: slice::get with a range)"""
    if suffix == "" and variant == "Some" and len(args) == 2 and isinstance(args[1], tuple) and args[1][0] == "Range":
        a, b = w.L.lin(args[1][1]), w.L.lin(args[1][2])
        return [LP.add(b, a, -1), LP.add(w.L.len_lin(args[0]), b, -1)]
    return []


def c_header(w, e, args, suffix, variant):
    """MessageHeader::decode(b) = Ok((_, n)) => n == 20 <= len(b)   (R2.10 checks the returned size on the accepting path)"""
    if suffix == "" and variant == "Ok":
        n = w.L.lin(((C.short(e[1]),) + tuple(args), ".ok.1"))
        return [LP.add(n, {1: -20}), LP.add({1: 20}, n, -1), LP.add(w.L.len_lin(args[0]), {1: -20})]
    return []


CONTRACTS = [(r"MessageHeader<'\w+> as stun_rs::Decode<'\w+>>::decode$", c_header), (r"slice::<impl \[.*\]>::get(::<.*>)?$", c_get), (r"common::check_buffer_boundaries$", c_cbb), (r"RawAttribute<'\w+> as stun_rs::Decode<'\w+>>::decode$", c_raw_attr),
             (r"RawMessage<'\w+> as stun_rs::Decode<'\w+>>::decode$", c_raw_msg)]


def _ok(r):
    return isinstance(r, tuple) and r[0] == "Result::Ok"


def r3_5_iterator(ctx, prog, rule="R3.5"):
    ctx.rule(rule, "the wire-attribute iterator is safe by induction: contracts of check_buffer_boundaries / padding / "
                   "RawAttribute::decode / RawMessage::decode are established on their own paths; under pos <= len(buffer) every "
                   "slice and addition in RawAttributesIter::next is in range and the invariant holds again after Ok(Some); "
                   "callers stop at the first Err; MessageDecoder::decode and get_input_text slice the message only by "
                   "20 + pos <= 20 + len(attributes) <= len(buffer) (linear implications, Fourier-Motzkin)")
    total = 0
    # ---- (a) contracts
    paths, info = C.explore_fn(prog, CBB, "x", [r"\{closure"])
    ctx.fn(info["body"])
    okc = len(paths) >= 2
    for pa in paths:
        r = C.expr_of(pa, pa.ret)
        g = pa.guards()
        want = [("Ge", ("slice::len", "top:buffer"), "top:limit", 1 if _ok(r) else 0)]
        alt = [("Lt", ("slice::len", "top:buffer"), "top:limit", 0 if _ok(r) else 1)]
        okc = okc and (g == want or g == alt)
    ctx.ob(rule, "contract:check_buffer_boundaries", okc, "Ok iff buffer.len() >= limit on %d paths" % len(paths), info["where"])
    paths, info = C.explore_fn(prog, "stun_rs::common::padding", "x", [])
    okp = all(isinstance(C.expr_of(pa, pa.ret), tuple) and C.expr_of(pa, pa.ret)[0] == "op:BitAnd" and C.expr_of(pa, pa.ret)[2] == 3 for pa in paths)
    ctx.ob(rule, "contract:padding", okp and paths, "padding(x) = %s (masked with 3)" % show(C.expr_of(paths[0], paths[0].ret))[:80], info["where"])

    def ren_buf(t):
        return None
    # RawAttribute::decode
    paths, info = C.explore_fn(prog, RAW_ATTR, "x", [r"\{closure"])
    ctx.fn(info["body"])
    n_ok = 0
    for pa in paths:
        r = C.expr_of(pa, pa.ret)
        w = LP.Walker(pa, [], contracts=CONTRACTS, upper=upper).run()
        total += w.n
        if _ok(r):
            n_ok += 1
            val = r[1]
            size = val[2] if isinstance(val, tuple) and val[0] == "tuple" and len(val) == 3 else None
            if size is None:
                w.failed.append("unexpected Ok value %s" % show(val)[:60])
            else:
                w.prove("contract: returned size >= 4", LP.add(w.L.lin(size), {1: -4}))
                w.prove("contract: returned size <= len(buffer)", LP.add(w.L.len_lin("top:buffer"), w.L.lin(size), -1))
                attr = val[1]
                vt = attr[2] if isinstance(attr, tuple) and len(attr) == 3 else None
                # the value is the view buffer[4..size], however it is sliced (index, get, split_at halves, nested)
                root, lo, hi = w.L.view(vt) if vt is not None else (None, None, None)
                okv = isinstance(attr, tuple) and attr[0] == "RawAttribute" and root == "top:buffer" and \
                    w.prove_eq("value starts at 4", LP.add(lo, {1: -4})) and w.prove_eq("value ends at the returned size", LP.add(hi, w.L.lin(size), -1))
                if not okv:
                    w.failed.append("value is not buffer[4..size]: %s" % show(attr)[:80])
        ctx.ob(rule, "RawAttribute::decode:%s" % ("Ok" if _ok(r) else "Err:%d" % len(pa.calls)), not w.failed,
               ("NOT proved: " + "; ".join(w.failed[:3])) if w.failed else "%d obligations proved" % w.n, info["where"],
               replay=None if not w.failed else pa.describe())
    ctx.floor(rule, "RawAttribute::decode Ok paths", n_ok, 1)
    # RawMessage::decode
    paths, info = C.explore_fn(prog, RAW_MSG, "x", [r"\{closure"])
    ctx.fn(info["body"])
    n_ok = 0
    for pa in paths:
        r = C.expr_of(pa, pa.ret)
        w = LP.Walker(pa, [], contracts=CONTRACTS, upper=upper).run()
        total += w.n
        if _ok(r):
            n_ok += 1
            val = r[1]
            size = val[2] if isinstance(val, tuple) and val[0] == "tuple" and len(val) == 3 else None
            msg = val[1] if size is not None else None
            if size is None or not (isinstance(msg, tuple) and msg[0] == "RawMessage" and len(msg) == 3):
                w.failed.append("unexpected Ok value %s" % show(val)[:60])
            else:
                w.prove("contract: returned size >= 20", LP.add(w.L.lin(size), {1: -20}))
                w.prove("contract: returned size <= len(buffer)", LP.add(w.L.len_lin("top:buffer"), w.L.lin(size), -1))
                root, lo, hi = w.L.view(msg[2])
                if not (root == "top:buffer" and w.prove_eq("attributes start at 20", LP.add(lo, {1: -20})) and
                        w.prove_eq("attributes end at the returned size", LP.add(hi, w.L.lin(size), -1))):
                    w.failed.append("attributes is not buffer[20..size]: %s" % show(msg[2])[:80])
        ctx.ob(rule, "RawMessage::decode:%s" % ("Ok" if _ok(r) else "Err:%d" % len(pa.calls)), not w.failed,
               ("NOT proved: " + "; ".join(w.failed[:3])) if w.failed else "%d obligations proved" % w.n, info["where"],
               replay=None if not w.failed else pa.describe())
    ctx.floor(rule, "RawMessage::decode Ok paths", n_ok, 1)
    # ---- (b) next() under the invariant
    paths, info = C.explore_fn(prog, NEXT, "it", [r"\{closure"])
    ctx.fn(info["body"])
    n_some = 0
    for pa in paths:
        r = C.expr_of(pa, pa.ret)
        L0 = LP.Lin()
        inv0 = LP.add(L0.len_lin("top:it.buffer.*"), L0.lin("top:it.pos"), -1)
        w = LP.Walker(pa, [inv0], contracts=CONTRACTS, upper=upper).run()
        total += w.n
        posw = [C.expr_of(pa, x[3]) for x in pa.writes if x[0] == "write" and x[1] == "it" and x[2] == ("pos",)]
        bufw = [x for x in pa.writes if x[0] == "write" and x[1] == "it" and x[2][:1] == ("buffer",)]
        if bufw:
            w.failed.append("next() writes the buffer field")
        kind = "Err"
        if _ok(r):
            kind = "None" if r[1] == "Option::None" else "Some"
            pos1 = posw[-1] if posw else "top:it.pos"
            if kind == "None" and posw:
                w.failed.append("Ok(None) after changing pos")
            if kind == "Some":
                n_some += 1
            w.prove("Inv': pos' <= len(buffer)", LP.add(w.L.len_lin("top:it.buffer.*"), w.L.lin(pos1), -1))
            if kind == "Some":
                w.prove("progress: pos' >= pos + 4", LP.add(LP.add(w.L.lin(pos1), w.L.lin("top:it.pos"), -1), {1: -4}))
        ctx.ob(rule, "next:%s:%d-calls" % (kind, len(pa.calls)), not w.failed,
               ("NOT proved: " + "; ".join(w.failed[:3])) if w.failed else "%d obligations proved under pos <= len(buffer)%s" % (w.n, ", Inv' and progress" if kind == "Some" else ""),
               info["where"], replay=None if not w.failed else pa.describe())
    ctx.floor(rule, "next() Ok(Some) paths", n_some, 1)
    # who writes the iterator's fields
    writers = {"pos": set(), "buffer": set()}
    builders = set()
    for b in prog.bodies.values():
        if b.crate != "stun_rs" or "::tests::" in b.path or b.path.endswith("::tests"):
            continue
        for blk in b.blocks:
            for st in blk["stmts"]:
                if st["k"] != "assign":
                    continue
                rv = st["rv"]
                if rv["k"] == "aggregate" and rv.get("agg") == "adt" and rv.get("adt") == IT:
                    builders.add(b.path)
                for pe in st["place"]["p"]:
                    if pe["k"] == "field" and pe.get("adt") == IT and pe.get("name") in writers:
                        writers[pe["name"]].update(owning_functions(prog, b))
                if rv["k"] in ("ref", "rawptr") and rv.get("mut"):
                    for pe in rv["place"]["p"]:
                        if pe["k"] == "field" and pe.get("adt") == IT and pe.get("name") in writers:
                            writers[pe["name"]].update(owning_functions(prog, b))
    okw = writers["pos"] <= {NEXT} and not writers["buffer"] and len(builders) == 1 and all("into_fallible_iter" in x for x in builders)
    ctx.ob(rule, "iterator:who-writes", okw, "pos written in %s, buffer in %s, built in %s" % (sorted(writers["pos"]), sorted(writers["buffer"]), sorted(builders)))
    for bp in builders:
        paths, info = C.explore_fn(prog, bp, "a", [r"\{closure"])
        for pa in paths:
            r = C.expr_of(pa, pa.ret)
            ok = isinstance(r, tuple) and r[0] == "RawAttributesIter" and r[2] == 0 and "a.0" in repr(r[1])
            ctx.ob(rule, "iterator:constructor", ok, "into_fallible_iter() = %s" % show(r)[:100], info["where"])
    # ---- (c) callers stop at the first Err
    callers = 0
    for b in prog.bodies.values():
        if b.crate != "stun_rs" or "::tests::" in b.path:
            continue
        sites = [c for c in b.calls() if re.search(r"RawAttributesIter<'\w+> as fallible_iterator::FallibleIterator>::next$", c.callee_path)]
        if not sites:
            continue
        callers += 1
        cfg = cfg_of(b)
        paths, info = C.explore_fn(prog, b.path, "x", [r"\{closure"])
        bad = 0
        for pa in paths:
            err_seen = False
            for e in pa.log:
                if e[0] == "call" and re.search(r"FallibleIterator>::next$", e[1]) and "RawAttributesIter" in e[1]:
                    if err_seen:
                        bad += 1
                        break
                    lab = e[4]
                if e[0] == "choice" and str(e[1]).startswith("variant(ret:next@") and e[2] == "Err":
                    err_seen = True
        ctx.ob(rule, "stop-at-first-error:%s" % b.path, bad == 0 and not info["bounded"],
               "%d path(s) call next() again after it returned Err (of %d explored)" % (bad, len(paths)), b.where())
    ctx.floor(rule, "functions driving the iterator", callers, 2)
    # ---- (d) the two decode loops
    for fn, lab in (("stun_rs::context::MessageDecoder::decode", "d"), ("stun_rs::raw::get_input_text", "x")):
        paths, info = C.explore_fn(prog, fn, lab, [r"\{closure"])
        ctx.fn(info["body"])
        failed = set()
        nob = 0
        wired = True
        for pa in paths:
            # the iterator is built over the attributes of RawMessage::decode(buffer)
            mk = [C.expr_of(pa, e[2]) for e in pa.calls if re.search(r"RawAttributes<'\w+> as std::convert::From<&'\w+ \[u8\]>>::from$|RawAttributes.*::from$", e[1])]
            for a in mk:
                if not (".ok.0.attributes" in repr(a) and "RawMessage::decode" in repr(a) and "top:buffer" in repr(a)):
                    wired = False

            def pos_fact(w, e, args, suffix, variant):
                # pos() / the pos field of the iterator after next(): <= len(attributes) = S - 20  (Inv, (b))
                return []
            # Inv ((b)) as a fact about every reading of the iterator's position on this path: pos <= len(attributes)
            attrs = {}
            L0 = LP.Lin()
            for e in pa.calls:
                if re.search(r"RawMessage<'\w+> as stun_rs::Decode<'\w+>>::decode$", e[1]):
                    node = (C.short(e[1]),) + tuple(pa.args(e))
                    attrs["len"] = L0.len_lin((node, ".ok.0.attributes"))

            def pos_leaf(name, attrs=attrs):
                if "len" in attrs and re.search(r"RawAttributesIter::pos\(|ret:pos@|havoc:next\.pos", name) and not name.startswith("len("):
                    return [LP.add(attrs["len"], {name: 1}, -1)]
                return []
            w = LP.Walker(pa, [], contracts=CONTRACTS, upper=upper, leaf_facts=pos_leaf)
            w.run()
            nob += w.n
            # the loop counter `position` (+1 per attribute) is bounded by the number of attributes, not proved here
            failed |= {f for f in w.failed if "widened" not in f}
        total += nob
        ctx.ob(rule, "decode-loop:%s" % fn.split("::")[-2 if fn.endswith("decode") else -1], not failed and wired and not info["bounded"],
               ("NOT proved: " + "; ".join(sorted(failed)[:3])) if failed else
               "%d paths, %d obligations proved; iterator built over RawMessage::decode(buffer).attributes: %s" % (len(paths), nob, wired),
               info["where"])
    ctx.floor(rule, "linear obligations proved", total, 30)
