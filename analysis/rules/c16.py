"""C16 - stream reassembly (structural clauses: per-call conservation laws of StunPacketDecoder::decode).

What is decided: on every path of one `decode(data)` call, as identities between linear forms over
(current_size c, expected_size E, data.len() L, header msg_length m):
  * every copy has equal source and destination length, its destination starts at the current fill
    level of the buffer and its source starts at the number of bytes of `data` consumed so far;
  * consumed count == bytes copied; new current_size == c + copied; a finished packet has size E (or
    m + 20) and c + copied == that size; missing == expected - new current_size;
  * the arithmetic tests that select each path are exactly the reassembler's decision conditions (R16.3):
    header complete iff c+L >= 20, SmallBuffer iff buffer.len() < m+20, packet complete iff c+L >= E (resp. m+20);
  * both error kinds are produced only after exactly 20 header bytes, with consumed = 20 - c, and hand
    the buffer back; `new` refuses buffers shorter than a header.
What is NOT decided: the induction over calls (that chunk-by-chunk feeding reproduces the stream) and
byte equality of the copies themselves (std `copy_from_slice`); these follow from the laws above by a
paper argument, not by this check.
"""
import re
from .. import client as C
from .exprs import show

DEC = "stun_agent::StunPacketDecoder"


DATA = "top:data"
DATA_LEN = ("slice::len", DATA)


def view(x):
    """(base, start, end) trees when x denotes base[start..end], following nested indexing (`&data[r..][..m]`) of the input
    slice; for any other base only one level (the base itself is the root); end None = unknown extent"""
    while isinstance(x, tuple) and len(x) == 2 and isinstance(x[1], str) and x[1] in (".*", ".*.*"):
        x = x[0]
    if x == DATA:
        return (DATA, 0, DATA_LEN)
    if isinstance(x, tuple) and len(x) == 2 and isinstance(x[1], str) and re.match(r"\.some(\.\*)*$", x[1]) and isinstance(x[0], tuple) \
            and len(x[0]) == 3 and isinstance(x[0][0], str) and re.search(r"(^|::)get(_mut)?$", x[0][0]):
        return view(("index",) + tuple(x[0][1:]))          # the Some payload of s.get(range) is s[range]
    if isinstance(x, tuple) and len(x) == 2 and isinstance(x[1], str) and re.match(r"\.[01](\.\*)*$", x[1]) and isinstance(x[0], tuple) \
            and len(x[0]) == 3 and isinstance(x[0][0], str) and re.search(r"split_at(_mut)?$", x[0][0]):
        v = view(x[0][1])                       # the halves of data.split_at(mid)
        if v is not None and v[0] == DATA and v[2] is not None:
            mid = ("op:Add", v[1], x[0][2])
            return (DATA, v[1], mid) if x[1].startswith(".0") else (DATA, mid, v[2])
        return None
    if isinstance(x, tuple) and len(x) == 3 and isinstance(x[0], str) and (re.search(r"(^|::)index(_mut)?$", x[0]) or x[0] == "whole"):
        v = view(x[1])
        if v is None or v[0] != DATA:
            v = (x[1], 0, None)
        base, st, en = v
        r = x[2]
        if not isinstance(r, tuple):
            return None
        if r[0] == "Range":
            return (base, ("op:Add", st, r[1]), ("op:Add", st, r[2]))
        if r[0] == "RangeTo":
            return (base, st, ("op:Add", st, r[1]))
        if r[0] == "RangeInclusive::new" and len(r) >= 3:
            return (base, ("op:Add", st, r[1]), ("op:Add", ("op:Add", st, r[2]), 1))
        if r[0] == "RangeFrom" and en is not None:
            return (base, ("op:Add", st, r[1]), en)
        if r[0] == "RangeFull" and en is not None:
            return (base, st, en)
    return None


def lin(t):
    """linear form {var: coeff, 1: const} of an expression tree built from op:Add / op:Sub / constants"""
    if isinstance(t, bool):
        return {1: int(t)} if t else {}
    if isinstance(t, int):
        return {1: t} if t else {}
    if isinstance(t, tuple) and len(t) == 2 and t[0] == "slice::len" and t[1] != DATA:
        v = view(t[1])
        if v is not None and v[0] == DATA and v[2] is not None:
            return lin(("op:Sub", v[2], v[1]))          # the length of a sub-slice of the input
    if isinstance(t, tuple) and t and t[0] in ("op:Add", "op:Sub") and len(t) == 3:
        a, b = lin(t[1]), lin(t[2])
        if a is None or b is None:
            return None
        sgn = 1 if t[0] == "op:Add" else -1
        out = dict(a)
        for k, v in b.items():
            out[k] = out.get(k, 0) + sgn * v
        return {k: v for k, v in out.items() if v != 0}
    # leaf: any other tree is an opaque variable
    return {repr(t): 1}


def eq(a, b):
    la, lb = lin(a), lin(b)
    return la is not None and lb is not None and la == lb


def leaf_name(k):
    """rename the opaque leaves of a linear form to the reassembler's quantities"""
    if k == 1:
        return 1
    if "msg_length" in k and "MessageHeader::try_from" in k:
        return "m"
    if k.startswith("('Vec::len'") or k.startswith("('slice::len', 'top:havoc:index_mut") or "buffer" in k and "len" in k:
        return "B"
    if "top:data" in k and "len" in k:
        return "L"
    if k == repr("top:dec.current_size"):
        return "c"
    if k == repr("top:dec.expected_size.some"):
        return "E"
    return k


def guard_form(g):
    """(op, a, b, value) -> canonical linear form d meaning `d >= 0` over integers, leaves renamed; None if not linear"""
    op, a, b, v = g
    if op not in ("Ge", "Gt", "Le", "Lt"):
        return None
    if (op, v) in (("Ge", 1), ("Lt", 0)):
        d = lin(("op:Sub", a, b))
    elif (op, v) in (("Ge", 0), ("Lt", 1)):
        d = lin(("op:Sub", ("op:Sub", b, a), 1))
    elif (op, v) in (("Gt", 1), ("Le", 0)):
        d = lin(("op:Sub", ("op:Sub", a, b), 1))
    else:
        d = lin(("op:Sub", b, a))
    if d is None:
        return None
    out = {}
    for k, c in d.items():
        n = leaf_name(k)
        out[n] = out.get(n, 0) + c
    return tuple(sorted(((str(k), c) for k, c in out.items() if c != 0)))


def get_guards(pa):
    """the decisions taken by `s.get(range)` on this path, as comparisons: Some => start <= end <= len(s); None (for a
    one-sided range) => the bound exceeds len(s).  -> [(op, a, b, value)] like Path.guards(), None entries when inexpressible"""
    out = []
    for i, e in enumerate(pa.log):
        if e[0] != "call" or not re.search(r"slice::<impl \[.*\]>::get(_mut)?(::<.*>)?$", e[1]):
            continue
        v = next((x[2] for x in pa.log[i:] if x[0] == "choice" and x[1] == "variant(%s)" % e[4]), None)
        if v is None:
            continue
        a = C.expr_of(pa, e[2], 0, i)
        base, r = a[0], a[1] if len(a) > 1 else None
        ln = ("slice::len", base)
        if not isinstance(r, tuple):
            out.append(None)
        elif r[0] == "RangeTo":
            out.append(("Ge", ln, r[1], 1 if v == "Some" else 0))
        elif r[0] == "RangeFrom":
            out.append(("Ge", ln, r[1], 1 if v == "Some" else 0))
        elif r[0] == "Range" and v == "Some":
            out.append(("Ge", r[2], r[1], 1))
            out.append(("Ge", ln, r[2], 1))
        else:
            out.append(None)
    return out


def form(**kw):
    d = {}
    for k, c in kw.items():
        d["1" if k == "one" else k] = c
    return tuple(sorted((k, c) for k, c in d.items() if c != 0))


# the decision conditions of a stream reassembler, per path class, as `d >= 0`
GUARDS = {
    ("Some", "Decoded"): [form(L=1, c=1, E=-1)],                         # this chunk holds the rest of the packet
    ("Some", "MoreBytesNeeded"): [form(E=1, c=-1, L=-1, one=-1)],        # ... it does not
    ("None", "MoreBytesNeeded:None"): [form(one=19, c=-1, L=-1)],        # header still incomplete
    ("None", "Err:InvalidStunPacket"): [form(c=1, L=1, one=-20)],
    ("None", "Err:SmallBuffer"): [form(c=1, L=1, one=-20), form(m=1, one=19, B=-1)],   # packet longer than the buffer
    ("None", "Decoded"): [form(c=1, L=1, one=-20), form(B=1, m=-1, one=-20), form(L=1, c=1, m=-1, one=-20)],
    ("None", "MoreBytesNeeded:Some"): [form(c=1, L=1, one=-20), form(B=1, m=-1, one=-20), form(m=1, one=19, c=-1, L=-1)],
}


def rng(t, base=None):
    """(start, end) trees of a range node; open ends refer to the length of `base` (the slice being indexed)"""
    ln = ("slice::len", base) if base == "top:data" else None
    if isinstance(t, tuple) and t[0] == "Range":
        return t[1], t[2]
    if isinstance(t, tuple) and t[0] == "RangeTo":
        return 0, t[1]
    if isinstance(t, tuple) and t[0] == "RangeFrom" and ln is not None:
        return t[1], ln
    if isinstance(t, tuple) and t[0] == "RangeFull" and ln is not None:
        return 0, ln
    if isinstance(t, tuple) and t[0] == "RangeInclusive::new" and len(t) >= 3:
        return t[1], ("op:Add", t[2], 1)
    return None


def fmt_form(f):
    if f is None:
        return "<non-linear test>"
    return " ".join("%+d*%s" % (c, k) if k != "1" else "%+d" % c for k, c in f) + " >= 0"


# ------------------------------------------------------------------------------------------------
# R16.4: the class invariant of the reassembler, proved inductively with a small relational domain (analysis/fm.py)

U64 = (1 << 64) - 1
ISZ = (1 << 63) - 1


def named_lin(t):
    """linear form {name: coef, 1: const} of a tree with the leaves renamed to the reassembler's quantities"""
    d = lin(t)
    out = {}
    for k, v in d.items():
        n = leaf_name(k)
        out[n] = out.get(n, 0) + v
    return {k: v for k, v in out.items() if v != 0}


def minus(a, b):
    out = dict(a)
    for k, v in b.items():
        out[k] = out.get(k, 0) - v
    return {k: v for k, v in out.items() if v != 0}


def _abs_extent(t):
    """(root, lo, hi): t denotes root[lo..hi] with root in {"data", "buffer"} and lo / hi linear forms over c, E, L, m, B -
    through nested indexing and the halves of split_at(_mut); None when t is not such a view"""
    while isinstance(t, tuple) and len(t) == 2 and isinstance(t[1], str) and t[1] in (".*", ".*.*"):
        t = t[0]
    if isinstance(t, tuple) and len(t) == 2 and t[0] == "&":
        return _abs_extent(t[1])
    if t == "top:data":
        return "data", {}, {"L": 1}
    if isinstance(t, tuple) and len(t) == 2 and isinstance(t[1], str) and re.match(r"\.some(\.\*)*$", t[1]) and isinstance(t[0], tuple) \
            and len(t[0]) == 3 and isinstance(t[0][0], str) and re.search(r"(^|::)get(_mut)?$", t[0][0]):
        return _abs_extent(("index",) + tuple(t[0][1:]))          # the Some payload of s.get(range)
    if isinstance(t, str) and ("dec.buffer" in t or t.startswith("top:havoc:index_mut") or t.startswith("top:havoc:copy_from_slice")
                               or t.startswith("top:havoc:clone_from_slice")):
        return "buffer", {}, {"B": 1}
    if isinstance(t, tuple) and len(t) == 2 and isinstance(t[1], str) and re.match(r"\.[01](\.\*)*$", t[1]) and isinstance(t[0], tuple) \
            and len(t[0]) == 3 and isinstance(t[0][0], str) and re.search(r"split_at(_mut)?$", t[0][0]):
        b = _abs_extent(t[0][1])
        if b is None:
            return None
        mid = plus(b[1], named_lin(t[0][2]))
        return (b[0], b[1], mid) if t[1].startswith(".0") else (b[0], mid, b[2])
    if isinstance(t, tuple) and len(t) == 3 and isinstance(t[0], str) and t[0].endswith(("index", "index_mut")):
        b = _abs_extent(t[1])
        r = t[2]
        if b is None or not isinstance(r, tuple):
            return None
        if r[0] == "Range":
            return b[0], plus(b[1], named_lin(r[1])), plus(b[1], named_lin(r[2]))
        if r[0] == "RangeTo":
            return b[0], b[1], plus(b[1], named_lin(r[1]))
        if r[0] == "RangeFrom":
            return b[0], plus(b[1], named_lin(r[1])), b[2]
        if r[0] == "RangeFull":
            return b
    return None


def plus(a, b):
    out = dict(a)
    for k, v in b.items():
        out[k] = out.get(k, 0) + v
    return {k: v for k, v in out.items() if v != 0}


def _slice_extent(t):
    """(lo, hi, len of the immediate base) of an index node, as linear forms relative to the root (so nested slices of the
    input are measured against the sub-slice they index, not against the whole input)"""
    while isinstance(t, tuple) and len(t) == 2 and isinstance(t[1], str) and t[1] in (".*", ".*.*"):
        t = t[0]
    x = _abs_extent(t)
    if x is None:
        return None
    if isinstance(t, tuple) and len(t) == 3 and isinstance(t[0], str) and t[0].endswith(("index", "index_mut")):
        b = _abs_extent(t[1])
        return x[1], x[2], b[2]
    return x[1], x[2], x[2]


def arith_obligations(t, out, depth=0):
    """no usize underflow / overflow in the arithmetic of a tree"""
    if not isinstance(t, tuple) or depth > 14:
        return
    if t and t[0] == "op:Sub" and len(t) == 3:
        out.append(("%s does not underflow" % show(t)[:70], minus(named_lin(t[1]), named_lin(t[2]))))
    if t and t[0] == "op:Add" and len(t) == 3:
        g = minus({1: U64}, named_lin(t))
        out.append(("%s does not overflow" % show(t)[:70], g))
    for x in t:
        arith_obligations(x, out, depth + 1)


def inv(known, c="c", e="E"):
    """the class invariant as constraints (>= 0): 20 <= B <= isize::MAX; None: c < 20; Some(E): c < E <= B"""
    f = [{"B": 1, 1: -20}, {"B": -1, 1: ISZ}]
    if known == "Some":
        f += [{e: 1, c: -1, 1: -1}, {"B": 1, e: -1}]
    else:
        f += [{c: -1, 1: 19}]
    return f


def r16_4_invariant(ctx, prog, rule="R16.4"):
    from .. import fm
    ctx.rule(rule, "class invariant of the reassembler, by induction over calls: Inv = (20 <= buffer.len(); expected = None => "
                   "current_size < 20; expected = Some(E) => current_size < E <= buffer.len()).  new() establishes it; every "
                   "path of decode that returns a decoder re-establishes it; and under Inv plus the comparisons decided so far "
                   "on the path, every slice range lies within its slice, every copy has equal lengths, the header slice is "
                   "exactly 20 bytes, every packet size is within the buffer and no usize arithmetic wraps (linear "
                   "implications decided by Fourier-Motzkin elimination, analysis/fm.py).  Only new() builds a decoder and "
                   "only decode() writes its fields")
    nonneg = [{v: 1} for v in ("c", "E", "L", "m", "B")]
    bounds = nonneg + [{"L": -1, 1: ISZ}, {"m": -1, 1: 65535}]
    # --- establishment
    paths, info = C.explore_fn(prog, DEC + "::new", "x", [r"\{closure"])
    for pa in paths:
        r = C.expr_of(pa, pa.ret)
        if not (isinstance(r, tuple) and r[0] == "Result::Ok"):
            continue
        facts = list(bounds) + [{"B": -1, 1: ISZ}]
        for g in pa.guards():
            f = guard_form((g[0], _rename_new(g[1]), _rename_new(g[2]), g[3]))
            if f is not None:
                facts.append({(1 if k == "1" else k): v for k, v in f})
        ok = r[1] == ("StunPacketDecoder", "top:buffer", 0, "Option::None")
        post = [x for x in inv("None", c="c0")]
        facts.append({"c0": 1})
        facts.append({"c0": -1})          # c0 == 0
        proved = ok and all(fm.entails(facts, g) for g in post)
        ctx.ob(rule, "established-by-new", proved, "new() returns %s; Inv follows from its length test: %s" % (show(r[1])[:80], proved), info["where"])
    # --- preservation and safety on every path of decode
    paths, info = C.explore_fn(prog, DEC + "::decode", "dec", [r"\{closure"])
    n_obl = 0
    for pa in paths:
        known = pa.choice(r"^variant\(dec\.expected_size\)$")
        facts = list(bounds) + inv(known)
        failed = []
        cmps = {}
        nob = 0

        gets = {}

        def prove(what, goal):
            nonlocal nob
            nob += 1
            if not fm.entails(facts, goal):
                failed.append(what)

        def prove_eq(what, a):
            nonlocal nob
            nob += 1
            if not fm.entails_eq(facts, a):
                failed.append(what)
        for e in pa.log:
            if e[0] == "cmp":
                a, b = C.expr_of(pa, e[3]), C.expr_of(pa, e[4])
                cmps[e[1]] = (e[2], a, b)
                obs = []
                arith_obligations(a, obs)
                arith_obligations(b, obs)
                for w, g in obs:
                    prove(w, g)
            elif e[0] == "choice" and e[1] in cmps:
                op, a, b = cmps[e[1]]
                f = guard_form((op, a, b, e[2]))
                if f is not None:
                    facts.append({(1 if k == "1" else k): v for k, v in f})
            elif e[0] == "choice" and str(e[1]).startswith("variant(ret:get@") and e[1] in gets:
                # s.get(range) decided: Some => start <= end <= len(s) (None of a one-sided range: the bound exceeds len(s))
                base, r = gets[e[1]]
                ln = ("slice::len", base)
                gs = []
                if isinstance(r, tuple) and r[0] in ("RangeTo", "RangeFrom"):
                    gs.append(("Ge", ln, r[1], 1 if e[2] == "Some" else 0))
                elif isinstance(r, tuple) and r[0] == "Range" and e[2] == "Some":
                    gs += [("Ge", r[2], r[1], 1), ("Ge", ln, r[2], 1)]
                for g in gs:
                    f = guard_form(g)
                    if f is not None:
                        facts.append({(1 if k == "1" else k): v for k, v in f})
            elif e[0] == "call" and re.search(r"slice::<impl \[.*\]>::get(_mut)?(::<.*>)?$", e[1]):
                a_ = C.expr_of(pa, e[2])
                gets["variant(%s)" % e[4]] = (a_[0], a_[1] if len(a_) > 1 else None)
            elif e[0] == "call":
                args = C.expr_of(pa, e[2])
                nm = C.short(e[1])
                obs = []
                for a in args:
                    arith_obligations(a, obs)
                for w, g in obs:
                    prove(w, g)
                if re.search(r"::index(_mut)?$", e[1]):
                    ext = _slice_extent((nm,) + tuple(args))
                    if ext is None:
                        failed.append("%s: unrecognised slice expression %s" % (nm, show(args)[:80]))
                        continue
                    lo, hi, ln = ext
                    prove("%s: start <= end in %s" % (nm, show(args[1])[:60]), minus(hi, lo))
                    prove("%s: end <= len in %s" % (nm, show(args[1])[:60]), minus(ln, hi))
                elif re.search(r"slice::<impl \[.*\]>::split_at(_mut)?$", e[1]) and len(args) == 2:
                    bx = _abs_extent(args[0])
                    if bx is None:
                        failed.append("%s: unrecognised slice %s" % (nm, show(args[0])[:60]))
                        continue
                    prove("%s: mid <= len" % nm, minus(minus(bx[2], bx[1]), named_lin(args[1])))
                elif re.search(r"copy_from_slice$|clone_from_slice$", e[1]):
                    d, s_ = _slice_extent(args[0]), _slice_extent(args[1])
                    if d is None or s_ is None:
                        failed.append("%s: operands are not sub-slices" % nm)
                        continue
                    prove_eq("%s: equal lengths" % nm, minus(minus(d[1], d[0]), minus(s_[1], s_[0])))
                elif re.search(r"TryInto<.*>>::try_into$|try_into$", e[1]):
                    x = _slice_extent(args[0])
                    if x is None:
                        failed.append("try_into on an unrecognised slice")
                        continue
                    prove_eq("header slice is exactly 20 bytes", minus(minus(x[1], x[0]), {1: 20}))
                elif re.search(r"slice::<impl \[.*\]>::first_chunk(_mut)?::<(\d+)>$", e[1]):
                    # s.first_chunk::<N>() is Some exactly when len(s) >= N: the header read needs its 20 bytes
                    nn = int(re.search(r"::<(\d+)>$", e[1]).group(1))
                    x = _abs_extent(args[0])
                    if x is None:
                        failed.append("first_chunk on an unrecognised slice")
                        continue
                    prove("first_chunk::<%d>: the slice has at least %d bytes" % (nn, nn), minus(minus(x[2], x[1]), {1: nn}))
                elif re.search(r"StunPacket::new$", e[1]):
                    prove("packet size <= buffer.len()", minus({"B": 1}, named_lin(args[1])))
                elif re.search(r"Vec::<.*>::(push|resize\w*|truncate|clear|pop|insert|remove|extend\w*|append|drain|split_off|shrink\w*|reserve\w*|set_len)$", e[1]) \
                        and "buffer" in repr(args[:1]):
                    failed.append("the buffer's length is changed by %s" % nm)
            elif e[0] in ("write", "write-elem"):
                obs = []
                arith_obligations(C.expr_of(pa, e[3]) if len(e) > 3 else None, obs)
                for w, g in obs:
                    prove(w, g)
        r = C.expr_of(pa, pa.ret)
        obs = []
        arith_obligations(r, obs)
        for w, g in obs:
            prove(w, g)
        kind = r[1][0].split("::")[-1] if isinstance(r, tuple) and r[0] == "Result::Ok" else "Err"
        if kind == "MoreBytesNeeded":
            st = r[1][1][1]
            if not (isinstance(st, tuple) and st[0] == "StunPacketDecoder" and len(st) == 4 and ("buffer" in repr(st[1]) or "havoc:index_mut" in repr(st[1]) or "havoc:copy_from_slice" in repr(st[1]))):
                failed.append("the returned decoder is not built from this decoder's buffer")
            else:
                cur, exp = named_lin(st[2]), st[3]
                if exp == "top:dec.expected_size":          # untouched field
                    exp = ("Option::Some", "top:dec.expected_size.some") if known == "Some" else "Option::None"
                if exp == "Option::None":
                    prove("Inv': current_size' < 20", minus({1: 19}, cur))
                elif isinstance(exp, tuple) and exp[0] == "Option::Some":
                    ev = named_lin(exp[1])
                    prove("Inv': current_size' < expected'", minus(minus(ev, cur), {1: 1}))
                    prove("Inv': expected' <= buffer.len()", minus({"B": 1}, ev))
                else:
                    failed.append("expected_size' is %s" % show(exp)[:40])
        n_obl += nob
        key = "expected=%s,%s" % (known, "%s:%s" % (kind, r[1][1][2] if kind == "MoreBytesNeeded" and r[1][1][2] == "Option::None" else "") if kind == "MoreBytesNeeded" else
                                  (kind if kind != "Err" else "Err:" + str(r[1][1]).split("::")[-1]))
        ctx.ob(rule, "path:%s" % key, not failed, ("NOT proved: " + "; ".join(failed[:3])) if failed else
               "%d obligations (ranges, copy lengths, arithmetic%s) follow from Inv and the path's comparisons" % (nob, ", Inv'" if kind == "MoreBytesNeeded" else ""),
               info["where"], replay=None if not failed else pa.describe())
    ctx.floor(rule, "decode paths", len(paths), 7)
    ctx.floor(rule, "linear obligations proved", n_obl, 40)
    # --- who builds / writes a decoder
    builders, writers = set(), set()
    for b in prog.bodies.values():
        if b.crate != "stun_agent" or "::tests" in b.path or "_tests::" in b.path or "::test" in b.path.lower().split("::")[-1][:5]:
            continue
        for blk in b.blocks:
            for st in blk["stmts"]:
                if st["k"] != "assign":
                    continue
                rv = st["rv"]
                if rv["k"] == "aggregate" and rv.get("agg") == "adt" and rv.get("adt") == DEC:
                    builders.add(b.path)
                for pe in st["place"]["p"]:
                    if pe["k"] == "field" and pe.get("adt") == DEC:
                        writers.add(b.path)
    # helpers a refactoring split off decode (new, not public, reached only from decode) are part of decode: the paths
    # replayed above run through them (E2 inlines functions that are not in anchors/known_functions.json)
    from ..absint import with_new_helpers
    parts = {b2.path for b2 in with_new_helpers(prog, prog.body(DEC + "::decode")) if not b2.is_public}
    parts = {p_ for p_ in parts if _only_called_from(prog, p_, parts | {DEC + "::decode"})} | {DEC + "::decode"}
    okb = builders <= {DEC + "::new"} and writers <= parts
    ctx.ob(rule, "who-builds-and-writes", okb and bool(builders), "decoders are built in %s; fields are written in %s" % (sorted(builders), sorted(writers)))


def _only_called_from(prog, path, allowed):
    for b in prog.bodies.values():
        if b.path in allowed:
            continue
        for cs in b.calls():
            if any(cb.path == path for cb in prog.callees(cs)):
                return False
    return True


def _rename_new(t):
    """in new(): buffer.len() plays the role of B"""
    if isinstance(t, tuple) and t and isinstance(t[0], str) and t[0].endswith("len") and "top:buffer" in repr(t):
        return ("Vec::len", "top:dec.buffer")
    return t


def check(ctx, env):
    ctx.explanation = (
        "Static: the seven paths of StunPacketDecoder::decode are explored by abstract interpretation with symbolic "
        "current_size, expected_size, data length and header length; the index ranges of every copy, the returned "
        "counts and the updated fields are reconstructed as expression trees and compared as linear forms with the "
        "conservation laws of a stream reassembler (equal copy lengths, destination at the fill level, source at the "
        "consumed offset, consumed = copied, current_size' = current_size + copied, packet size = expected size, "
        "missing = expected - current_size'); the comparisons that select each path are compared, as canonical integer linear forms, with the reassembler's decision conditions. Error paths hand the buffer back with consumed = 20 - current_size. The "
        "induction over calls and byte equality of the copies are NOT decided.")
    ctx.assumptions = ["rustc MIR", "std copy_from_slice copies exactly the source into the destination",
                       "callee models of analysis/models.py", "index safety of these ranges is decided under C03 R3.1"]
    ctx.rule("R16.1", "per-call conservation laws on every path of StunPacketDecoder::decode (linear identities over c, E, L, m)")
    ctx.rule("R16.3", "the arithmetic tests selecting each path of decode are exactly the reassembler's decision conditions "
             "(header complete iff c+L>=20; too small iff B<m+20; packet complete iff c+L>=E resp. c+L>=m+20), compared as canonical integer linear forms")
    ctx.rule("R16.2", "StunPacketDecoder::new refuses a buffer shorter than 20 bytes (handing it back) and starts empty")
    prog = env.prog("agent")
    paths, info = C.explore_fn(prog, DEC + "::decode", "dec", [r"\{closure"])
    ctx.fn(info["body"])
    c0 = "top:dec.current_size"
    L = None
    n = 0
    from .. import fm
    n_infeasible = 0
    for pa in paths:
        known = pa.choice(r"^variant\(dec\.expected_size\)$")
        # a path whose comparisons contradict each other or the class invariant (R16.4) cannot be taken: E2 explores both
        # outcomes of `0 > 0`-like tests that piecewise operations (min, checked_sub) leave behind; such paths carry no duty
        gforms, ne_tests = [], []
        for g in pa.guards():
            if g[0] in ("Eq", "Ne"):
                # a == b is the conjunction a >= b and b >= a; a != b is not convex: it selects nothing when the other
                # tests of the path already decide it (`count == remaining` after `count = min(remaining, len)`)
                if (g[3] == 1) == (g[0] == "Eq"):
                    gforms += [guard_form(("Ge", g[1], g[2], 1)), guard_form(("Ge", g[2], g[1], 1))]
                else:
                    ne_tests.append(g)
            else:
                gforms.append(guard_form(g))
        gforms += [guard_form(g) if g is not None else None for g in get_guards(pa)]
        as_fact_ = lambda f: {(1 if k == "1" else k): v for k, v in f}
        for g in ne_tests:
            lt, gt = guard_form(("Lt", g[1], g[2], 1)), guard_form(("Gt", g[1], g[2], 1))
            base_ = [{"B": 1, 1: -20}] + inv(known) + [{"L": 1}, {"m": 1}, {"m": -1, 1: 65535}] + [as_fact_(f) for f in gforms if f is not None]
            if lt is None or gt is None or not (fm.entails(base_, as_fact_(lt)) or fm.entails(base_, as_fact_(gt))):
                gforms.append(None)
        gfacts = [{(1 if k == "1" else k): v for k, v in f} for f in gforms if f is not None]
        if fm.infeasible([{"B": 1, 1: -20}] + inv(known) + [{"L": 1}, {"m": 1}, {"m": -1, 1: 65535}] + gfacts):
            n_infeasible += 1
            continue
        copies = []
        for e in pa.calls:
            if C.short(e[1]).endswith("copy_from_slice"):
                a = C.expr_of(pa, e[2])
                # each operand is (index node, '.*') or a bare slice value
                d = a[0][0] if isinstance(a[0], tuple) and len(a[0]) == 2 and a[0][1] == ".*" else a[0]
                s = a[1][0] if isinstance(a[1], tuple) and len(a[1]) == 2 and a[1][1] == ".*" else a[1]
                copies.append((d, s))
        ret = C.expr_of(pa, pa.ret)
        kind = None
        if isinstance(ret, tuple) and ret[0] == "Result::Ok":
            kind = ret[1][0].split("::")[-1]
        elif isinstance(ret, tuple) and ret[0] == "Result::Err":
            kind = "Err:" + str(ret[1][1]).split("::")[-1]
        n += 1
        key = "expected=%s,%s,copies=%d" % (known, kind, len(copies))
        probs = []
        fill = c0              # buffer fill level
        used = 0               # bytes of data consumed so far
        total = 0
        for i, (d, s) in enumerate(copies):
            # an operand is an index node (index fn, base, range), possibly nested, or a whole slice (range 0..len)
            dv, sv = view(d), view(s)
            if dv is None or sv is None or dv[2] is None or sv[2] is None or sv[0] != DATA or \
                    ("buffer" not in repr(dv[0]) and "havoc:index_mut" not in repr(dv[0])):
                probs.append("copy %d has unexpected operands %s <- %s" % (i, show(d)[:80], show(s)[:80]))
                continue
            dr, sr = (dv[1], dv[2]), (sv[1], sv[2])
            dlen = ("op:Sub", dr[1], dr[0])
            slen = ("op:Sub", sr[1], sr[0])
            if not eq(dlen, slen):
                probs.append("copy %d: destination length %s != source length %s" % (i, show(dlen)[:90], show(slen)[:90]))
            if not eq(dr[0], fill):
                probs.append("copy %d: destination starts at %s, buffer is filled up to %s" % (i, show(dr[0])[:60], show(fill)[:60]))
            if not eq(sr[0], used):
                probs.append("copy %d: source starts at %s, %s bytes of data were consumed" % (i, show(sr[0])[:60], show(used)[:60]))
            fill = ("op:Add", fill, slen)
            used = ("op:Add", used, slen)
            total = ("op:Add", total, slen)
        if L is None:
            for e in pa.calls:
                if C.short(e[1]) == "slice::len" and "top:data" in repr(e[2]):
                    L = C.expr_of(pa, ("top:" + e[4]))
        if kind == "Decoded":
            pkt, consumed = ret[1][1][1], ret[1][1][2]
            size = pkt[2] if isinstance(pkt, tuple) and pkt[0] == "StunPacket::new" else None
            if size is None:
                probs.append("Decoded without StunPacket::new: %s" % show(pkt)[:80])
            else:
                if not eq(consumed, total):
                    probs.append("consumed %s != bytes copied %s" % (show(consumed)[:80], show(total)[:80]))
                if not eq(size, fill):
                    probs.append("packet size %s != fill level %s" % (show(size)[:80], show(fill)[:80]))
                if known == "Some" and not eq(size, "top:dec.expected_size.some"):
                    probs.append("packet size %s != expected size" % show(size)[:80])
                if known == "None" and "msg_length" not in repr(size):
                    probs.append("packet size %s is not header length + 20" % show(size)[:80])
        elif kind == "MoreBytesNeeded":
            st = ret[1][1][1]
            missing = ret[1][1][2]
            if not (isinstance(st, tuple) and st[0] == "StunPacketDecoder" and len(st) == 4):
                probs.append("MoreBytesNeeded does not return the decoder: %s" % show(st)[:80])
            else:
                _n, buf, cur, exp = st
                if exp == "top:dec.expected_size":          # the field was not touched: it still has the value this path found
                    exp = ("Option::Some", "top:dec.expected_size.some") if known == "Some" else "Option::None"
                if not eq(cur, fill):
                    probs.append("current_size' = %s != fill level %s" % (show(cur)[:80], show(fill)[:80]))
                if L is not None and not eq(total, L):
                    probs.append("not all of data was copied: copied %s of %s" % (show(total)[:80], show(L)[:40]))
                if known == "Some" and exp != ("Option::Some", "top:dec.expected_size.some"):
                    probs.append("expected_size changed to %s" % show(exp)[:80])
                if isinstance(exp, tuple) and exp[0] == "Option::Some":
                    if not (isinstance(missing, tuple) and missing[0] == "Option::Some" and eq(missing[1], ("op:Sub", exp[1], cur))):
                        probs.append("missing %s != expected - current_size'" % show(missing)[:100])
                else:
                    if missing != "Option::None":
                        probs.append("missing reported (%s) before the header is known" % show(missing)[:60])
                    # header still incomplete: fill level stays below 20 by the branch condition (c + L < 20)
        elif kind and kind.startswith("Err:"):
            err = ret[1]
            if not (err[0] == "StunPacketDecodedError" and len(err) == 5):
                probs.append("unexpected error value %s" % show(err)[:80])
            else:
                _n, et, buf, size, consumed = err
                if not eq(size, 20) or not eq(fill, 20):
                    probs.append("error reported with size %s / fill level %s (must be exactly the 20 header bytes)" % (show(size)[:40], show(fill)[:60]))
                if not eq(consumed, total):
                    probs.append("error consumed %s != bytes copied %s" % (show(consumed)[:60], show(total)[:60]))
                if "buffer" not in repr(buf) and "havoc:index_mut" not in repr(buf):
                    probs.append("error does not hand the buffer back: %s" % show(buf)[:60])
                if known != "None":
                    probs.append("error produced after the header was already accepted")
        else:
            probs.append("unexpected return %s" % show(ret)[:100])
        # R16.3: the arithmetic tests that select this path
        cls = kind
        if kind == "MoreBytesNeeded":
            cls = kind if known == "Some" else "%s:%s" % (kind, "None" if ret[1][1][2] == "Option::None" else "Some")
        want = GUARDS.get((known, cls))
        got = [f for f in gforms if f is None or any(k != "1" for k, _v in f)]      # constant (trivially true) tests select nothing
        if want is None:
            ctx.ob("R16.3", key, False, "unexpected path class %s/%s" % (known, cls), info["where"], replay=pa.describe())
        else:
            # the same decision, not the same spelling: under the class invariant the conjunction of the tests taken is
            # equivalent to the reassembler's condition for this class (each side entails every test of the other)
            okg = None not in got
            if okg and sorted(set(got)) != sorted(set(want)):
                base_f = [{"B": 1, 1: -20}] + inv(known) + [{"L": 1}, {"m": 1}, {"m": -1, 1: 65535}]
                as_fact = lambda f: {(1 if k == "1" else k): v for k, v in f}
                gf, wf = [as_fact(f) for f in got], [as_fact(f) for f in want]
                okg = all(fm.entails(base_f + gf, w) for w in wf) and all(fm.entails(base_f + wf, g) for g in gf)
            ctx.ob("R16.3", key, okg, "path taken iff %s (expected %s)" % (" and ".join(fmt_form(x) for x in got), " and ".join(fmt_form(x) for x in want)),
                   info["where"], replay=None if okg else pa.describe())
        ok = not probs
        ctx.ob("R16.1", key, ok, "; ".join(probs) or "conservation laws hold (%d copies, total copied %s)" % (len(copies), show(total)[:90]),
               info["where"], replay=None if ok else pa.describe())
    ctx.floor("R16.1", "decode paths", n, 7)
    ctx.floor("R16.3", "decode paths", n, 7)
    kinds = {}
    # new()
    paths, info = C.explore_fn(prog, DEC + "::new", "x", [r"\{closure"])
    ctx.fn(info["body"])
    for pa in paths:
        r = C.expr_of(pa, pa.ret)
        small = None
        forms = [guard_form((g[0], _rename_new(g[1]), _rename_new(g[2]), g[3])) for g in pa.guards()]
        if forms == [form(B=-1, one=19)]:
            small = True                # taken iff buffer.len() <= 19
        elif forms == [form(B=1, one=-20)]:
            small = False               # taken iff buffer.len() >= 20
        if small is None:
            ctx.ob("R16.2", "new:test", False, "new() does not split exactly at buffer.len() < 20: path taken iff %s" % [fmt_form(f) for f in forms], info["where"])
            continue
        if small:
            ok = isinstance(r, tuple) and r[0] == "Result::Err" and r[1][0] == "StunPacketDecodedError" and "SmallBuffer" in repr(r[1][1]) \
                and r[1][2] == "top:buffer" and r[1][3] == 0 and r[1][4] == 0
        else:
            ok = isinstance(r, tuple) and r[0] == "Result::Ok" and r[1] == ("StunPacketDecoder", "top:buffer", 0, "Option::None")
        ctx.ob("R16.2", "new:small=%s" % small, ok, "new -> %s" % show(r)[:160], info["where"])
    ctx.floor("R16.2", "new paths", len(paths), 2)
    r16_4_invariant(ctx, prog)
    # "a stream whose next 20 bytes are not a STUN header" is judged by MessageHeader::decode (same rule as C02 R2.10)
    from . import c02
    c02.r2_10_header_validation(ctx, prog, rule="R16.5")
