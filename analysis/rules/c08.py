"""C08 - long-term credentials: challenge, retry and authenticated delivery (structural clauses)."""
from . import mech_rules as M


def check(ctx, env):
    ctx.explanation = (
        "Static, compositional: every function of the long-term mechanism is explored by abstract interpretation with its "
        "workspace callees treated as logged opaque calls whose contracts are established by exploring them separately: "
        "request decoration per state (R8.1), state/class dispatch (R8.2), process_error_response over every admitted "
        "attribute sequence - the protected iterator replaced by its specification, which C09 R9.3 proves equivalent to "
        "the code - (R8.3), write-after-authenticate in the 401/438 handlers (R8.4), credential derivation and "
        "authenticated delivery (R8.5), password taint (R8.6). Acceptance of the concrete bytes by an RFC 8489 9.2.4 "
        "server and MAC values are NOT decided.")
    ctx.assumptions = ["rustc MIR", "callee models of analysis/models.py",
                       "ProtectedAttributeIteratorObject::next == RFC automaton (checked in this run by R9.3)",
                       "error code touched only through == 401 / == 438 (constants checked)",
                       "modular reasoning: a callee's effect depends only on its arguments and the mechanism object"]
    prog = env.prog("agent")
    from . import c09
    c09.r93(ctx, prog)
    M.r8_1_decoration(ctx, prog)
    M.r8_2_dispatch(ctx, prog)
    M.r8_3_error_dispatch(ctx, prog)
    M.r8_4_write_after_auth(ctx, prog)
    M.r8_5_derivation(ctx, prog)
    M.r8_6_password_taint(ctx, prog)
    from . import codec_rules as K
    K.r4_5_siblings(ctx, prog, rule="R8.7")
    from . import c02
    c02.r2_12_security_features(ctx, prog, rule="R8.9")      # which cookie bit means what (anonymity / password algorithms)
    if env.tier == "thorough":
        M.r8_8_lt_end_to_end(ctx, prog)
