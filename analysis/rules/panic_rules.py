"""E1 rules: no reachable panic (C03 R3.1, C14 R14.1/R14.2, C19 R19.1) + data-flow clauses."""
import json, os, re
from .. import panics, prover
from ..facts import AnchorMissing

VERIF = os.path.dirname(os.path.dirname(os.path.dirname(os.path.abspath(__file__))))
BUDGET_FILE = os.path.join(VERIF, "anchors", "panic_budget.json")


def load_budget():
    if not os.path.exists(BUDGET_FILE):
        return {}
    out = {}
    for e in json.load(open(BUDGET_FILE))["entries"]:
        out[(e["fn"], e["site"])] = e
    return out


def site_key(s):
    return (s.fn.path, "%s|%s" % (s.kind, s.detail))


def inventory(ctx, prog, rule, entries, stop=()):
    seen, ext, indirect = panics.reachable(prog, entries, stop)
    bad_ext = panics.unclassified_externals(ext)
    ctx.ob(rule, "external-callees-classified", not bad_ext,
           "%d external callees reachable, unclassified third-party: %s" % (len(ext), bad_ext[:6] or "none"))
    return seen, ext, indirect


def check_sites(ctx, prog, rule, prop, seen, config_label="", exclude_fn=None, only_kinds=None):
    """discharge every site of every reachable body or count it against the reviewed budget.
    returns statistics."""
    budget = load_budget()
    groups = {}
    n_sites = n_dis = n_bud = 0
    used = set()
    for key in sorted(seen):
        b = prog.bodies[key]
        if exclude_fn and exclude_fn(b):
            continue
        ss = panics.sites_of(b)
        if only_kinds:
            ss = [s for s in ss if s.kind in only_kinds]
        if not ss:
            continue
        ctx.fn(b)
        pr = prover.Prover(b)
        for s in ss:
            n_sites += 1
            try:
                ok, why = pr.discharge(s)
            except Exception as e:  # the prover must never take the check down: undischarged
                ok, why = False, "prover error %r" % (e,)
            g = groups.setdefault(site_key(s), {"sites": [], "undischarged": [], "fn": b})
            g["sites"].append(s)
            if ok:
                n_dis += 1
            else:
                g["undischarged"].append((s, why))
    for (fnp, sk), g in sorted(groups.items()):
        und = g["undischarged"]
        total = len(g["sites"])
        b = g["fn"]
        be = budget.get((fnp, sk))
        allowed = be["max"] if be is not None and (not be.get("props") or prop in be["props"]) else 0
        if be is not None:
            used.add((fnp, sk))
        n_bud += min(len(und), allowed)
        ok = len(und) <= allowed
        if ok:
            detail = "%d site(s): %d discharged by the prover, %d within the reviewed budget (max %d%s)" % (
                total, total - len(und), len(und), allowed, (": " + be["reason"]) if be is not None and und else "")
            ctx.ob(rule, "sites:%s:%s%s" % (fnp, sk, config_label), True, detail, b.where(),
                   sample={"function": fnp, "site": sk, "sites": total, "discharged": total - len(und),
                           "budgeted": len(und), "example": und[0][1] if und else "all discharged"})
        else:
            s, why = und[allowed] if allowed < len(und) else und[-1]
            ctx.ob(rule, "sites:%s:%s%s" % (fnp, sk, config_label), False,
                   "%d potential panic site(s) `%s` in %s are neither discharged nor budgeted (budget %d): e.g. line %s: %s"
                   % (len(und) - allowed, sk, fnp, allowed, s.line, why), s.where(),
                   replay={"function": fnp, "site": sk, "undischarged": [{"line": x.line, "why": w, "callee": x.callee} for x, w in und],
                           "budget": allowed})
    return {"sites": n_sites, "discharged": n_dis, "budgeted": n_bud, "groups": len(groups), "budget_used": len(used)}


def entry_bodies(prog, names):
    out = []
    for n in names:
        out.append(prog.body(n))
    return out
