"""E1 rules: no reachable panic (C03 R3.1, C14 R14.1/R14.2, C19 R19.1) + data-flow clauses."""
import json, os, re
from .. import panics, prover
from ..facts import AnchorMissing

VERIF = os.path.dirname(os.path.dirname(os.path.dirname(os.path.abspath(__file__))))
BUDGET_FILE = os.path.join(VERIF, "anchors", "panic_budget.json")


def load_budget():
    if not os.path.exists(BUDGET_FILE):
        return {}
    out = {}
    for e in json.load(open(BUDGET_FILE))["entries"]:
        out[(e["fn"], e["site"])] = e
    return out


def site_key(s):
    return (s.fn.path, "%s|%s" % (s.kind, s.detail))


def inventory(ctx, prog, rule, entries, stop=()):
    seen, ext, indirect = panics.reachable(prog, entries, stop)
    bad_ext = panics.unclassified_externals(ext)
    ctx.ob(rule, "external-callees-classified", not bad_ext,
           "%d external callees reachable, unclassified third-party: %s" % (len(ext), bad_ext[:6] or "none"))
    return seen, ext, indirect


def _from_param(body, local, depth=0):
    """is `local` a copy / integer cast of the function's first parameter?"""
    if local == 1:
        return True
    if depth > 6:
        return False
    defs = []
    for blk in body.blocks:
        for st in blk["stmts"]:
            if st["k"] == "assign" and st["place"]["l"] == local and not st["place"]["p"]:
                defs.append(st["rv"])
    if len(defs) != 1 or defs[0]["k"] not in ("use", "cast"):
        return False
    op = defs[0]["op"]
    return op["k"] in ("copy", "move") and not op["place"]["p"] and _from_param(body, op["place"]["l"], depth + 1)


def premise_removable_ascii(ctx, prog, rule):
    """premise of the budget entries of strings::formatted_quoted_string_from: the helpers count *characters* and the
    caller slices by *bytes*; that is sound only while every removable character is one byte long, i.e. ASCII.  Every
    path of is_removable_character that may return true must pin its argument to a code point < 0x80."""
    from .. import client as C
    paths, info = C.explore_fn(prog, "stun_rs::strings::is_removable_character", "x", [])
    body = info["body"]
    ctx.fn(body)
    n = 0
    for pa in paths:
        if pa.ret == 0:
            continue
        n += 1
        pins = []
        for op, a, b, v in pa.guards():
            for x, y in ((a, b), (b, a)):
                if x == "top:c" and isinstance(y, int):
                    if op == "Eq" and v == 1 and y < 0x80:
                        pins.append("c == %#x" % y)
                    if (op == "Lt" and v == 1 and y <= 0x80 and x is a) or (op == "Le" and v == 1 and y < 0x80 and x is a):
                        pins.append("c < %#x" % (y if op == "Lt" else y + 1))
                    if (op == "Ge" and v == 0 and y <= 0x80 and x is a) or (op == "Gt" and v == 0 and y < 0x80 and x is a):
                        pins.append("c < %#x" % (y if op == "Ge" else y + 1))
        for nme, val in pa.choices:
            m = re.match(r"switch@.*:bb(\d+)$", str(nme))
            if m and val != "otherwise" and int(val) < 0x80:
                d = body.blocks[int(m.group(1))]["term"]["discr"]
                if d["k"] in ("copy", "move") and not d["place"]["p"] and _from_param(body, d["place"]["l"]):
                    pins.append("c == %#x" % int(val))
        for e in pa.calls:
            if re.search(r"char::methods::<impl char>::is_ascii(_\w+)?$|^char::is_ascii", e[1]) and "top:c" in repr(e[2]):
                if pa.choice(r"^ret:%s@" % e[1].split("::")[-1]) == 1 or (isinstance(pa.ret, str) and e[4] in pa.ret):
                    pins.append(e[1].split("::")[-1])
        r = pa.ret
        if isinstance(r, str) and r.startswith("sym:cmp:Eq:('t', 'c'):('c', "):
            k = int(r.split("('c', ")[1].rstrip(")"))
            if k < 0x80:
                pins.append("returns c == %#x" % k)
        ctx.ob(rule, "removable-ascii:%s" % (pins[0] if pins else "unpinned:%s" % str(pa.ret)[:40]), bool(pins),
               "is_removable_character may return true with %s" % (", ".join(pins) if pins else "no test pinning c below 0x80 (result %s; calls %s)"
                                                                % (str(pa.ret)[:60], pa.call_names())), info["where"],
               replay=None if pins else pa.describe())
    ctx.floor(rule, "accepting paths of is_removable_character", n, 1)


def premise_error_code(ctx, prog, rule):
    from .c19 import r19_3_error_code_invariant
    r19_3_error_code_invariant(ctx, prog, rule=rule)


def premise_distinct_codes(ctx, prog, rule):
    from .c01 import type_codes
    codes = type_codes(ctx, prog, rule)
    vals = [v[0] for v in codes.values()]
    dups = sorted({c for c in vals if vals.count(c) > 1})
    ctx.ob(rule, "distinct-codes", not dups and len(codes) >= 10, "%d type codes, duplicates: %s" % (len(codes), dups or "none"))


def premise_reassembler(ctx, prog, rule):
    from .c16 import r16_4_invariant
    from .. import extract, facts
    # the reassembler lives in stun-agent: use the agent facts whatever configuration the caller analyses
    p2 = prog if any(b.path == "stun_agent::StunPacketDecoder::decode" for b in prog.bodies.values()) else \
        facts.Program(extract.extract("agent"), label="agent")
    r16_4_invariant(ctx, p2, rule=rule)


def premise_iterator(ctx, prog, rule):
    from .iter_rules import r3_5_iterator
    r3_5_iterator(ctx, prog, rule=rule)


def premise_encode_loop(ctx, prog, rule):
    from .enc_loop_rules import r14_6_encode_loop
    r14_6_encode_loop(ctx, prog, rule=rule)


# machine-checked premises of reviewed budget entries: `requires` text in anchors/panic_budget.json -> checker
PREMISES = {
    "is_removable_character accepts only code points < 0x80": premise_removable_ascii,
    "range test in ErrorCode::new and ErrorCode::decode": premise_error_code,
    "C01 R1.2": premise_distinct_codes,
    "reassembler invariant (C16 R16.4)": premise_reassembler,
    "attribute iterator invariant (C03 R3.5)": premise_iterator,
    "encode loop invariant (C14 R14.6)": premise_encode_loop,
}


# premises that replay every path of a function and prove every obligation of these site kinds in it: the reviewed count of
# such an entry is not a limit (a refactoring may write one more slice expression; the premise then has one more
# obligation to prove, and fails if it cannot)
_LIN_KINDS = ("assert|Overflow:Add:usize", "assert|Overflow:Sub:usize", "slice-index|", "vec-index|",
              "slice-op|core::slice::copy_from_slice", "slice-op|core::slice::split_at")
COVERED_BY_PREMISE = {
    ("reassembler invariant (C16 R16.4)", "stun_agent::StunPacketDecoder::decode"): _LIN_KINDS,
    ("attribute iterator invariant (C03 R3.5)", "<stun_rs::raw::RawAttributesIter<'a> as fallible_iterator::FallibleIterator>::next"): _LIN_KINDS,
    ("attribute iterator invariant (C03 R3.5)", "stun_rs::context::MessageDecoder::decode"): _LIN_KINDS,
    ("attribute iterator invariant (C03 R3.5)", "stun_rs::raw::get_input_text"): _LIN_KINDS,
    ("encode loop invariant (C14 R14.6)", "stun_rs::context::MessageEncoder::encode"): _LIN_KINDS,
}


def check_premises(ctx, prog, rule, required):
    """every budget entry that was used and names a premise gets that premise evaluated in the same check"""
    prule = rule + "p"
    ctx.rule(prule, "premises of the reviewed budget entries used by %s are themselves decided (ASCII-only removable characters; "
                    "ErrorCode range invariant; pairwise distinct attribute codes; the reassembler's class invariant)" % rule)
    done = getattr(ctx, "_premises_done", set())
    for req in sorted(required):
        if (prule, req) in done:
            continue
        done.add((prule, req))
        fn = PREMISES.get(req)
        if fn is None:
            ctx.ob(prule, "premise:%s" % req, False, "budget entry relies on `%s`, for which no checker exists" % req)
            continue
        fn(ctx, prog, prule)
    ctx._premises_done = done


def _std_upper(name):
    m0 = re.match(r"(?:num|usize|u64|u32)::from\((.*)\)$|(?:T|u16|u8)::into\((.*)\)$", name)
    if m0:
        return _std_upper(m0.group(1) or m0.group(2))     # a lossless integer conversion keeps the bound
    mw = re.match(r"u(8|16|32)::from_be_bytes\(", name)
    if mw:
        return (1 << int(mw.group(1))) - 1          # the width is in the name
    m = re.match(r"(?:num|u\d+)::from_be_bytes\(array\((.*)\)\)$", name)
    if m:
        k = m.group(1).count(", ") + 1
        if k in (1, 2, 4):
            return (1 << (8 * k)) - 1
    if name.startswith("BigEndian::read_u16("):
        return 65535
    if name.endswith(".msg_length)") and "MessageHeader" in name:
        return 65535                                # a u16 field of the decoded header
    if name.startswith("common::padding("):
        return 3
    return None


def _std_contracts():
    """callee contracts the whole-function route may assume; each is established elsewhere in the same check family:
    check_buffer_boundaries / fill_padding_value / slice::get (R3.5, R14.6), encoders Ok(n) => n <= len(output) (R14.4)"""
    from .. import linproof as LP
    from .. import client as C

    def c_cbb(w, e, args, suffix, variant):
        if suffix == "" and variant == "Ok":
            return [LP.add(w.L.len_lin(args[0]), w.L.lin(args[1]), -1)]
        return []

    def c_get(w, e, args, suffix, variant):
        if suffix == "" and variant == "Some" and len(args) == 2 and isinstance(args[1], tuple) and args[1][0] == "Range":
            a, b = w.L.lin(args[1][1]), w.L.lin(args[1][2])
            return [LP.add(b, a, -1), LP.add(w.L.len_lin(args[0]), b, -1)]
        return []

    def c_enc(w, e, args, suffix, variant):
        # X::encode(&value, &mut slice) = Ok(n) => n <= len(slice)
        if suffix == "" and variant == "Ok" and len(args) == 2:
            n = w.L.lin(((C.short(e[1]),) + tuple(args), ".ok"))
            return [LP.add(w.L.len_lin(args[1]), n, -1)]
        return []
    INT = {"u16": 2, "u32": 4, "u64": 8}

    def c_int_enc(w, e, args, suffix, variant):
        # <impl Encode for uN>::encode(&v, buf) = Ok(n) => n == N <= len(buf)      (verified: _int_codecs_ok)
        m = re.search(r"<impl stun_rs::Encode for (u16|u32|u64)>::encode$", e[1])
        if m and suffix == "" and variant == "Ok" and len(args) == 2:
            n = w.L.lin(((C.short(e[1]),) + tuple(args), ".ok"))
            k = INT[m.group(1)]
            return [LP.add(n, {1: -k}), LP.add({1: k}, n, -1), LP.add(w.L.len_lin(args[1]), {1: -k})]
        return []

    def c_int_dec(w, e, args, suffix, variant):
        # <impl Decode for uN>::decode(buf) = Ok((v, n)) => n == N <= len(buf)
        m = re.search(r"<impl stun_rs::Decode<'\w+> for (u16|u32|u64)>::decode$", e[1])
        if m and suffix == "" and variant == "Ok" and len(args) == 1:
            n = w.L.lin(((C.short(e[1]),) + tuple(args), ".ok.1"))
            k = INT[m.group(1)]
            return [LP.add(n, {1: -k}), LP.add({1: k}, n, -1), LP.add(w.L.len_lin(args[0]), {1: -k})]
        return []

    def c_fixed1(w, e, args, suffix, variant):
        # AddressFamily / ProtocolNumber encode: Ok(1), one byte written after check_buffer_boundaries(buf, 1)
        if suffix == "" and variant == "Ok" and len(args) == 2:
            n = w.L.lin(((C.short(e[1]),) + tuple(args), ".ok"))
            return [LP.add(n, {1: -1}), LP.add({1: 1}, n, -1), LP.add(w.L.len_lin(args[1]), {1: -1})]
        return []
    def c_header(w, e, args, suffix, variant):
        # MessageHeader::decode(b) = Ok((_, n)) => n == 20 <= len(b)   (decided by R2.10 / R16.5)
        if suffix == "" and variant == "Ok":
            n = w.L.lin(((C.short(e[1]),) + tuple(args), ".ok.1"))
            return [LP.add(n, {1: -20}), LP.add({1: 20}, n, -1), LP.add(w.L.len_lin(args[0]), {1: -20})]
        return []
    return [(r"MessageHeader<'\w+> as stun_rs::Decode<'\w+>>::decode$", c_header),
            (r"<impl stun_rs::Encode for (u16|u32|u64)>::encode$", c_int_enc), (r"<impl stun_rs::Decode<'\w+> for (u16|u32|u64)>::decode$", c_int_dec),
            (r"<stun_rs::(types::AddressFamily|protocols::ProtocolNumber) as stun_rs::Encode>::encode$", c_fixed1),
            (r"common::check_buffer_boundaries$", c_cbb), (r"common::fill_padding_value$", c_cbb),
            (LP.SLICE_GET_RX, LP.c_slice_get),
            (r" as stun_rs::Encode>::encode$|<impl stun_rs::Encode for .*>::encode$", c_enc)]


PROVABLE_KINDS = {"assert", "slice-index", "vec-index", "slice-op", "byteorder"}
_fn_proofs = {}


_helpers = {}


def _safe_helpers(prog):
    k = id(prog)
    if k not in _helpers:
        from ..cfg import cfg_of
        out = []
        later = []
        for hb in prog.bodies.values():
            if hb.crate not in ("stun_rs", "stun_agent") or hb.kind not in ("Fn", "AssocFn") or len(hb.blocks) > 14:
                continue
            if re.search(r"::(encode|decode|post_encode|validate|verify|fmt|new|from|try_from|into)$|check_buffer_boundaries$|fill_padding_value$|xor_|get_input_text", hb.path):
                continue
            try:
                if cfg_of(hb).loop_heads():
                    continue
            except Exception:
                continue
            if panics.sites_of(hb):
                later.append(hb)
                continue
            out.append(hb.path)
        mk = lambda names: ["^(%s)$" % "|".join(re.escape(x) for x in sorted(names))] if names else []
        _helpers[k] = mk(out)
        # second phase: small helpers whose own few sites are proved (constant arithmetic over match arms, ...) are safe to
        # step into as well; they are proved with the first-phase set, so there is no circularity
        more = []
        for hb in later:
            if len(panics.sites_of(hb)) <= 4 and prove_function(prog, hb)[0]:
                more.append(hb.path)
        _helpers[k] = mk(out + more)
    return _helpers[k]


def prove_function(prog, b):
    """second discharge route for a whole function: explore it with concrete iterators (loops over fixed-size arrays
    and constant ranges unroll) and MIR assertions logged, and prove every bounds / overflow / slice obligation met on
    every path by linear reasoning (analysis/linproof.py).  Only attempted when every site of the function is of a
    kind this route covers; -> (ok, obligations, why)"""
    k = (id(prog), b.key)
    if k in _fn_proofs:
        return _fn_proofs[k]
    from .. import client as C
    from .. import linproof as LP
    res = (False, 0, "not attempted")
    try:
        sites = panics.sites_of(b)
        if any(s_.kind not in PROVABLE_KINDS for s_ in sites):
            res = (False, 0, "has sites of kinds %s" % sorted({s_.kind for s_ in sites} - PROVABLE_KINDS))
        elif b.kind == "Closure":
            res = (False, 0, "closure (captured state unknown)")
        elif len(b.blocks) > 90:
            res = (False, 0, "large function (%d blocks): needs a dedicated invariant" % len(b.blocks))
        else:
            # stepped into: closures and the small helpers of the workspace that have no panic site of their own and no
            # loop (getters, size functions); everything else stays opaque and is represented by its contract
            step = [r"\{closure"] + _safe_helpers(prog) + ["^" + re.escape(b.path) + "$"]
            paths, info = C.explore_fn(prog, b.path, "x", step, concrete_iters=True, log_asserts=True, memo_shared=True, max_paths=400)
            if info["bounded"] or not paths:
                res = (False, 0, "exploration incomplete")
            else:
                n = 0
                failed = []
                import time as _t
                t_end = _t.time() + 20
                for pa in paths:
                    if _t.time() > t_end:
                        failed.append("time budget of the whole-function route exceeded")
                        break
                    if any("widened" in repr(e) for e in pa.log if e[0] in ("assert", "call")):
                        failed.append("loop with an unknown bound (widened counter)")
                        break
                    w = LP.Walker(pa, [], contracts=_std_contracts(), upper=_std_upper).run()
                    n += w.n
                    failed.extend(w.failed)
                    if failed:
                        break
                res = (not failed and n > 0, n, "; ".join(failed[:2]) or "%d linear obligations on %d paths" % (n, len(paths)))
    except Exception as e:      # never take the check down: not proved
        res = (False, 0, "prover error %r" % (e,))
    _fn_proofs[k] = res
    return res


def _fn_value_uses(prog, key):
    """is the function used as a value (function pointer / passed to a combinator) anywhere in the workspace?"""
    def walk(x, skip_func=False):
        if isinstance(x, dict):
            fn = x.get("fn")
            if isinstance(fn, dict) and key in (fn.get("rkey"), fn.get("key")):
                return True
            return any(walk(v) for k, v in x.items() if not (skip_func and k == "func"))
        if isinstance(x, list):
            return any(walk(v) for v in x)
        return False
    for b in prog.bodies.values():
        for blk in b.blocks:
            if walk(blk.get("stmts", [])) or walk(blk["term"], skip_func=True):
                return True
    return False


_ctx_proofs = {}


def _premise_of_callers(prog, b, depth=0):
    """the premise (COVERED_BY_PREMISE) shared by every caller of a new non-public helper, following chains of such helpers"""
    from ..absint import _known_functions
    known = _known_functions()
    if not known or b.path in known or b.is_public or b.kind not in ("Fn", "AssocFn") or depth > 4 or _fn_value_uses(prog, b.key):
        return None
    prems = set()
    n = 0
    for cb in prog.bodies.values():
        if cb.key == b.key:
            continue
        if any(x.key == b.key for cs in cb.calls() for x in prog.callees(cs)):
            n += 1
            ps = {pr for (pr, fnp) in COVERED_BY_PREMISE if fnp == cb.path}
            if not ps:
                p2 = _premise_of_callers(prog, cb, depth + 1)
                ps = {p2} if p2 else set()
            if len(ps) != 1:
                return None
            prems |= ps
    return prems.pop() if n and len(prems) == 1 else None


def prove_in_callers(prog, b):
    """third discharge route, for a helper a refactoring introduced (not in anchors/known_functions.json) that is not
    public: its panic sites are safe only under its callers' checks, so each caller is explored with the helper inlined and
    every bounds / overflow obligation that originates inside the helper is proved from the facts the caller established
    before the call.  -> (ok, obligations, why)"""
    k = (id(prog), b.key)
    if k in _ctx_proofs:
        return _ctx_proofs[k]
    from .. import client as C
    from .. import linproof as LP
    from ..absint import _known_functions
    res = (False, 0, "not attempted")
    try:
        known = _known_functions()
        sites = panics.sites_of(b)
        target = b                      # the function whose callers give the context: a closure belongs to its function
        if b.kind == "Closure":
            op_ = re.sub(r"(::\{closure#\d+\})+$", "", b.path)
            target = next((x for x in prog.bodies.values() if x.path == op_), None)
        # a closure of a known function that is handed to an iterator adaptor (`for_each`, `fold`, ..): its context is that
        # function, explored with the adaptor run as the loop it abbreviates
        own_closure = b.kind == "Closure" and target is not None and target.path in (known or ()) and target.kind in ("Fn", "AssocFn")
        if own_closure and b.crate in ("stun_rs", "stun_agent") and not any(s_.kind not in PROVABLE_KINDS for s_ in sites):
            res = _prove_closure_in_parent(prog, b, target)
        elif target is None or not known or target.path in known or b.crate not in ("stun_rs", "stun_agent"):
            res = (False, 0, "not a new helper")
        elif target.is_public or target.kind not in ("Fn", "AssocFn"):
            res = (False, 0, "public or not a plain function: callers unknown")
        elif any(s_.kind not in PROVABLE_KINDS for s_ in sites):
            res = (False, 0, "has sites of kinds %s" % sorted({s_.kind for s_ in sites} - PROVABLE_KINDS))
        elif _fn_value_uses(prog, target.key):
            res = (False, 0, "used as a function value")
        else:
            callers = {}
            for cb in prog.bodies.values():
                for cs in cb.calls():
                    if any(x.key == target.key for x in prog.callees(cs)):
                        callers[cb.key] = cb
            callers.pop(target.key, None)
            callers.pop(b.key, None)
            if not callers:
                res = (False, 0, "no caller in the workspace")
            else:
                import time as _t
                t_end = _t.time() + 30
                n = 0
                failed = []
                for cb in callers.values():
                    if cb.kind == "Closure" or len(cb.blocks) > 120:
                        failed.append("caller %s is a closure or too large" % cb.path)
                        break
                    step = [r"\{closure"] + _safe_helpers(prog) + ["^" + re.escape(cb.path) + "$"]
                    paths, info = C.explore_fn(prog, cb.path, "x", step, concrete_iters=True, log_asserts=True, memo_shared=True, max_paths=400)
                    if info["bounded"] or not paths:
                        failed.append("exploration of caller %s incomplete" % cb.path)
                        break
                    n0 = n
                    for pa in paths:
                        if _t.time() > t_end:
                            failed.append("time budget exceeded")
                            break
                        if any("widened" in repr(e) for e in pa.log if e[0] in ("assert", "call") and LP.origin_of(e) == b.path):
                            failed.append("loop with an unknown bound (widened counter)")
                            break
                        w = LP.Walker(pa, [], contracts=_std_contracts(), upper=_std_upper)
                        w.only = {b.path}
                        w.run()
                        n += w.n_only
                        failed.extend("in caller %s: %s" % (C.short(cb.path), f) for f in w.failed)
                        if failed:
                            break
                    if failed:
                        break
                    if n == n0:
                        failed.append("caller %s never reaches the helper's sites" % cb.path)
                        break
                res = (not failed and n > 0, n, "; ".join(failed[:2]) or "%d linear obligations in %d caller(s)" % (n, len(callers)))
    except Exception as e:      # never take the check down: not proved
        res = (False, 0, "prover error %r" % (e,))
    _ctx_proofs[k] = res
    return res


def _prove_closure_in_parent(prog, b, parent):
    from .. import client as C
    from .. import linproof as LP
    import time as _t
    if len(parent.blocks) > 120:
        return (False, 0, "parent too large")
    step = [r"\{closure"] + _safe_helpers(prog) + ["^" + re.escape(parent.path) + "$"]
    paths, info = C.explore_fn(prog, parent.path, "x", step, concrete_iters=True, log_asserts=True, memo_shared=True, max_paths=400,
                               adaptor_loops=True)
    if info["bounded"] or not paths:
        return (False, 0, "exploration of %s incomplete" % parent.path)
    t_end = _t.time() + 30
    n = 0
    failed = []
    for pa in paths:
        if _t.time() > t_end:
            failed.append("time budget exceeded")
            break
        if any("widened" in repr(e) for e in pa.log if e[0] in ("assert", "call") and LP.origin_of(e) == b.path):
            failed.append("loop with an unknown bound (widened counter)")
            break
        w = LP.Walker(pa, [], contracts=_std_contracts(), upper=_std_upper)
        w.only = {b.path}
        w.run()
        n += w.n_only
        failed.extend("in %s: %s" % (C.short(parent.path), f) for f in w.failed)
        if failed:
            break
    if not failed and n == 0:
        failed.append("%s never reaches the closure's sites" % parent.path)
    return (not failed and n > 0, n, "; ".join(failed[:2]) or "%d linear obligations in the closure's function" % n)


def check_sites(ctx, prog, rule, prop, seen, config_label="", exclude_fn=None, only_kinds=None):
    """discharge every site of every reachable body or count it against the reviewed budget.
    returns statistics."""
    budget = load_budget()
    required = set()
    groups = {}
    n_sites = n_dis = n_bud = 0
    used = set()
    for key in sorted(seen):
        b = prog.bodies[key]
        if exclude_fn and exclude_fn(b):
            continue
        ss = panics.sites_of(b)
        if only_kinds:
            ss = [s for s in ss if s.kind in only_kinds]
        if not ss:
            continue
        ctx.fn(b)
        pr = prover.Prover(b)
        for s in ss:
            n_sites += 1
            try:
                ok, why = pr.discharge(s)
            except Exception as e:  # the prover must never take the check down: undischarged
                ok, why = False, "prover error %r" % (e,)
            g = groups.setdefault(site_key(s), {"sites": [], "undischarged": [], "fn": b})
            g["sites"].append(s)
            if ok:
                n_dis += 1
            else:
                g["undischarged"].append((s, why))
    # second route: whole-function linear proof over unrolled loops, for functions the site prover could not finish
    for fnb in {g["fn"].key: g["fn"] for g in groups.values() if g["undischarged"]}.values():
        ok, nobl, why = prove_function(prog, fnb)
        if ok:
            for (fnp, sk), g in groups.items():
                if g["fn"].key == fnb.key and g["undischarged"]:
                    n_dis += len(g["undischarged"])
                    g["unrolled"] = "%d site(s) discharged by the unrolled linear proof of the function (%s)" % (len(g["undischarged"]), why)
                    g["undischarged"] = []
    # a non-public helper split off a function whose premise replays it whole (the helper is inlined there): the premise
    # covers the helper's sites of the linear kinds as well
    for fnb in {g["fn"].key: g["fn"] for g in groups.values() if g["undischarged"]}.values():
        prem = _premise_of_callers(prog, fnb)
        if prem is None:
            continue
        for (fnp, sk), g in groups.items():
            if g["fn"].key == fnb.key and g["undischarged"] and any(sk.startswith(k) for k in _LIN_KINDS):
                n_bud += len(g["undischarged"])
                required.add(prem)
                g["unrolled"] = "%d site(s) covered by the premise `%s` of the only caller(s), which replays this helper inline" % (len(g["undischarged"]), prem)
                g["undischarged"] = []
    # third route: a non-public helper introduced by a refactoring, proved in the context of each of its callers
    for fnb in {g["fn"].key: g["fn"] for g in groups.values() if g["undischarged"]}.values():
        ok, nobl, why = prove_in_callers(prog, fnb)
        if ok:
            for (fnp, sk), g in groups.items():
                if g["fn"].key == fnb.key and g["undischarged"]:
                    n_dis += len(g["undischarged"])
                    g["unrolled"] = "%d site(s) discharged in the context of the callers (%s)" % (len(g["undischarged"]), why)
                    g["undischarged"] = []
    spent = {}
    for (fnp, sk), g in sorted(groups.items()):
        und = g["undischarged"]
        total = len(g["sites"])
        b = g["fn"]
        be = budget.get((fnp, sk))
        bkey = (fnp, sk)
        if be is None and und:
            # a non-public helper that a refactoring split off a budgeted function shares that function's reviewed entry:
            # the sites moved with the code, the total stays bounded by the same reviewed count
            from ..absint import owning_functions, _known_functions
            if _known_functions() and fnp not in _known_functions() and not b.is_public:
                owners = owning_functions(prog, b)
                if len(owners) == 1:
                    o = next(iter(owners))
                    if budget.get((o, sk)) is not None:
                        be, bkey = budget.get((o, sk)), (o, sk)
                    elif sk.startswith("unwrap|"):
                        # `x.try_into().unwrap()` rewritten as `first_chunk().expect(..)`: one reviewed "cannot fail" site of the
                        # owner, whatever the spelling of the unwrap
                        alt = [k_ for k_ in budget if k_[0] == o and k_[1].startswith("unwrap|")]
                        if len(alt) == 1:
                            be, bkey = budget.get(alt[0]), alt[0]
        if be is None and und and sk.startswith("unwrap|"):
            # the same reviewed "cannot fail" conversion spelled with the other unwrap (`buf[..20].try_into().unwrap()` ->
            # `buf.first_chunk().unwrap()`): the function's single unwrap entry is shared, its count still bounds the total
            alt = [k_ for k_ in budget if k_[0] == fnp and k_[1].startswith("unwrap|")]
            if len(alt) == 1:
                be, bkey = budget.get(alt[0]), alt[0]
        allowed = be["max"] if be is not None and (not be.get("props") or prop in be["props"]) else 0
        allowed = max(0, allowed - spent.get(bkey, 0))
        if be is None and und and any(sk.startswith(k) for k in _LIN_KINDS):
            # a site kind the function did not have before (split_at for an index pair, ...) in a function whose premise
            # replays it whole: the premise has to prove it
            prem = [pr for (pr, f_) in COVERED_BY_PREMISE if f_ == fnp]
            if prem:
                be = {"max": len(und), "requires": prem[0], "reason": "covered by the premise that replays the whole function"}
                allowed = len(und)
        if allowed and und and any(sk.startswith(k) for k in COVERED_BY_PREMISE.get((be.get("requires"), fnp), ())):
            allowed = max(allowed, len(und))
        if be is not None:
            used.add(bkey)
        n_bud += min(len(und), allowed)
        spent[bkey] = spent.get(bkey, 0) + min(len(und), allowed)
        if be is not None and und and allowed and be.get("requires"):
            required.add(be["requires"])
        ok = len(und) <= allowed
        if ok:
            detail = "%d site(s): %d discharged by the prover, %d within the reviewed budget (max %d%s)%s" % (
                total, total - len(und), len(und), allowed, (": " + be["reason"]) if be is not None and und else "",
                ("; " + g["unrolled"]) if g.get("unrolled") else "")
            ctx.ob(rule, "sites:%s:%s%s" % (fnp, sk, config_label), True, detail, b.where(),
                   sample={"function": fnp, "site": sk, "sites": total, "discharged": total - len(und),
                           "budgeted": len(und), "example": und[0][1] if und else "all discharged"})
        else:
            s, why = und[allowed] if allowed < len(und) else und[-1]
            ctx.ob(rule, "sites:%s:%s%s" % (fnp, sk, config_label), False,
                   "%d potential panic site(s) `%s` in %s are neither discharged nor budgeted (budget %d): e.g. line %s: %s"
                   % (len(und) - allowed, sk, fnp, allowed, s.line, why), s.where(),
                   replay={"function": fnp, "site": sk, "undischarged": [{"line": x.line, "why": w, "callee": x.callee} for x, w in und],
                           "budget": allowed})
    if required:
        check_premises(ctx, prog, rule, required)
    return {"sites": n_sites, "discharged": n_dis, "budgeted": n_bud, "groups": len(groups), "budget_used": len(used)}


def entry_bodies(prog, names):
    out = []
    for n in names:
        out.append(prog.body(n))
    return out
