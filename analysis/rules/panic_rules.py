"""E1 rules: no reachable panic (C03 R3.1, C14 R14.1/R14.2, C19 R19.1) + data-flow clauses."""
import json, os, re
from .. import panics, prover
from ..facts import AnchorMissing

VERIF = os.path.dirname(os.path.dirname(os.path.dirname(os.path.abspath(__file__))))
BUDGET_FILE = os.path.join(VERIF, "anchors", "panic_budget.json")


def load_budget():
    if not os.path.exists(BUDGET_FILE):
        return {}
    out = {}
    for e in json.load(open(BUDGET_FILE))["entries"]:
        out[(e["fn"], e["site"])] = e
    return out


def site_key(s):
    return (s.fn.path, "%s|%s" % (s.kind, s.detail))


def inventory(ctx, prog, rule, entries, stop=()):
    seen, ext, indirect = panics.reachable(prog, entries, stop)
    bad_ext = panics.unclassified_externals(ext)
    ctx.ob(rule, "external-callees-classified", not bad_ext,
           "%d external callees reachable, unclassified third-party: %s" % (len(ext), bad_ext[:6] or "none"))
    return seen, ext, indirect


def _from_param(body, local, depth=0):
    """is `local` a copy / integer cast of the function's first parameter?"""
    if local == 1:
        return True
    if depth > 6:
        return False
    defs = []
    for blk in body.blocks:
        for st in blk["stmts"]:
            if st["k"] == "assign" and st["place"]["l"] == local and not st["place"]["p"]:
                defs.append(st["rv"])
    if len(defs) != 1 or defs[0]["k"] not in ("use", "cast"):
        return False
    op = defs[0]["op"]
    return op["k"] in ("copy", "move") and not op["place"]["p"] and _from_param(body, op["place"]["l"], depth + 1)


def premise_removable_ascii(ctx, prog, rule):
    """premise of the budget entries of strings::formatted_quoted_string_from: the helpers count *characters* and the
    caller slices by *bytes*; that is sound only while every removable character is one byte long, i.e. ASCII.  Every
    path of is_removable_character that may return true must pin its argument to a code point < 0x80."""
    from .. import client as C
    paths, info = C.explore_fn(prog, "stun_rs::strings::is_removable_character", "x", [])
    body = info["body"]
    ctx.fn(body)
    n = 0
    for pa in paths:
        if pa.ret == 0:
            continue
        n += 1
        pins = []
        for op, a, b, v in pa.guards():
            for x, y in ((a, b), (b, a)):
                if x == "top:c" and isinstance(y, int):
                    if op == "Eq" and v == 1 and y < 0x80:
                        pins.append("c == %#x" % y)
                    if (op == "Lt" and v == 1 and y <= 0x80 and x is a) or (op == "Le" and v == 1 and y < 0x80 and x is a):
                        pins.append("c < %#x" % (y if op == "Lt" else y + 1))
                    if (op == "Ge" and v == 0 and y <= 0x80 and x is a) or (op == "Gt" and v == 0 and y < 0x80 and x is a):
                        pins.append("c < %#x" % (y if op == "Ge" else y + 1))
        for nme, val in pa.choices:
            m = re.match(r"switch@.*:bb(\d+)$", str(nme))
            if m and val != "otherwise" and int(val) < 0x80:
                d = body.blocks[int(m.group(1))]["term"]["discr"]
                if d["k"] in ("copy", "move") and not d["place"]["p"] and _from_param(body, d["place"]["l"]):
                    pins.append("c == %#x" % int(val))
        for e in pa.calls:
            if re.search(r"char::methods::<impl char>::is_ascii(_\w+)?$|^char::is_ascii", e[1]) and "top:c" in repr(e[2]):
                if pa.choice(r"^ret:%s@" % e[1].split("::")[-1]) == 1 or (isinstance(pa.ret, str) and e[4] in pa.ret):
                    pins.append(e[1].split("::")[-1])
        r = pa.ret
        if isinstance(r, str) and r.startswith("sym:cmp:Eq:('t', 'c'):('c', "):
            k = int(r.split("('c', ")[1].rstrip(")"))
            if k < 0x80:
                pins.append("returns c == %#x" % k)
        ctx.ob(rule, "removable-ascii:%s" % (pins[0] if pins else "unpinned:%s" % str(pa.ret)[:40]), bool(pins),
               "is_removable_character may return true with %s" % (", ".join(pins) if pins else "no test pinning c below 0x80 (result %s; calls %s)"
                                                                % (str(pa.ret)[:60], pa.call_names())), info["where"],
               replay=None if pins else pa.describe())
    ctx.floor(rule, "accepting paths of is_removable_character", n, 1)


def premise_error_code(ctx, prog, rule):
    from .c19 import r19_3_error_code_invariant
    r19_3_error_code_invariant(ctx, prog, rule=rule)


def premise_distinct_codes(ctx, prog, rule):
    from .c01 import type_codes
    codes = type_codes(ctx, prog, rule)
    vals = [v[0] for v in codes.values()]
    dups = sorted({c for c in vals if vals.count(c) > 1})
    ctx.ob(rule, "distinct-codes", not dups and len(codes) >= 10, "%d type codes, duplicates: %s" % (len(codes), dups or "none"))


def premise_reassembler(ctx, prog, rule):
    from .c16 import r16_4_invariant
    from .. import extract, facts
    # the reassembler lives in stun-agent: use the agent facts whatever configuration the caller analyses
    p2 = prog if any(b.path == "stun_agent::StunPacketDecoder::decode" for b in prog.bodies.values()) else \
        facts.Program(extract.extract("agent"), label="agent")
    r16_4_invariant(ctx, p2, rule=rule)


def premise_iterator(ctx, prog, rule):
    from .iter_rules import r3_5_iterator
    r3_5_iterator(ctx, prog, rule=rule)


def premise_encode_loop(ctx, prog, rule):
    from .enc_loop_rules import r14_6_encode_loop
    r14_6_encode_loop(ctx, prog, rule=rule)


# machine-checked premises of reviewed budget entries: `requires` text in anchors/panic_budget.json -> checker
PREMISES = {
    "is_removable_character accepts only code points < 0x80": premise_removable_ascii,
    "range test in ErrorCode::new and ErrorCode::decode": premise_error_code,
    "C01 R1.2": premise_distinct_codes,
    "reassembler invariant (C16 R16.4)": premise_reassembler,
    "attribute iterator invariant (C03 R3.5)": premise_iterator,
    "encode loop invariant (C14 R14.6)": premise_encode_loop,
}


def check_premises(ctx, prog, rule, required):
    """every budget entry that was used and names a premise gets that premise evaluated in the same check"""
    prule = rule + "p"
    ctx.rule(prule, "premises of the reviewed budget entries used by %s are themselves decided (ASCII-only removable characters; "
                    "ErrorCode range invariant; pairwise distinct attribute codes; the reassembler's class invariant)" % rule)
    done = getattr(ctx, "_premises_done", set())
    for req in sorted(required):
        if (prule, req) in done:
            continue
        done.add((prule, req))
        fn = PREMISES.get(req)
        if fn is None:
            ctx.ob(prule, "premise:%s" % req, False, "budget entry relies on `%s`, for which no checker exists" % req)
            continue
        fn(ctx, prog, prule)
    ctx._premises_done = done


def check_sites(ctx, prog, rule, prop, seen, config_label="", exclude_fn=None, only_kinds=None):
    """discharge every site of every reachable body or count it against the reviewed budget.
    returns statistics."""
    budget = load_budget()
    required = set()
    groups = {}
    n_sites = n_dis = n_bud = 0
    used = set()
    for key in sorted(seen):
        b = prog.bodies[key]
        if exclude_fn and exclude_fn(b):
            continue
        ss = panics.sites_of(b)
        if only_kinds:
            ss = [s for s in ss if s.kind in only_kinds]
        if not ss:
            continue
        ctx.fn(b)
        pr = prover.Prover(b)
        for s in ss:
            n_sites += 1
            try:
                ok, why = pr.discharge(s)
            except Exception as e:  # the prover must never take the check down: undischarged
                ok, why = False, "prover error %r" % (e,)
            g = groups.setdefault(site_key(s), {"sites": [], "undischarged": [], "fn": b})
            g["sites"].append(s)
            if ok:
                n_dis += 1
            else:
                g["undischarged"].append((s, why))
    for (fnp, sk), g in sorted(groups.items()):
        und = g["undischarged"]
        total = len(g["sites"])
        b = g["fn"]
        be = budget.get((fnp, sk))
        allowed = be["max"] if be is not None and (not be.get("props") or prop in be["props"]) else 0
        if be is not None:
            used.add((fnp, sk))
        n_bud += min(len(und), allowed)
        if be is not None and und and allowed and be.get("requires"):
            required.add(be["requires"])
        ok = len(und) <= allowed
        if ok:
            detail = "%d site(s): %d discharged by the prover, %d within the reviewed budget (max %d%s)" % (
                total, total - len(und), len(und), allowed, (": " + be["reason"]) if be is not None and und else "")
            ctx.ob(rule, "sites:%s:%s%s" % (fnp, sk, config_label), True, detail, b.where(),
                   sample={"function": fnp, "site": sk, "sites": total, "discharged": total - len(und),
                           "budgeted": len(und), "example": und[0][1] if und else "all discharged"})
        else:
            s, why = und[allowed] if allowed < len(und) else und[-1]
            ctx.ob(rule, "sites:%s:%s%s" % (fnp, sk, config_label), False,
                   "%d potential panic site(s) `%s` in %s are neither discharged nor budgeted (budget %d): e.g. line %s: %s"
                   % (len(und) - allowed, sk, fnp, allowed, s.line, why), s.where(),
                   replay={"function": fnp, "site": sk, "undischarged": [{"line": x.line, "why": w, "callee": x.callee} for x, w in und],
                           "budget": allowed})
    if required:
        check_premises(ctx, prog, rule, required)
    return {"sites": n_sites, "discharged": n_dis, "budgeted": n_bud, "groups": len(groups), "budget_used": len(used)}


def entry_bodies(prog, names):
    out = []
    for n in names:
        out.append(prog.body(n))
    return out
