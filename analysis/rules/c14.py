"""C14 - encoding respects the caller's buffer and the 64 KiB limit (structural clauses)."""
import re
from . import panic_rules as P
from .. import panics, prover
from ..facts import const_int


def narrow_arith(ctx, prog, seen, rule="R14.2", label=""):
    """every Add/Sub/Mul whose result type is u8/u16 in a reachable body must have operand bounds that fit
    (decided on the MIR shape at hand: with overflow checks it is an Assert site, without it is a plain binop)."""
    n = 0
    bad = []
    for key in sorted(seen):
        b = prog.bodies[key]
        pr = None
        for bi, blk in enumerate(b.blocks):
            if blk["cleanup"]:
                continue
            for si, s in enumerate(blk["stmts"]):
                if s["k"] != "assign" or s["rv"]["k"] != "binop":
                    continue
                rv = s["rv"]
                op = rv["op"].replace("WithOverflow", "").replace("Unchecked", "")
                if op not in ("Add", "Sub", "Mul"):
                    continue
                ta = b.ty(rv["aty"])
                if ta.get("k") != "int" or ta.get("signed") or ta["bits"] > 16:
                    continue
                n += 1
                if pr is None:
                    pr = prover.Prover(b)
                pr.at = (bi, si)
                try:
                    ua, ub = pr.ub_op(rv["a"]), pr.ub_op(rv["b"])
                    maxv = (1 << ta["bits"]) - 1
                    ok = False
                    if op == "Add":
                        ok = ua is not None and ub is not None and ua + ub <= maxv
                    elif op == "Mul":
                        ok = ua is not None and ub is not None and ua * ub <= maxv
                    elif op == "Sub":
                        la, lb = pr.lin_op(rv["a"]), pr.lin_op(rv["b"])
                        ok = la is not None and lb is not None and prover.le(lb, la)
                        if not ok and la is not None and la.is_const() and ub is not None and ub <= la.c:
                            ok = True
                finally:
                    pr.at = None
                if not ok:
                    bad.append((b, s.get("line"), "%s on %s with bounds %s, %s" % (op, ta["s"], ua, ub)))
    return n, bad


def _param_of(body, op, depth=0):
    """index of the parameter an operand is a copy / reborrow of, or None"""
    if op.get("k") not in ("copy", "move") or depth > 8:
        return None
    pl = op["place"]
    if any(pe.get("k") != "deref" for pe in pl.get("p", [])):
        return None
    l = pl["l"]
    if 1 <= l <= body.arg_count:
        return l
    defs = [st["rv"] for blk in body.blocks for st in blk["stmts"] if st["k"] == "assign" and st["place"]["l"] == l and not st["place"]["p"]]
    if len(defs) != 1:
        return None
    rv = defs[0]
    if rv["k"] in ("use", "cast"):
        return _param_of(body, rv["op"], depth + 1)
    if rv["k"] == "ref" and all(pe.get("k") == "deref" for pe in rv["place"].get("p", [])):
        return _param_of(body, {"k": "copy", "place": {"l": rv["place"]["l"], "p": []}}, depth + 1)
    return None


_FINITE_IT = re.compile(r"^(std::slice::Iter<'_, [^<>]*>|std::slice::IterMut<'_, [^<>]*>|std::array::IntoIter<[^<>]*>|std::vec::IntoIter<[^<>]*>|"
                        r"std::option::IntoIter<[^<>]*>|std::iter::Once<[^<>]*>|&(mut )?\[[^\]]*\]|&(mut )?std::vec::Vec<[^<>]*>|\[[^\]]*; \d+\])$")


def _finite_iter_type(t):
    """the iterator type yields finitely many items whatever its value: slice / array / vec / option iterators and the
    adaptors that cannot lengthen them (chain of two finite ones, copied, cloned, rev, enumerate, take, skip, zip)"""
    t = t.strip()
    if _FINITE_IT.match(t):
        return True
    m = re.match(r"^std::iter::(Copied|Cloned|Rev|Enumerate|Skip|Take|Peekable)<(.*)>$", t)
    if m:
        return _finite_iter_type(m.group(2))
    m = re.match(r"^std::iter::(Chain|Zip)<(.*)>$", t)
    if m:
        inner, depth = m.group(2), 0
        for i, ch in enumerate(inner):
            depth += ch == "<"
            depth -= ch == ">"
            if ch == "," and depth == 0:
                a, b = inner[:i], inner[i + 1:]
                if m.group(1) == "Zip":
                    return _finite_iter_type(a) or _finite_iter_type(b)
                return _finite_iter_type(a) and _finite_iter_type(b)
    return False


def _zip_with_finite(full):
    m = re.match(r"^<std::slice::IterMut<'_, u8> as std::iter::Iterator>::zip::<(.*)>$", full)
    return bool(m) and _finite_iter_type(m.group(1))


def _only_taken(body, call):
    """the iterator made by this iter_mut() call flows only into `Iterator::take(it, n)` (possibly through moves)"""
    d = call.dest
    if d is None or d.get("p"):
        return False
    cur = {d["l"]}
    for _ in range(4):
        uses = []
        for bi, blk in enumerate(body.blocks):
            if blk["cleanup"]:
                continue
            for st in blk["stmts"]:
                if st["k"] == "assign" and st["rv"]["k"] == "use" and st["rv"]["op"]["k"] in ("copy", "move") and \
                        st["rv"]["op"]["place"]["l"] in cur and not st["rv"]["op"]["place"]["p"]:
                    uses.append(("move", st["place"]["l"]))
                elif st["k"] == "assign" and any(l_ in cur for l_ in _locals_in(st["rv"])):
                    uses.append(("other", None))
            t = blk["term"]
            if t["k"] == "call" and any(a.get("k") in ("copy", "move") and a["place"]["l"] in cur for a in t["args"]):
                fn = (t["func"].get("fn") or {}).get("full", "")
                a0 = t["args"][0]
                if re.search(r"Iterator>::take$|Iterator::take$", fn) and a0.get("k") in ("copy", "move") and a0["place"]["l"] in cur:
                    uses.append(("take", None))
                elif a0.get("k") in ("copy", "move") and a0["place"]["l"] in cur and _zip_with_finite(fn):
                    uses.append(("take", None))      # `s.iter_mut().zip(finite)`: at most as many elements as `finite` yields
                else:
                    uses.append(("other", None))
        if any(u[0] == "other" for u in uses):
            return False
        if any(u[0] == "take" for u in uses):
            return all(u[0] in ("take", "move") for u in uses)
        nxt = {u[1] for u in uses if u[0] == "move"}
        if not nxt:
            return False
        cur = nxt
    return False


def _locals_in(x):
    out = set()
    if isinstance(x, dict):
        pl = x.get("place")
        if isinstance(pl, dict) and "l" in pl:
            out.add(pl["l"])
        for k, v in x.items():
            if k != "place":
                out |= _locals_in(v)
    elif isinstance(x, list):
        for v in x:
            out |= _locals_in(v)
    return out


def _extent_known_at_callers(prog, b, op):
    """for a non-public helper that is not in anchors/known_functions.json: the slice comes straight from a parameter and
    every call site in the workspace passes a slice whose exact length the prover knows"""
    from ..absint import _known_functions
    known = _known_functions()
    if not known or b.path in known or b.is_public or b.kind not in ("Fn", "AssocFn") or P._fn_value_uses(prog, b.key):
        return False
    k = _param_of(b, op)
    if k is None:
        return False
    n = 0
    for cb in prog.bodies.values():
        pr = None
        for cs in cb.calls():
            if not any(x.key == b.key for x in prog.callees(cs)):
                continue
            if cb.blocks[cs.block]["cleanup"] or len(cs.args) < k:
                return False
            pr = pr or prover.Prover(cb)
            pr.at = (cs.block, 10 ** 6)
            try:
                ex = pr.exact_len(cs.args[k - 1])
            except Exception:
                ex = None
            finally:
                pr.at = None
            if ex is None:
                return False
            n += 1
    return n > 0


def _closure_gets_checked_slice(prog, b, op):
    """a closure whose slice parameter is the Some payload of `s.get_mut(range)`: the parent hands the closure to
    Option::map / Option::map_or* applied to that very Option, so the extent of what the closure mutates is the range"""
    if b.kind != "Closure":
        return False
    k = _param_of(b, op)
    if k != 2:                                  # (closure env, item)
        return False
    parent_path = re.sub(r"::\{closure#\d+\}$", "", b.path)
    parent = next((x for x in prog.bodies.values() if x.path == parent_path), None)
    if parent is None:
        return False
    from ..mirq import q_of
    q = q_of(parent)
    n = 0
    for cs in parent.calls():
        if parent.blocks[cs.block]["cleanup"] or not re.search(r"^std::option::Option::<&mut \[u8\]>::(map|map_or|map_or_else|inspect)::<", cs.full):
            continue
        if "{closure" not in cs.full or len(cs.args) < 2:
            continue
        # the closure handed to this map(..) is `b` itself (its aggregate names the closure body)
        a1 = cs.args[1]
        which = None
        if a1["k"] in ("copy", "move") and not a1["place"]["p"]:
            for blk_ in parent.blocks:
                for st_ in blk_["stmts"]:
                    if st_["k"] == "assign" and st_["place"]["l"] == a1["place"]["l"] and not st_["place"]["p"] and \
                            st_["rv"]["k"] == "aggregate" and st_["rv"].get("agg") == "closure":
                        which = st_["rv"].get("closure")
        if which != b.path:
            continue
        a0 = cs.args[0]
        if a0["k"] not in ("copy", "move") or a0["place"]["p"]:
            return False
        d = q.single_def(a0["place"]["l"])
        if d is None or d.kind != "call" or not re.search(r"slice::<impl \[.*\]>::get_mut(::<.*>)?$", d.call.callee_path):
            return False
        pr = prover.Prover(parent)
        pr.at = (d.call.block, 10 ** 6)
        try:
            rng = pr.range_of(d.call.args[1])
        finally:
            pr.at = None
        if rng is None or rng[0] not in ("Range", "RangeTo") or rng[2] is None:
            return False
        n += 1
    return n == 1


def check(ctx, env):
    ctx.explanation = (
        "Static: (R14.1) panic-site inventory from MessageEncoder::encode over every attribute encoder (all features): each "
        "index/slice/copy site is dominated by a covering check_buffer_boundaries fact or is in the reviewed budget, so a "
        "short buffer yields Err, never a panic; (R14.2) no unchecked narrow (u8/u16) arithmetic on lengths in either MIR "
        "shape (overflow checks on and off), which is what made the 16-bit length wrap before the fix; (R14.3) encode "
        "contract of the fixed-size encoders: checked length = returned size; (R14.5) must-write coverage: on every Ok(n) path "
        "of every attribute-value encoder the written byte ranges, chained as linear forms, cover [0, n), so the encoded bytes "
        "cannot depend on the buffer's previous contents (whole-slice writes of unknown extent are excluded by R14.3, hence "
        "nothing beyond the value is written by the value encoders). Correctness of the bytes of a fitting message is NOT "
        "decided.")
    ctx.assumptions = ["rustc MIR", "std functions outside MAY_PANIC do not panic", "reviewed budget anchors/panic_budget.json"]
    ctx.rule("R14.1", "no reachable panic from MessageEncoder::encode (any buffer length): every site discharged or budgeted")
    ctx.rule("R14.2", "no u8/u16 Add/Sub/Mul reachable from encode whose operand bounds do not fit the type (both MIR shapes)")
    prog = env.prog("full")
    entries = P.entry_bodies(prog, ["stun_rs::context::MessageEncoder::encode"])
    seen, ext, ind = P.inventory(ctx, prog, "R14.1", entries)
    st = P.check_sites(ctx, prog, "R14.1", "C14", seen)
    st["reachable_functions"] = len(seen)
    ctx.floor("R14.1", "reachable functions", len(seen), 130)
    ctx.floor("R14.1", "panic sites inventoried", st["sites"], 70)
    ctx.extra["panic_sites"] = st
    budget = P.load_budget()
    configs = [("full", prog, seen)]
    if env.tier == "thorough":
        p2 = env.prog("full-nodebug")
        e2 = P.entry_bodies(p2, ["stun_rs::context::MessageEncoder::encode"])
        s2, _x, _y = panics.reachable(p2, e2)
        configs.append(("full-nodebug", p2, s2))
    for label, pg, sn in configs:
        n, bad = narrow_arith(ctx, pg, sn)
        groups = {}
        for b, line, why in bad:
            groups.setdefault(b.path, []).append((line, why, b))
        for fnp, items in sorted(groups.items()):
            be = budget.get((fnp, "narrow-arith"))
            allowed = be["max"] if be else 0
            ok = len(items) <= allowed
            ctx.ob("R14.2", "narrow:%s@%s" % (fnp, label), ok,
                   "%d unchecked narrow operation(s) (budget %d%s): %s" % (len(items), allowed, (": " + be["reason"]) if be else "", items[0][1]),
                   items[0][2].where(items[0][0]),
                   replay=None if ok else {"function": fnp, "site": "narrow-arith", "undischarged": [{"line": l, "why": w, "callee": None} for l, w, _b in items], "budget": allowed})
        ctx.ob("R14.2", "narrow-ops-examined@%s" % label, n >= 0, "%d u8/u16 arithmetic operations examined, %d not bounded" % (n, len(bad)))
    # R14.3 write extent: mutating slice operations act on a sub-slice of known length, never on "the rest of the buffer"
    ctx.rule("R14.3", "write extent: every whole-slice mutation reachable from encode (fill, fill_with, iter_mut, reverse, sort, "
                      "rotate, copy_within) is applied to a sub-slice whose exact length is known (a constant or the checked "
                      "size), so bytes beyond the returned size are not written by such operations")
    WRITERS = re.compile(r"slice::<impl \[.*\]>::(fill|fill_with|iter_mut|reverse|rotate_left|rotate_right|sort|sort_unstable|copy_within|swap_with_slice)$")
    nw = 0
    badw = []
    for key in sorted(seen):
        b = prog.bodies[key]
        pr = None
        for c in b.calls():
            if b.blocks[c.block]["cleanup"] or not WRITERS.search(c.callee_path):
                continue
            # only output buffers: u8 slices
            if "[u8]" not in c.full and "[u8]" not in c.callee_path:
                t = b.local_ty(c.args[0]["place"]["l"]) if c.args and c.args[0]["k"] != "const" and not c.args[0]["place"]["p"] else {}
                if "u8" not in t.get("s", ""):
                    continue
            nw += 1
            if pr is None:
                pr = prover.Prover(b)
            pr.at = (c.block, 10 ** 6)
            try:
                ex = pr.exact_len(c.args[0])
            finally:
                pr.at = None
            if ex is None and _extent_known_at_callers(prog, b, c.args[0]):
                continue            # a helper split off by a refactoring: every caller passes a slice of known extent
            if ex is None and _closure_gets_checked_slice(prog, b, c.args[0]):
                continue            # `s.get_mut(..n).map(|sub| sub.fill(v))`: the closure mutates exactly the checked range
            if ex is None and c.callee_path.endswith("::iter_mut") and _only_taken(b, c):
                continue            # `s.iter_mut().take(n)`: at most n elements are written, n is what the take bounds
            if ex is None:
                badw.append((b, c.line, "%s on a slice of unknown extent" % c.callee_path.split("::")[-1]))
    for b, line, why in badw:
        ctx.ob("R14.3", "unbounded-write:%s" % b.path, False, "%s (line %s)" % (why, line), b.where(line),
               replay={"function": b.path, "line": line, "why": why})
    ctx.ob("R14.3", "whole-slice-writers-examined", nw >= 5, "%d whole-slice mutations examined, %d on a slice of unknown extent" % (nw, len(badw)))
    # R14.4 encoder contract, assumed by the prover at every dispatch site: verify it on every impl
    ctx.rule("R14.4", "encoder contract: every EncodeAttributeValue::encode / Encode::encode impl returns, on Ok(n), an n that is "
                      "bounded by a checked length of its output slice (or forwards another contract encoder on the same "
                      "output): this is what 'a shorter buffer returns an error' means per attribute, and what lets the "
                      "encode loop's own slices be discharged")
    impls = [b for b in prog.bodies.values() if b.crate == "stun_rs" and b.kind == "AssocFn" and
             (prover.ENC_CTX_RX.search(b.path) or prover.enc_slice_arg(b.path) is not None)]
    impls += [b for b in prog.bodies.values() if prover.XOR_ENC_RX.search(b.path)]
    nimpl = 0
    budget_contract = {k[0]: v for k, v in budget.items() if k[1] == "encode-contract"}
    for b in sorted(impls, key=lambda x: x.path):
        probs = prover.verify_encode_contract(b)
        nimpl += 1
        be = budget_contract.get(b.path)
        ok = not probs or be is not None
        ctx.ob("R14.4", "contract:%s" % b.path, ok,
               ("returned size bounded by a checked length" if not probs else
                ("reviewed exception: %s (%s)" % (be["reason"], probs[0]) if be else "; ".join(probs[:2]))), b.where(),
               replay=None if ok else {"function": b.path, "site": "encode-contract", "undischarged": [{"line": None, "why": x, "callee": None} for x in probs], "budget": 0})
    ctx.floor("R14.4", "encoder impls verified", nimpl, 45)
    # R14.5 must-write coverage of every encoder (looping encoders: their dedicated rules, evaluated here as well)
    from . import coverage_rules, c01, c02
    coverage_rules.r14_5_write_coverage(ctx, prog)
    c02.r2_7_u16_list(ctx, prog, rule="R14.5")
    c01.r1_6_nested_padding(ctx, prog, rule="R14.5")
    from . import enc_loop_rules
    enc_loop_rules.r14_7_length_field(ctx, prog)
    # the running length of the encoder is a usize converted with u16::try_from (D5 repair)
    enc = entries[0]
    l16 = []
    for bi, blk in enumerate(enc.blocks):
        for s in blk["stmts"]:
            if s["k"] == "assign" and s["rv"]["k"] == "binop" and s["rv"]["op"].startswith(("Add", "Sub", "Mul")):
                t = enc.ty(s["rv"]["aty"])
                if t.get("k") == "int" and t["bits"] <= 16:
                    l16.append(s.get("line"))
    ctx.ob("R14.2", "encoder-no-narrow-arith", not l16, "u8/u16 arithmetic inside MessageEncoder::encode at lines %s" % (l16 or "none"), enc.where())
    tf = [c for c in enc.calls() if re.search(r"TryFrom<usize> for u16>::try_from$|<usize as std::convert::TryInto<u16>>::try_into$", c.callee_path)
          or re.search(r"TryFrom<usize> for u16>::try_from$|<usize as std::convert::TryInto<u16>>::try_into$", c.full)]
    ctx.ob("R14.2", "encoder-checked-conversion", len(tf) >= 2, "checked usize->u16 conversions in encode: %d" % len(tf), enc.where())
