"""C02 - bytes on the wire follow the RFC layouts (structural clauses: bit provenance, constants, tables)."""
import json, os, re
from .. import client as C
from .. import bits as B
from .exprs import show, same
from . import c01, bytesem

VERIF = os.path.dirname(os.path.dirname(os.path.dirname(os.path.abspath(__file__))))
MT = "stun_rs::message::MessageType"


def r2_1_iana(ctx, prog, label):
    ctx.rule("R2.1", "attribute type codes equal the IANA registry (RFC 8489 18.3, 8445, 8656, 5780, 8016)")
    table = json.load(open(os.path.join(VERIF, "anchors", "iana_attributes.json")))["attributes"]
    codes = c01.type_codes(ctx, prog, "R2.1")
    n = 0
    for name, (code, b) in sorted(codes.items()):
        exp = table.get(name)
        n += 1
        ctx.ob("R2.1", "code:%s@%s" % (name, label), exp is not None and int(exp, 16) == code,
               "%s = 0x%04X (IANA: %s)" % (name, code, exp), b.where())
    return n


def r2_2_message_type(ctx, prog):
    ctx.rule("R2.2", "message type interleaving (RFC 8489 fig. 3) for all 16384 (method, class) pairs at once by bit provenance: "
                     "encode: M0-3 -> bits 0-3, C0 -> 4, M4-6 -> 5-7, C1 -> 8, M7-11 -> 9-13, bits 14-15 = 0; decode is the "
                     "inverse; method values are kept below 0x1000 by construction")
    paths, info = C.explore_fn(prog, MT + "::as_u16", "mt", [r"message::MessageMethod::as_u16$", r"message::MessageClass::as_u16$", r"\{closure"],
                               concrete_iters=True)
    ctx.fn(info["body"])
    cls_val = {"Request": 0, "Indication": 1, "SuccessResponse": 2, "ErrorResponse": 3}
    n = 0
    for pa in paths:
        cls = pa.choice(r"^variant\(mt\.class\)$")
        tree = C.expr_of(pa, pa.ret)
        leaf = "top:mt.method.0"
        out = B.evaluate(tree, {leaf: 12})
        c = cls_val.get(cls)
        exp = [("in", leaf, i) for i in range(4)] + [c & 1 if c is not None else None] + [("in", leaf, i) for i in range(4, 7)] + \
              [(c >> 1) & 1 if c is not None else None] + [("in", leaf, i) for i in range(7, 12)] + [0, 0]
        ok = c is not None and out[:16] == exp and all(b == 0 for b in out[16:])
        n += 1
        ctx.ob("R2.2", "encode:%s" % cls, ok, "as_u16 bits (lsb first) = %s" % B.describe(out), info["where"],
               replay=None if ok else {"tree": show(tree), "expected": B.describe(exp + [0] * 48)})
    ctx.floor("R2.2", "classes encoded", n, 4)
    # class numbering
    for cname, v in cls_val.items():
        b = prog.body("stun_rs::message::MessageClass::as_u16")
    paths, info = C.explore_fn(prog, "stun_rs::message::MessageClass::as_u16", "c", [])
    got = {pa.choice(r"^variant\(c\)$"): pa.ret for pa in paths}
    ctx.ob("R2.2", "class-values", got == cls_val, "MessageClass::as_u16: %s" % got, info["where"])
    # decode
    paths, info = C.explore_fn(prog, "<%s as std::convert::From<u16>>::from" % MT, "x", [r"\{closure"], concrete_iters=True)
    ctx.fn(info["body"])
    leaf = "top:value"
    done = 0

    def method_word(pa, r):
        """the u16 the method is made of: the argument of MessageMethod::try_from, or the field of a `MessageMethod(x)` literal
        handed to MessageType::new / stored in the struct literal (the range check of try_from cannot fail on 12 bits)"""
        mc = pa.calls_to(r"MessageMethod as std::convert::TryFrom<u16>>::try_from$")
        if mc:
            return C.expr_of(pa, mc[0][2][0])
        nw = pa.calls_to(r"message::MessageType::new$")
        m = None
        if nw:
            m = C.expr_of(pa, nw[0][2])[0]
        elif isinstance(r, tuple) and r and r[0] == "MessageType":
            names = [f["name"] for f in prog.adt(MT)["variants"][0]["fields"]]
            if "method" in names and len(r) == len(names) + 1:
                m = r[1 + names.index("method")]
        if isinstance(m, tuple) and len(m) == 2 and m[0] == "MessageMethod":
            return m[1]
        return None
    for pa in paths:
        cc = pa.calls_to(r"MessageClass as std::convert::TryFrom<u8>>::try_from$")
        mc = pa.calls_to(r"MessageMethod as std::convert::TryFrom<u16>>::try_from$")
        nw = pa.calls_to(r"message::MessageType::new$")
        r = C.expr_of(pa, pa.ret)
        literal = isinstance(r, tuple) and r and r[0] == "MessageType" and not nw        # built with a struct literal
        mw = method_word(pa, r)
        if not (cc and mw is not None and (nw or literal)):
            continue
        done += 1
        cbits = B.evaluate(C.expr_of(pa, cc[0][2][0]), {leaf: 16})
        mbits = B.evaluate(mw, {leaf: 16})
        expc = [("in", leaf, 4), ("in", leaf, 8)] + [0] * 14
        expm = [("in", leaf, i) for i in range(4)] + [("in", leaf, i) for i in range(5, 8)] + [("in", leaf, i) for i in range(9, 14)] + [0] * 4
        ctx.ob("R2.2", "decode:class-bits", cbits[:16] == expc, "class bits = %s" % B.describe(cbits, 8), info["where"])
        ctx.ob("R2.2", "decode:method-bits", mbits[:16] == expm, "method bits = %s" % B.describe(mbits), info["where"])
        if nw:
            a = C.expr_of(pa, nw[0][2])
        else:
            names = [f["name"] for f in prog.adt(MT)["variants"][0]["fields"]]
            a = (r[1 + names.index("method")], r[1 + names.index("class")]) if {"method", "class"} <= set(names) and len(r) == len(names) + 1 else ("?", "?")
        ctx.ob("R2.2", "decode:argument-order", "MessageMethod" in repr(a[0]) and "MessageClass" in repr(a[1]), "MessageType{method, class} = (%s)" % show(a)[:160], info["where"])
        break
    if not done:
        # the class is not built by MessageClass::try_from(bits) but selected by tests on the type word (`match (c1, c0)`):
        # on every path the tests must pin bits 8 and 4 (and nothing else), and the class returned must be 2*bit8 + bit4
        order = ["Request", "Indication", "SuccessResponse", "ErrorResponse"]
        seen_cls = {}
        okall = bool(paths)
        for pa in paths:
            r = C.expr_of(pa, pa.ret)
            mw = method_word(pa, r)
            pins = {}
            for op, a_, b_, v_ in pa.guards():
                if op in ("Ne", "Eq") and b_ == 0:
                    bits = B.evaluate(a_, {leaf: 16})
                    nz = [x for x in bits[:16] if x != 0]
                    if len(nz) == 1 and isinstance(nz[0], tuple) and nz[0][0] == "in" and nz[0][1] == leaf:
                        pins[nz[0][2]] = (v_ == 1) if op == "Ne" else (v_ == 0)
                        continue
                okall = False
            cls = next((c_ for c_ in order if ("MessageClass::%s" % c_) in repr(r)), None)
            if set(pins) != {8, 4} or cls is None or mw is None:
                okall = False
                continue
            want_cls = order[2 * int(pins[8]) + int(pins[4])]
            seen_cls[want_cls] = cls
            mbits = B.evaluate(mw, {leaf: 16})
            expm = [("in", leaf, i) for i in range(4)] + [("in", leaf, i) for i in range(5, 8)] + [("in", leaf, i) for i in range(9, 14)] + [0] * 4
            okall = okall and mbits[:16] == expm
        okall = okall and seen_cls == {c_: c_ for c_ in order}
        ctx.ob("R2.2", "decode:class-by-tests", okall, "class selected by bits (8, 4) of the type word: %s; method bits gathered from 0-3, 5-7, 9-13" % seen_cls, info["where"])
        done = 1 if okall else 0
    ctx.floor("R2.2", "decode paths", done, 1)
    # MessageClass::try_from maps 0..3 in declaration order; MessageMethod::try_from rejects bits 12-15
    paths, info = C.explore_fn(prog, "<stun_rs::message::MessageClass as std::convert::TryFrom<u8>>::try_from", "x", [])
    got = {}
    for pa in paths:
        sw = [v for n, v in pa.choices if str(n).startswith("switch@")]
        r = pa.ret
        if sw and isinstance(r, tuple) and r[0] == "Result::Ok":
            got[str(sw[0])] = r[1]
    exp = {"0": "MessageClass::Request", "1": "MessageClass::Indication", "2": "MessageClass::SuccessResponse", "3": "MessageClass::ErrorResponse"}
    ctx.ob("R2.2", "class-try_from", got == exp, "MessageClass::try_from: %s" % got, info["where"])
    paths, info = C.explore_fn(prog, "<stun_rs::message::MessageMethod as std::convert::TryFrom<u16>>::try_from", "x", [r"\{closure"])
    okm = False
    for pa in paths:
        for n, v in pa.choices:
            m = re.match(r"cmp:(Eq|Ne):(.*)$", str(n))
            if m and "61440" in m.group(2):
                okm = True
    ctx.ob("R2.2", "method-range", okm, "MessageMethod::try_from tests value & 0xF000", info["where"])


def _unconv(t):
    """the tree without lossless integer conversions (u16::from(x), x.into(), `as` casts are already transparent)"""
    if isinstance(t, tuple):
        if len(t) == 2 and isinstance(t[0], str) and re.match(r"^(num|u8|u16|u32|u64|usize|T)::(from|into)$", t[0]):
            return _unconv(t[1])
        return tuple(_unconv(x) for x in t)
    return t


def r2_3_layouts(ctx, prog, rule="R2.3"):
    ctx.rule(rule, "field layouts as expression trees: ERROR-CODE (class = byte 2 & 0x07, number = byte 3, code = class*100 + "
                     "number; bytes 0-1 written as zero), ICMP (type << 9 | code; >> 9 and & 0x1ff), EVEN-PORT 0x80")
    ec = "stun_rs::types::ErrorCode"
    paths, info = C.explore_fn(prog, "<%s as stun_rs::Decode<'_>>::decode" % ec, "x", [r"\{closure"])
    ctx.fn(info["body"])
    found = False
    for pa in paths:
        if pa.ret_kind != "Ok":
            continue
        r = C.expr_of(pa, pa.ret)
        s = repr(r)
        found = True
        want_code = ("op:Add", ("op:Mul", ("op:BitAnd", "top:raw_value[2]", 7), 100), "top:raw_value[3]")

        def has(t):
            return same(t, want_code) or (isinstance(t, tuple) and any(has(x) for x in t))
        ok = has(bytesem.flatten_elems(_unconv(r)))
        # the bounds the accepted path has established on class and number, from range tests and plain comparisons
        CLS, NUM = ("op:BitAnd", "top:raw_value[2]", 7), "top:raw_value[3]"
        bounds = {repr(CLS): [None, None], repr(NUM): [0, None]}
        rngs = {}
        for e in pa.calls:
            if "contains" in e[1]:
                a = C.expr_of(pa, e[2])
                rngs[repr(a[1])] = a[0]
                got = pa.choice(r"%s$" % re.escape(e[4].split("@")[-1]))
                k = repr(bytesem.flatten_elems(_unconv(a[1])))
                if k in bounds and got == 1 and isinstance(a[0], tuple) and a[0][0] == "RangeInclusive::new":
                    bounds[k] = [a[0][1], a[0][2]]
        FLIP = {"Lt": "Gt", "Le": "Ge", "Gt": "Lt", "Ge": "Le"}
        for op, a, b, v in pa.guards():
            if isinstance(a, int) and not isinstance(b, int) and op in FLIP:
                op, a, b = FLIP[op], b, a                   # `3 <= class` is `class >= 3`
            k = repr(bytesem.flatten_elems(_unconv(a)))
            if k in bounds and isinstance(b, int):
                if (op, v) in (("Gt", 0), ("Le", 1)):
                    bounds[k][1] = b
                elif (op, v) in (("Ge", 0), ("Lt", 1)):
                    bounds[k][1] = b - 1
                elif (op, v) in (("Lt", 0), ("Ge", 1)):
                    bounds[k][0] = b
                elif (op, v) in (("Le", 0), ("Gt", 1)):
                    bounds[k][0] = b + 1
        okr = bounds[repr(CLS)] == [3, 6] and bounds[repr(NUM)] == [0, 99]
        rngs = {"class": bounds[repr(CLS)], "number": bounds[repr(NUM)]}
        ctx.ob(rule, "error-code:decode-ranges", okr, "class / number range tests: %s" % {k[:40]: v for k, v in rngs.items()}, info["where"])
        ctx.ob(rule, "error-code:decode", ok, "decoded code = %s" % show(r)[:220], info["where"])
        break
    ctx.ob(rule, "error-code:decode-found", found, "ErrorCode::decode has an Ok path", info["where"])
    for fn, div in (("class", True), ("number", False)):
        paths, info = C.explore_fn(prog, "%s::%s" % (ec, fn), "e", [r"ErrorCode::number$"])
        for pa in paths:
            r = C.expr_of(pa, pa.ret)
            s = repr(r)
            if fn == "number":
                ok = "('op:Rem', 'top:e.error_code', 100)" in s
            else:
                # (code - code % 100) / 100, or the equal code / 100 (integer division already discards the remainder)
                ok = ("('op:Div', ('op:Sub', 'top:e.error_code'" in s and ", 100)" in s) or _unconv(r) == ("op:Div", "top:e.error_code", 100)
            ctx.ob(rule, "error-code:%s" % fn, ok, "%s() = %s" % (fn, show(r)[:200]), info["where"])
            break
    ic = "stun_rs::attributes::turn::icmp::Icmp"
    if prog.body("<%s as stun_rs::attributes::EncodeAttributeValue>::encode" % ic, required=False) is not None:
        paths, info = C.explore_fn(prog, "<%s as stun_rs::attributes::EncodeAttributeValue>::encode" % ic, "i", [r"\{closure", r"AttributeEncoderContext"])
        ctx.fn(info["body"])
        okk = False

        def is_type_code(v):
            v = _unconv(v)
            return isinstance(v, tuple) and len(v) == 3 and v[0] == "op:BitOr" and \
                any(isinstance(x, tuple) and len(x) == 3 and x[0] == "op:Shl" and x[2] == 9 for x in v[1:])
        for pa in paths:
            for e in pa.calls:
                if re.search(r"<u16 as stun_rs::Encode>::encode$|impl stun_rs::Encode for u16>::encode$", e[1]):
                    if is_type_code(C.expr_of(pa, e[2][0])):
                        okk = True
        if not okk:
            # written some other way (to_be_bytes + copy_from_slice, write_u16): bytes 2..4 of the value must be the
            # big-endian halves of (type << 9) | code
            from . import coverage_rules as K
            kp, kinfo = C.explore_fn(prog, "<%s as stun_rs::attributes::EncodeAttributeValue>::encode" % ic, "x", K.STEP, memo_shared=True)
            for pa in kp:
                r = C.expr_of(pa, pa.ret)
                if not (isinstance(r, tuple) and r[0] == "Result::Ok"):
                    continue
                ivs, probs = K.intervals(prog, pa, "obj:ctx.raw_value")
                b2, b3 = K.byte_value(ivs, 2), K.byte_value(ivs, 3)
                okk = all(isinstance(x, tuple) and x[0] == "be-byte" and x[3] == 2 and is_type_code(x[1]) for x in (b2, b3)) \
                    and (b2[2], b3[2]) == (0, 1) and not probs
        ctx.ob(rule, "icmp:encode", okk, "ICMP encodes (type << 9) | code", info["where"])
        paths, info = C.explore_fn(prog, "<%s as stun_rs::attributes::DecodeAttributeValue>::decode" % ic, "x", [r"\{closure", r"AttributeDecoderContext"])
        okd = False
        src_ok = None
        BASE = "top:ctx.raw_value.*"

        def word_of(v):
            """the byte range of the value a 16-bit (or wider) word was read from: a big-endian read in any spelling, or
            the workspace integer decoder (big-endian by R2.4) applied to a view of the value"""
            bv = bytesem.be_value(v, BASE)
            if bv is not None:
                return bv
            if isinstance(v, tuple) and len(v) == 2 and v[1] == ".ok.0" and isinstance(v[0], tuple) and v[0][0] == "common::decode" and len(v[0]) == 2:
                return bytesem.slice_view(v[0][1], BASE)
            return None
        for pa in paths:
            s = repr([C.expr_of(pa, e[2]) for e in pa.calls])
            if "('op:Shr'" in s and ", 9)" in s and "511" in s:
                okd = True
            # which bytes of the value the type / code are computed from: exactly bytes 2..4 - the 16 reserved bits in
            # front of them must not reach the decoded value (a wider read lets them leak into the type)
            for e in pa.calls:
                if re.search(r"BoundedU(8|16)::<.*>::new$", e[1]):
                    a = _unconv(C.expr_of(pa, e[2][0]))
                    w = None
                    if isinstance(a, tuple) and len(a) == 3 and a[0] == "op:Shr" and a[2] == 9:
                        w = word_of(_unconv(a[1]))
                    elif isinstance(a, tuple) and len(a) == 3 and a[0] == "op:BitAnd":
                        w = word_of(_unconv(a[2] if isinstance(a[1], int) else a[1]))
                    good = w is not None and w[0] == 2 and (w[1] == 4 or w[1] is None and False)
                    src_ok = good if src_ok is None else (src_ok and good)
        ctx.ob(rule, "icmp:decode", okd, "ICMP decodes with >> 9 and & 0x1ff", info["where"])
        ctx.ob(rule, "icmp:decode-source", bool(src_ok), "type and code are computed from the 16-bit word at bytes 2..4 of the value only "
               "(the reserved bits before it are ignored)", info["where"])
    ep = "stun_rs::attributes::turn::even_port::EvenPort"
    if prog.body("<%s as stun_rs::attributes::EncodeAttributeValue>::encode" % ep, required=False) is not None:
        b = prog.body("<%s as stun_rs::attributes::EncodeAttributeValue>::encode" % ep)
        consts = set()
        for blk in b.blocks:
            for s in blk["stmts"]:
                if s["k"] == "assign" and s["rv"]["k"] == "use" and s["rv"]["op"]["k"] == "const" and "bits" in s["rv"]["op"] and b.tystr(s["rv"]["op"]["ty"]) == "u8":
                    consts.add(int(s["rv"]["op"]["bits"]))
        ctx.ob(rule, "even-port:encode", consts == {0x80, 0x00}, "EVEN-PORT byte values %s" % sorted(hex(c) for c in consts), b.where())
        d = prog.body("<%s as stun_rs::attributes::DecodeAttributeValue>::decode" % ep)
        # semantic: the decoded flag, as a function of byte 0 of the value, is exactly bit 7 - whatever the spelling
        # ((b & 0x80) == 0x80, (b & 0x80) != 0, b >= 0x80, b >> 7 == 1): the comparison the flag is made of is evaluated
        # for all 256 byte values
        dpaths, dinfo = C.explore_fn(prog, d.path, "x", [r"\{closure"])
        okd, why_d, n_okp = True, "", 0
        rel = {"Eq": lambda a, b: a == b, "Ne": lambda a, b: a != b, "Lt": lambda a, b: a < b, "Le": lambda a, b: a <= b,
               "Gt": lambda a, b: a > b, "Ge": lambda a, b: a >= b}

        def ev8(t, x, leaves):
            if isinstance(t, bool):
                return int(t)
            if isinstance(t, int):
                return t
            if isinstance(t, tuple) and len(t) == 3 and t[0] in ("op:BitAnd", "op:BitOr", "op:BitXor", "op:Shr", "op:Shl"):
                a, b = ev8(t[1], x, leaves), ev8(t[2], x, leaves)
                return {"op:BitAnd": a & b, "op:BitOr": a | b, "op:BitXor": a ^ b, "op:Shr": a >> b if 0 <= b < 64 else 0,
                        "op:Shl": (a << b) & 0xFF if 0 <= b < 64 else 0}[t[0]]
            leaves.add(repr(t))
            return x
        for pa in dpaths:
            r = C.expr_of(pa, pa.ret)
            if not (isinstance(r, tuple) and r[0] == "Result::Ok"):
                continue
            n_okp += 1
            v = r[1][1] if isinstance(r[1], tuple) and r[1][0] == "tuple" else None
            flag = v[1] if isinstance(v, tuple) and v[0] == "EvenPort" and len(v) == 2 else None
            cmpe = None
            if isinstance(flag, str) and flag.startswith("sym:cmp:"):
                cmpe = next((e for e in pa.log if e[0] == "cmp" and "sym:" + str(e[1]) == flag), None)
            if cmpe is None:
                # the flag was decided by a branch (`if b & 0x80 != 0 { true } else { false }`): the guard and the constant agree
                gs = [g for g in pa.guards() if "[0]" in repr(g[1]) + repr(g[2])]
                if flag in (0, 1, True, False) and len(gs) == 1:
                    op_, a_, b_, val_ = gs[0]
                    leaves = set()
                    tt = [rel[op_](ev8(a_, x, leaves), ev8(b_, x, leaves)) == bool(val_) for x in range(256)]
                    good = all(tt[x] == ((x >> 7 == 1) == bool(flag)) or not tt[x] for x in range(256)) and any(tt) and len(leaves) == 1
                    # on this path (guard true for exactly the bytes in tt) the constant flag must equal bit 7
                    good = len(leaves) == 1 and all(((x >> 7) == 1) == bool(flag) for x in range(256) if tt[x])
                    if not good:
                        okd, why_d = False, "flag %s under guard %s" % (flag, show(gs[0])[:80])
                    continue
                okd, why_d = False, "flag = %s is not a comparison on byte 0" % (show(flag)[:80],)
                continue
            op_, a_, b_ = cmpe[2], C.expr_of(pa, cmpe[3]), C.expr_of(pa, cmpe[4])
            leaves = set()
            tt = [rel[op_](ev8(a_, x, leaves), ev8(b_, x, leaves)) for x in range(256)] if op_ in rel else None
            leaf_ok = len(leaves) == 1 and re.search(r"raw_value.*\[0\]", next(iter(leaves))) is not None
            if tt is None or not leaf_ok or any(tt[x] != (x >= 0x80) for x in range(256)):
                okd, why_d = False, "flag = %s %s %s is not bit 7 of byte 0 for every byte value" % (show(a_)[:60], op_, show(b_)[:20])
        okd = okd and n_okp >= 1
        ctx.ob(rule, "even-port:decode", okd, why_d or "EVEN-PORT decodes R = bit 7 of byte 0 for all 256 byte values (reserved bits ignored)", d.where())


NON_BE = re.compile(r"LittleEndian|NativeEndian|::(to|from)_(le|ne)_bytes$|::swap_bytes$|::to_le$|::from_le$")


def r2_4_big_endian(ctx, prog):
    ctx.rule("R2.4", "big-endian only: every byteorder call in stun-rs resolves to <BigEndian as ByteOrder>; no little/native "
                     "endian conversion anywhere (expected count 0; the pattern is checked against a positive fixture)")
    be = 0
    bad = []
    for b in prog.bodies.values():
        if b.crate != "stun_rs":
            continue
        for c in b.calls():
            p = c.full
            if "byteorder::" in p:
                if re.search(r"^<byteorder::BigEndian as byteorder::ByteOrder>::", p):
                    be += 1
                else:
                    bad.append("%s in %s" % (p, b.path))
            if NON_BE.search(p) or NON_BE.search(c.callee_path):
                bad.append("%s in %s" % (p, b.path))
    fixture = ["<byteorder::LittleEndian as byteorder::ByteOrder>::read_u16", "core::num::<impl u32>::to_le_bytes", "core::num::<impl u16>::from_ne_bytes"]
    ctx.ob("R2.4", "fixture", all(NON_BE.search(x) for x in fixture), "the non-big-endian pattern matches the positive fixture (%d names)" % len(fixture))
    ctx.ob("R2.4", "big-endian-only", not bad and be >= 20, "%d BigEndian calls, other byte orders: %s" % (be, bad[:3] or "none"))
    # to_be_bytes are fine; count them for the record
    ctx.extra["big_endian_calls"] = be


def r2_5_constants(ctx, prog, rule="R2.5"):
    ctx.rule(rule, "RFC constants and header ranges: MAGIC_COOKIE = 0x2112A442; header writer ranges type [0..2], length "
                     "[2..4], cookie [4..8], id [8..20] equal the reader's; sizes 20 / 4")
    b = prog.body("stun_rs::types::MAGIC_COOKIE", required=False)
    val = None
    if b is not None:
        for blk in b.blocks:
            for s in blk["stmts"]:
                if s["k"] == "assign" and s["rv"]["k"] == "aggregate":
                    for o in s["rv"]["ops"]:
                        if o["k"] == "const" and "bits" in o:
                            val = int(o["bits"])
    ctx.ob(rule, "magic-cookie", val == 0x2112A442, "MAGIC_COOKIE = %s" % (hex(val) if val is not None else None))
    enc = prog.body("stun_rs::context::MessageEncoder::encode")
    paths, info = C.explore_fn(prog, enc.path, "enc", [r"MessageEncoder::encode::\{closure", r"\{impl#\d+\}::encode::\{closure"])
    wr = set()
    for pa in paths:
        for e in pa.log:
            if e[0] == "loop-head":
                break
            if e[0] == "call" and re.search(r"IndexMut<std::ops::Range<usize>> for \[u8\]>::index_mut$|index_mut$", e[1]) and isinstance(e[2][1], tuple) and e[2][1][0] == "Range":
                wr.add((e[2][1][1], e[2][1][2]))
        mt = [e for e in pa.calls if re.search(r"MessageType as stun_rs::Encode>::encode$", e[1])]
        if mt:
            wr.add((0, 2))
    dec = prog.body("<stun_rs::raw::MessageHeader<'a> as stun_rs::Decode<'a>>::decode")
    paths, info = C.explore_fn(prog, dec.path, "x", [r"\{closure"])
    rd = set()
    for pa in paths:
        # the byte ranges the accepted header's fields are built from, however the reads are written
        r = C.expr_of(pa, pa.ret)
        if isinstance(r, tuple) and r[0] == "Result::Ok":
            rd |= bytesem.byte_ranges(r)
    exp = {(0, 2), (2, 4), (4, 8), (8, 20)}
    ctx.ob(rule, "header-ranges", wr >= exp and rd == exp, "writer ranges %s, reader ranges %s" % (sorted(wr), sorted(rd)), enc.where())

AP = "stun_rs::attributes::address_port::"


def _byte_reads(pa, base="top:buffer"):
    """(lo, hi) byte ranges of `base` whose contents reach a computation on this path: a sub-slice handed whole to another
    call (reader, copy source, comparison) counts as its range; a sub-slice that is only indexed further counts as the
    elements / sub-ranges actually taken from it; single-element reads appearing in switches, comparisons, call arguments
    and the result count as one byte"""
    out = set()
    texts = [pa.switches(), pa.guards(), C.expr_of(pa, pa.ret)]
    for i, e in enumerate(pa.calls):
        a = C.expr_of(pa, e[2])
        if re.search(r"::index$|::get$|split_at$", e[1]):
            continue                        # producing a view reads nothing by itself
        texts.append(a)
        for x in a:
            v = bytesem.slice_view(x, base)
            if v is not None and x != base and (v != (0, None)):
                out.add(v)
    flat = bytesem.flatten_views(texts, base)
    txt = repr(flat)
    for m in re.finditer(re.escape(base) + r"\[(\d+)\]", txt):
        out.add((int(m.group(1)), int(m.group(1)) + 1))
    return out


def r2_6_address_layout(ctx, prog, rule="R2.6"):
    ctx.rule(rule, "address attributes (MAPPED-ADDRESS family, shared SocketAddr codec, also under the XOR variants): the writer "
                   "sets byte 0 to zero, byte 1 to the family (1 / 2), bytes 2..4 to the port and 4..8 / 4..20 to the address and "
                   "returns 8 / 20; the reader selects on byte 1 alone, reads exactly those ranges, returns the same sizes for the "
                   "same families and never reads the reserved byte 0")
    # writer: the byte map of the output is rebuilt from every kind of write (element writes, write_u16, copy / clone
    # from an array literal or to_be_bytes, fill) and compared byte by byte
    from . import coverage_rules as K
    enc_path = AP + "<impl stun_rs::Encode for std::net::SocketAddr>::encode"
    paths, info = C.explore_fn(prog, enc_path, "x", K.STEP, memo_shared=True)
    ctx.fn(info["body"])
    fam_len = {}
    n = 0
    for pa in paths:
        r = C.expr_of(pa, pa.ret)
        if not (isinstance(r, tuple) and r[0] == "Result::Ok"):
            continue
        fam = None
        for nme, v in pa.choices:
            # the family is decided on self.ip() or on the SocketAddr itself (`match self { SocketAddr::V4(a) => .. }`)
            if re.match(r"^variant\(ret:ip", str(nme)) or (str(nme) == "variant(x)" and v in ("V4", "V6")):
                fam = v
        n += 1
        ivs, probs = K.intervals(prog, pa, "buffer")
        size = r[1]
        alen = 4 if fam == "V4" else 16
        code = 1 if fam == "V4" else 2
        okc, reached = K.covered(ivs, size) if isinstance(size, int) else (False, None)
        b0, b1 = K.byte_value(ivs, 0), K.byte_value(ivs, 1)
        port = [K.byte_value(ivs, 2), K.byte_value(ivs, 3)]
        # the port / address of self, read through SocketAddr::port / ip or through the V4 / V6 payload's own accessors
        is_port = lambda t: isinstance(t, tuple) and len(t) == 2 and t[0] in ("SocketAddr::port", "SocketAddrV4::port", "SocketAddrV6::port") \
            and (t[1] == "top:x" or (isinstance(t[1], tuple) and t[1][0] in ("SocketAddr::V4", "SocketAddr::V6") and "top:x" in repr(t[1])) or "top:x." in repr(t[1]))
        port_ok = all(isinstance(x, tuple) and x[0] == "be-byte" and is_port(x[1]) and x[3] == 2 for x in port) \
            and [x[2] for x in port] == [0, 1]
        addr = [K.byte_value(ivs, i) for i in range(4, 4 + alen)]
        addr_ok = all(isinstance(x, tuple) and x[0] == "byte-of" and "octets" in repr(x[1]) and ("SocketAddr::ip" in repr(x[1]) or ("%s::ip" % ("SocketAddrV4" if fam == "V4" else "SocketAddrV6")) in repr(x[1]))
                      and "top:x" in repr(x[1]) and x[3] == alen for x in addr) \
            and [x[2] for x in addr] == list(range(alen))
        ok = not probs and okc and size == 4 + alen and b0 == 0 and b1 == code and port_ok and addr_ok
        fam_len[code] = 4 + alen
        ctx.ob(rule, "writer:%s" % fam, ok, "size %s, byte0=%s byte1=%s port=%s address=%s%s" % (
            size, b0, b1, "2..4 big-endian" if port_ok else port, "4..%d octets" % (4 + alen) if addr_ok else str(addr)[:80],
            ("; " + "; ".join(probs)) if probs else ""), info["where"], replay=None if ok else pa.describe())
    ctx.floor(rule, "writer families", n, 2)
    paths, info = C.explore_fn(prog, AP + "encoded_size_", "x", [])
    sizes = {(pa.choice(r"^variant\(ret:ip@") or pa.choice(r"^variant\((addr|x|self)\)$")): pa.ret for pa in paths}
    ctx.ob(rule, "writer:sizes", sizes == {"V4": 8, "V6": 20}, "encoded_size_ = %s" % sizes, info["where"])
    # reader
    paths, info = C.explore_fn(prog, AP + "<impl stun_rs::Decode<'_> for std::net::SocketAddr>::decode", "x", [r"\{closure"])
    ctx.fn(info["body"])
    n = 0
    for pa in paths:
        r = bytesem.flatten_views(C.expr_of(pa, pa.ret))
        sw = bytesem.flatten_views(pa.switches())
        reads = _byte_reads(pa)
        if any(lo == 0 for lo, hi in reads):
            ctx.ob(rule, "reader:reserved-byte:%s" % (sw[-1][1] if sw else "-"), False,
                   "the reader reads byte 0 (reserved, MUST be ignored): ranges %s, selector %s" % (sorted(reads, key=str), [show(x[0]) for x in sw]),
                   info["where"], replay=pa.describe())
            continue
        if not (isinstance(r, tuple) and r[0] == "Result::Ok"):
            continue
        n += 1
        fam = int(sw[0][1]) if len(sw) == 1 and sw[0][0] == "top:buffer[1]" and str(sw[0][1]).isdigit() else None
        want = fam_len.get(fam)
        # exactly the bytes 1 .. size are read (family, port, address), however the reads are split
        read_bytes = set()
        for lo, hi in reads:
            if not isinstance(lo, int) or not (hi is None or isinstance(hi, int)):
                read_bytes.add(10 ** 6)                     # a range the rule cannot evaluate: not the expected layout
                continue
            read_bytes |= set(range(lo, hi)) if hi is not None else {lo, 10 ** 6}
        ok = want is not None and read_bytes == set(range(1, want))
        if ok:
            val = r[1]
            ok = val[0] == "tuple" and val[2] == want and val[1][0] == "SocketAddr::new" and bytesem.be_value(val[1][2]) == (2, 4) \
                and "IpAddr::from" in repr(val[1][1])
            cp = [C.expr_of(pa, e[2]) for e in pa.calls if re.search(r"clone_from_slice$|copy_from_slice$", e[1])]
            ok = ok and len(cp) == 1 and bytesem.slice_view(cp[0][1]) == (4, want)
        ctx.ob(rule, "reader:family=%s" % fam, ok, "selector %s, reads %s, returns %s" % ([(show(a), b) for a, b in sw], sorted(reads, key=str), show(r)[:120]),
               info["where"], replay=None if ok else pa.describe())
    ctx.floor(rule, "reader families", n, 2)


UA = "stun_rs::attributes::stun::unknown_attributes::UnknownAttributes"


def r2_7_u16_list(ctx, prog, rule="R2.7"):
    ctx.rule(rule, "UNKNOWN-ATTRIBUTES is a list of 16-bit values: the writer emits 2 bytes per entry (size = 2 x count, entry i at "
                   "2 x i); the reader rejects exactly the lengths that are not a multiple of 2, reads count = len / 2 entries at 2 x i")
    paths, info = C.explore_fn(prog, "<%s as stun_rs::attributes::EncodeAttributeValue>::encode" % UA, "x", [r"\{closure"])
    ctx.fn(info["body"])
    k = None
    for pa in paths:
        r = C.expr_of(pa, pa.ret)
        if isinstance(r, tuple) and r[0] == "Result::Ok":
            v = r[1]
            if isinstance(v, tuple) and v[0] == "op:Mul" and isinstance(v[2], int) and "Vec::len" in repr(v[1]):
                k = v[2]
            ctx.ob(rule, "writer:size", k == 2, "encode returns %s" % show(v)[:100], info["where"])
    cl = [b for b in prog.bodies.values() if b.path.startswith("<%s as stun_rs::attributes::EncodeAttributeValue>::encode::{closure" % UA)]
    for b in cl:
        cps, cinfo = C.explore_fn(prog, b.path, "c", [])
        for pa in cps:
            ix = [C.expr_of(pa, e[2]) for e in pa.calls if re.search(r"::index_mut$", e[1])]
            wr = [e for e in pa.calls if re.search(r"ByteOrder>::write_u16$", e[1])]
            ok = len(ix) == 1 and len(wr) == 1 and isinstance(ix[0][1], tuple) and ix[0][1][0] == "RangeFrom" \
                and isinstance(ix[0][1][1], tuple) and ix[0][1][1][0] == "op:Mul" and ix[0][1][1][2] == 2
            why = "entry written at %s" % (show(ix[0][1])[:80] if ix else None)
            if not ix:
                # `chunks_exact_mut(2).zip(list.iter()).for_each(|(chunk, x)| <write x big-endian into chunk>)`: the closure
                # fills its chunk with its entry; the parent hands it the 2-byte chunks of the value zipped with the list
                cw = [C.expr_of(pa, e[2]) for e in pa.calls if re.search(r"ByteOrder>::write_u16$|copy_from_slice$", e[1])]
                fills = len(cw) == 1 and "arg2.0" in repr(cw[0][0]) and "arg2.1" in repr(cw[0][1]) and \
                    ("to_be_bytes" in repr(cw[0][1]) or any(re.search(r"write_u16$", e[1]) for e in pa.calls))
                from .. import linproof as LP
                pp, pinfo = C.explore_fn(prog, "<%s as stun_rs::attributes::EncodeAttributeValue>::encode" % UA, "x", [], log_asserts=True)
                feeds = False
                for ppa in pp:
                    for i_, e_ in enumerate(ppa.log):
                        if e_[0] == "call" and re.search(r"Iterator>::for_each", e_[1]):
                            z = LP.strip(C.expr_of(ppa, e_[2], 0, i_)[0])
                            if isinstance(z, tuple) and z[0].endswith("::zip") and len(z) == 3:
                                ch, other = LP.strip(z[1]), LP.strip(z[2])
                                if isinstance(ch, tuple) and re.search(r"chunks_exact_mut$", ch[0]) and ch[2] == 2 and "attrs" in repr(other):
                                    root, lo, hi = LP.Lin().view(ch[1])
                                    feeds = "raw_value" in repr(root) and lo == {}
                ok = fills and feeds
                why = "the closure writes its entry big-endian into its chunk: %s; it is fed the 2-byte chunks of the value zipped with the list: %s" % (fills, feeds)
            ctx.ob(rule, "writer:stride", ok, why, b.where())
    n_writers = len(cl)
    if not cl:
        # loop form: `for (slot, x) in raw_value[..len].chunks_exact_mut(2).zip(attrs.iter()) { write_u16(slot, *x) }`:
        # by the std semantics of chunks_exact_mut / zip, entry i lands at 2 x i of the view, which must start at byte 0
        from .. import linproof as LP
        wpaths, winfo = C.explore_fn(prog, "<%s as stun_rs::attributes::EncodeAttributeValue>::encode" % UA, "x", [r"\{closure"], log_asserts=True)
        seen_w = {}
        for pa in wpaths:
            for i, e in enumerate(pa.log):
                if e[0] != "call" or not re.search(r"ByteOrder>::write_u16$|slice::<impl \[u8\]>::copy_from_slice$", e[1]):
                    continue
                a = C.expr_of(pa, e[2], 0, i)
                d, v = LP.strip(a[0]), LP.strip(a[1])
                if e[1].endswith("copy_from_slice"):
                    # slot.copy_from_slice(&x.to_be_bytes()): the big-endian write of x, spelled with std
                    v0 = v
                    while isinstance(v0, tuple) and len(v0) == 2 and isinstance(v0[1], str) and v0[1].startswith("."):
                        v0 = LP.strip(v0[0])
                    if not (isinstance(v0, tuple) and len(v0) == 2 and v0[0] == "u16::to_be_bytes"):
                        continue
                    v = LP.strip(v0[1])
                ok = False
                why = "write_u16(%s, %s)" % (show(d)[:80], show(v)[:60])
                if isinstance(d, tuple) and len(d) == 2 and isinstance(d[0], tuple) and d[0][0].endswith("::next") and re.match(r"\.some\.0(\.\*)?$", d[1]):
                    z = LP.strip(d[0][1])
                    if isinstance(z, tuple) and z[0].endswith("::zip") and len(z) == 3:
                        ch, other = LP.strip(z[1]), LP.strip(z[2])
                        L = LP.Lin()
                        if isinstance(ch, tuple) and re.search(r"chunks_exact_mut$", ch[0]) and ch[2] == 2 and "attrs" in repr(other) and "iter" in repr(other):
                            root, lo, hi = L.view(ch[1])
                            same_item = isinstance(v, tuple) and len(v) == 2 and v[0] == d[0] and re.match(r"\.some\.1(\.\*)*$", v[1]) is not None
                            ok = "raw_value" in repr(root) and lo == {} and same_item
                            why = "entries are the 2-byte chunks of %s zipped with the list, each written with its own entry: %s" % (show(ch[1])[:60], same_item)
                if "w" not in seen_w or not ok:
                    seen_w["w"] = (ok, why)
        for k_, (ok, why) in seen_w.items():
            ctx.ob(rule, "writer:stride", ok, why, winfo["where"])
        n_writers = len(seen_w)
    ctx.floor(rule, "writer closures", n_writers, 1)
    paths, info = C.explore_fn(prog, "<%s as stun_rs::attributes::DecodeAttributeValue>::decode" % UA, "x", [r"\{closure"], log_asserts=True)
    ctx.fn(info["body"])
    seen = {}
    for pa in paths:
        r = C.expr_of(pa, pa.ret)
        okk = isinstance(r, tuple) and r[0] == "Result::Ok"
        gs = [g for g in pa.guards() if "slice::len" in repr(g[1]) + repr(g[2])]
        form = None
        for op, a, b, v in gs:
            if op in ("Ne", "Eq") and b == 0 and isinstance(a, tuple) and a[0] in ("op:BitAnd", "op:Rem") and isinstance(a[2], int):
                modulus = a[2] + 1 if a[0] == "op:BitAnd" else a[2]
                odd = (v == 1) if op == "Ne" else (v == 0)
                form = (modulus, odd)
        if form is None:
            # `raw_value.chunks_exact(n).remainder().is_empty()`: by the std semantics the remainder holds len % n bytes
            from .. import linproof as LP
            for i2, e2 in enumerate(pa.log):
                if e2[0] == "call" and re.search(r"slice::<impl \[u8\]>::is_empty$", e2[1]):
                    src = LP.strip(C.expr_of(pa, e2[2], 0, i2)[0])
                    if isinstance(src, tuple) and len(src) == 2 and isinstance(src[0], str) and src[0].endswith("ChunksExact::remainder"):
                        ch = LP.strip(src[1])
                        if isinstance(ch, tuple) and re.search(r"chunks_exact$", ch[0]) and len(ch) == 3 and isinstance(ch[2], int):
                            root, lo, hi = LP.Lin().view(ch[1])
                            got = pa.choice(r"%s$" % re.escape(e2[4].split("@")[-1]))
                            if "raw_value" in repr(root) and lo == {} and got in (0, 1):
                                form = (ch[2], got == 0)
        if form is None:
            seen["test"] = (False, "no length granularity test on this path (guards %s)" % (gs,))
            continue
        modulus, odd = form
        ok = modulus == 2 and (odd != okk)
        if okk:
            nx = [C.expr_of(pa, e[2]) for e in pa.calls if re.search(r"Iterator>::next$|range::.*next$", e[1])]
            cnt_ok = any(repr(("op:Div",))[1:-2] in repr(x) and repr(x).count(", 2)") >= 1 for x in nx)
            ix = [C.expr_of(pa, e[2]) for e in pa.calls if re.search(r"::index$", e[1])]
            st_ok = all(isinstance(x[1], tuple) and x[1][0] == "RangeFrom" and isinstance(x[1][1], tuple) and x[1][1][0] == "op:Mul" and x[1][1][2] == 2 for x in ix)
            # chunk form: `for chunk in raw_value.chunks_exact(2) { read_u16(chunk) }` reads len / 2 entries at 2 x i by the std
            # semantics of chunks_exact; every read must take such a chunk of the whole value
            from .. import linproof as LP
            chunk_ok = None
            for i2, e2 in enumerate(pa.log):
                if e2[0] == "call" and re.search(r"ByteOrder>::read_u16$", e2[1]):
                    src = LP.strip(C.expr_of(pa, e2[2], 0, i2)[0])
                    this = False
                    if isinstance(src, tuple) and len(src) == 2 and isinstance(src[0], tuple) and src[0][0].endswith("::next") and re.match(r"\.some(\.\*)?$", src[1]):
                        ch = LP.strip(src[0][1])
                        while isinstance(ch, tuple) and len(ch) == 2 and isinstance(ch[0], str) and ch[0].endswith("::into_iter"):
                            ch = LP.strip(ch[1])
                        if isinstance(ch, tuple) and re.search(r"chunks_exact$", ch[0]) and len(ch) == 3 and ch[2] == 2:
                            root, lo, hi = LP.Lin().view(ch[1])
                            this = "raw_value" in repr(root) and lo == {}
                    chunk_ok = this if chunk_ok is None else (chunk_ok and this)
            if chunk_ok is None:
                # no entry read on this path (empty list): the chunk iterator over the whole value must still be what is consumed
                for i2, e2 in enumerate(pa.log):
                    if e2[0] == "call" and re.search(r"slice::<impl \[.*\]>::chunks_exact$", e2[1]):
                        a2 = C.expr_of(pa, e2[2], 0, i2)
                        root, lo, hi = LP.Lin().view(a2[0])
                        chunk_ok = a2[1] == 2 and "raw_value" in repr(root) and lo == {}
            if chunk_ok:
                cnt_ok = st_ok = True
            ok = ok and cnt_ok and st_ok
            why = "accepted iff len %% %d == 0; count %s; stride ok=%s%s" % (modulus, [show(x)[:60] for x in nx[:1]], st_ok, " (chunks_exact(2))" if chunk_ok else "")
        else:
            why = "rejected iff len %% %d != 0" % modulus
        key = "reader:%s" % ("accept" if okk else "reject")
        if key not in seen or not ok:
            seen[key] = (ok, why)
    for key, (ok, why) in sorted(seen.items()):
        ctx.ob(rule, key, ok, why, info["where"])
    ctx.floor(rule, "reader classes", len(seen), 2)


def r2_10_header_validation(ctx, prog, rule="R2.10"):
    ctx.rule(rule, "a STUN header is accepted only if the two most significant bits of the type word are zero and bytes 4..8 equal "
                   "the magic cookie 0x2112A442; the accepted header carries type & 0x3FFF, the length read from 2..4, the "
                   "transaction id 8..20 and consumes 20 bytes")
    fn = "<stun_rs::raw::MessageHeader<'a> as stun_rs::Decode<'a>>::decode"
    paths, info = C.explore_fn(prog, fn, "x", [r"\{closure"])
    ctx.fn(info["body"])
    def is_t(x):
        return bytesem.be_value(x) == (0, 2)
    n_ok = 0
    for pa in paths:
        r = C.expr_of(pa, pa.ret)
        if not (isinstance(r, tuple) and r[0] == "Result::Ok"):
            continue
        n_ok += 1
        bits_ok = False
        for op, a, b, v in pa.guards():
            if isinstance(a, tuple) and b == 0 and ((op == "Ne" and v == 0) or (op == "Eq" and v == 1)):
                if a[0] == "op:Shr" and is_t(a[1]) and a[2] == 14:
                    bits_ok = True
                if a[0] == "op:BitAnd" and is_t(a[1]) and a[2] == 0xC000:
                    bits_ok = True
            if op == "Lt" and v == 1 and is_t(a) and b == 0x4000:
                bits_ok = True
            if op == "Ge" and v == 0 and is_t(a) and b == 0x4000:
                bits_ok = True
        cookie_ok = False
        for e in pa.calls:
            m = re.search(r"PartialEq<.*>>::(eq|ne)$", e[1])
            if not m:
                continue
            a = C.expr_of(pa, e[2])
            if (4, 8) in bytesem.byte_ranges(a) and 0x2112A442 in [x for t in a if isinstance(t, tuple) for x in t if isinstance(x, int)]:
                want = 1 if m.group(1) == "eq" else 0
                got = pa.choice(r"%s$" % re.escape(e[4].split("@")[-1]))
                cookie_ok = (got == want)
        val = r[1]
        hdr = val[1] if isinstance(val, tuple) and val[0] == "tuple" else None
        shape_ok = isinstance(hdr, tuple) and hdr[0] == "MessageHeader" and len(hdr) == 6 and val[2] == 20 \
            and isinstance(hdr[2], tuple) and hdr[2][0] == "op:BitAnd" and is_t(hdr[2][1]) and hdr[2][2] == 0x3FFF \
            and bytesem.be_value(hdr[3]) == (2, 4) \
            and bytesem.byte_ranges(hdr[4]) == {(4, 8)} and bytesem.byte_ranges(hdr[5]) == {(8, 20)}
        ctx.ob(rule, "header:accept", bits_ok and cookie_ok and shape_ok,
               "accepted iff top two bits zero: %s, cookie equal: %s; fields type&0x3FFF / length 2..4 / cookie 4..8 / id 8..20 / size 20: %s"
               % (bits_ok, cookie_ok, shape_ok), info["where"], replay=None if (bits_ok and cookie_ok and shape_ok) else pa.describe())
    ctx.floor(rule, "accepting paths of MessageHeader::decode", n_ok, 1)


RESERVED_TABLE = [
    # (attribute type path, decoded value may depend only on the first N bytes of the value, consumed size)
    ("turn::channel_number::ChannelNumber", 2, 4),
    ("turn::requested_transport::RequestedTrasport", 1, 4),
    ("turn::requested_address_family::RequestedAddressFamily", 1, 4),
    ("turn::additional_address_family::AdditionalAddressFamily", 1, 4),
]
FIXED_READERS = {"common::decode": None, "ProtocolNumber::decode": 1, "AddressFamily::decode": 1}


def r2_11_reserved_ignored(ctx, prog, rule="R2.11"):
    ctx.rule(rule, "reserved (RFFU) bytes of CHANNEL-NUMBER, REQUESTED-TRANSPORT, REQUESTED- / ADDITIONAL-ADDRESS-FAMILY are "
                   "ignored by the receiver: the decoded value is built only from a fixed-size reader applied to the start of "
                   "the value (2 / 1 / 1 / 1 bytes); no other byte of the value reaches it; the consumed size is 4")
    n = 0
    for ty, keep, size in RESERVED_TABLE:
        fn = "<stun_rs::attributes::%s as stun_rs::attributes::DecodeAttributeValue>::decode" % ty
        b = prog.body(fn, required=False)
        if b is None:
            continue
        paths, info = C.explore_fn(prog, fn, "x", [r"\{closure"])
        ctx.fn(b)
        for pa in paths:
            r = C.expr_of(pa, pa.ret)
            if not (isinstance(r, tuple) and r[0] == "Result::Ok"):
                continue
            n += 1
            val = r[1]
            probs = []
            if not (isinstance(val, tuple) and val[0] == "tuple" and len(val) == 3 and val[2] == size):
                probs.append("consumed size is %s" % (show(val[2])[:30] if isinstance(val, tuple) and len(val) == 3 else "?"))
            v = val[1] if isinstance(val, tuple) and len(val) == 3 else None
            txt = repr(v)
            RV = repr((("AttributeDecoderContext::raw_value", "top:ctx"), ".*"))
            # every occurrence of the raw value inside the decoded value must be the argument of one fixed-size reader
            occ = txt.count("AttributeDecoderContext::raw_value")
            readers = []

            def walk(t):
                if isinstance(t, tuple):
                    if t and isinstance(t[0], str) and t[0] in FIXED_READERS and len(t) == 2 and repr(t[1]) == RV:
                        readers.append(t[0])
                        return
                    for x in t:
                        walk(x)
            walk(v)
            if occ != len(readers) or len(readers) != 1:
                probs.append("the value references the raw bytes %d time(s) outside a single fixed-size reader: %s" % (occ - len(readers), show(v)[:120]))
            else:
                width = FIXED_READERS[readers[0]]
                if width is None:
                    # generic integer reader: its width is the type parameter of the call on this path
                    cs = [e[1] for e in pa.calls if C.short(e[1]) == readers[0] and repr(C.expr_of(pa, e[2])[0]) == RV]
                    m = re.search(r"Decode<'\w+> for (u16|u32|u64)>::decode$", cs[0]) if cs else None
                    width = {"u16": 2, "u32": 4, "u64": 8}.get(m.group(1)) if m else None
                if width != keep:
                    probs.append("reader %s reads %s byte(s), the meaningful field has %d" % (readers[0], width, keep))
            ctx.ob(rule, "reserved:%s" % ty.split("::")[-1], not probs, "; ".join(probs) or "decoded value = %s; %d bytes consumed" % (show(v)[:100], size),
                   info["where"], replay=None if not probs else pa.describe())
    ctx.floor(rule, "decoders with reserved fields", n, 4)


def r2_12_security_features(ctx, prog, rule="R2.12"):
    ctx.rule(rule, "STUN Security Features (RFC 8489 18.1) in the nonce cookie: a 24-bit field, bit 0 (most significant) = password "
                   "algorithms, bit 1 = username anonymity; the code keeps it in the top three bytes of a big-endian u32, so "
                   "the flags are 1 << 31 and 1 << 30; the writer emits to_be_bytes()[..3], the reader fills a zeroed 4-byte "
                   "array and reads it big-endian")
    adt = prog.adt("stun_rs::attributes::stun::nonce_cookie::StunSecurityFeatures")
    got = {v["name"]: int(v["discr"]) if v.get("discr") is not None else None for v in adt["variants"]}
    want = {"PasswordAlgorithms": 1 << 31, "UserNameAnonymity": 1 << 30}
    ctx.ob(rule, "flag-values", got == want, "flags %s" % {k: (hex(v) if v is not None else None) for k, v in got.items()})
    enc = [b for b in prog.bodies.values() if re.search(r"Nonce>::new_nonce_cookie(::<.*>)?$", b.path)]
    dec = next((b for b in prog.bodies.values() if re.search(r"Nonce>::security_features$", b.path)), None)
    if not enc or dec is None:
        ctx.anchor_missing(rule, "Nonce::new_nonce_cookie / Nonce::security_features")
        return
    e_calls = [c.callee_path for c in enc[0].calls()]
    ok_e = any(re.search(r"<impl u32>::to_be_bytes$", c) for c in e_calls) and \
        any(re.search(r"ops::Index<.*>.*::index$", c) for c in e_calls)
    # the RangeTo(3) constant
    three = False
    for blk in enc[0].blocks:
        for st in blk["stmts"]:
            if st["k"] == "assign" and st["rv"]["k"] == "aggregate" and "RangeTo" in str(st["rv"].get("adt", "")):
                for o in st["rv"]["ops"]:
                    if o["k"] == "const" and o.get("bits") is not None and int(o["bits"]) == 3:
                        three = True
    sem = None
    if not (ok_e and three):
        # the same bytes spelled otherwise (`let [b0, b1, b2, _] = bits.to_be_bytes(); encode([b0, b1, b2])`): what is handed to
        # the base64 encoder must be the three most significant bytes of the flags word, in order
        wp, winfo = C.explore_fn(prog, enc[0].path, "x", [r"\{closure"], concrete_iters=True)
        sem = bool(wp)
        for pa in wp:
            encs = [(i, e) for i, e in enumerate(pa.log) if e[0] == "call" and re.search(r"base64::Engine>::encode", e[1])]
            if pa.choice(r"^variant\(flags\)$") == "None" and not encs:
                continue
            good = False
            for i, e in encs:
                a = C.expr_of(pa, e[2], 0, i)[1]
                while isinstance(a, tuple) and len(a) == 2 and isinstance(a[1], str) and a[1].startswith("."):
                    a = a[0]
                if isinstance(a, tuple) and a and a[0].endswith("index") and len(a) == 3 and a[2] == ("RangeTo", 3):
                    a = ("array",) + tuple(a[1][1:4]) if isinstance(a[1], tuple) and a[1][0] == "array" else a
                if isinstance(a, tuple) and a and a[0] == "array" and len(a) == 4:
                    bases = {repr(x[1]) for x in a[1:] if isinstance(x, tuple) and len(x) == 3 and x[0] == "op:Shr"}
                    good = len(bases) == 1 and [x[2] for x in a[1:]] == [24, 16, 8] and "bits" in next(iter(bases))
                    if not good and pa.choice(r"^variant\(flags\)$") == "None":
                        good = list(a[1:]) == [0, 0, 0]          # no flags: the word is the constant 0
            sem = sem and good
    ctx.ob(rule, "writer", (ok_e and three) or bool(sem), "new_nonce_cookie: to_be_bytes %s, [..3] %s%s" % (ok_e, three, "" if sem is None else "; the encoder receives the three most significant bytes of the flags word: %s" % sem), enc[0].where())
    d_calls = [c.callee_path for c in dec.calls()]
    ok_d = any(re.search(r"BigEndian as byteorder::ByteOrder>::read_u32$|from_be_bytes$", c) for c in d_calls) and \
        any(re.search(r"decode_slice", c) for c in d_calls)
    ctx.ob(rule, "reader", ok_d, "security_features: base64 decode_slice into the array, big-endian u32 read: %s" % ok_d, dec.where())


COOKIE_U32 = ("Cookie::as_u32", ("Cookie", 0x2112A442))


def r2_13_xor_addresses(ctx, prog, rule="R2.13"):
    ctx.rule(rule, "XOR-MAPPED / XOR-PEER / XOR-RELAYED-ADDRESS: port ^ (cookie >> 16); IPv4 octet i ^ (cookie >> (24 - 8 i)) for "
                   "i in 0..4; IPv6 octets 0..4 likewise and octet i ^ transaction_id[i - 4] for i in 4..16; the same involution "
                   "is applied on both sides (xor_encode: xor then encode; xor_decode: decode then xor) with the transaction id "
                   "taken from the header of the message being encoded / decoded")
    fn = "stun_rs::common::socket_addr_xor"
    # concrete iterator models: the loops over the 4 / 16 octets unroll, whatever idiom they are written in
    paths, info = C.explore_fn(prog, fn, "x", [r"\{closure"], concrete_iters=True)
    body = info["body"]
    ctx.fn(body)
    port = ("op:BitXor", ("SocketAddr::port", "top:addr"), ("op:Shr", COOKIE_U32, 16))
    fams = {}
    for pa in paths:
        fam = pa.choice(r"^variant\(ret:ip@")
        n = {"V4": 4, "V6": 16}.get(fam)
        r = C.expr_of(pa, pa.ret)
        probs = []
        if info["bounded"] or n is None:
            probs.append("exploration incomplete or unknown family %s" % fam)
        okr = isinstance(r, tuple) and r[0] == "SocketAddr::new" and same(r[2], port) and isinstance(r[1], tuple) \
            and r[1][0] in ("IpAddr::%s" % fam, "IpAddr::from") and "Ipv%sAddr::octets" % fam[1] in repr(r[1])
        if not okr:
            probs.append("result is %s" % show(r)[:100])
        masks = {}
        for i, e in enumerate(pa.log):
            if e[0] == "write-elem" and len(e[2]) == 1:
                m = re.match(r"\[(\d+)\]$", str(e[2][0]))
                v = C.expr_of(pa, e[3], 0, i)
                # octet[i] ^= mask: the element read back is `octets[i]` (a label, or (octets expression, "[i]"))
                elem_ok = m and isinstance(v, tuple) and v[0] == "op:BitXor" and (
                    (isinstance(v[1], str) and v[1].endswith("[%s]" % m.group(1)) and "octets" in v[1]) or
                    (isinstance(v[1], tuple) and len(v[1]) == 2 and v[1][1] == "[%s]" % m.group(1) and "octets" in repr(v[1][0])))
                if elem_ok:
                    masks.setdefault(int(m.group(1)), []).append(v[2])
                else:
                    probs.append("octet write %s := %s" % (e[2], show(v)[:80]))
            elif e[0] in ("write", "write-unknown-pointer") and "octets" in repr(e):
                probs.append("octets written at an unknown index")
        for i in range(n or 0):
            want = ("op:Shr", COOKIE_U32, 24 - 8 * i) if i < 4 else "top:transaction_id[%d]" % (i - 4)
            got = masks.get(i)
            if got != [want]:
                probs.append("octet %d is XOR-ed with %s, expected %s" % (i, [show(x)[:60] for x in got] if got else "nothing", show(want)[:60]))
        extra = sorted(k for k in masks if n is None or k >= n)
        if extra:
            probs.append("octets %s written beyond the address" % extra)
        k = "family=%s" % fam
        if k not in fams or probs:
            fams[k] = (probs, pa)
    for k, (probs, pa) in sorted(fams.items()):
        ctx.ob(rule, "xor:%s" % k, not probs, "; ".join(probs[:3]) or "port ^ cookie>>16; every octet XOR-ed exactly once with its mask byte", info["where"],
               replay=None if not probs else pa.describe())
    ctx.floor(rule, "address families", len(fams), 2)
    # both directions use the same involution
    paths, info = C.explore_fn(prog, "stun_rs::common::xor_encode", "x", [r"\{closure"])
    for pa in paths:
        r = C.expr_of(pa, pa.ret)
        if isinstance(r, tuple) and r[0] == "Result::Ok":
            want = (("address_port::encode", ("common::socket_addr_xor", (("T::as_ref", "top:addr"), ".*"), "top:transaction_id"), "top:buffer"), ".ok")
            ctx.ob(rule, "xor:encode", r[1] == want, "xor_encode = %s" % show(r[1])[:140], info["where"])
    paths, info = C.explore_fn(prog, "stun_rs::common::xor_decode", "x", [r"\{closure"])
    for pa in paths:
        r = C.expr_of(pa, pa.ret)
        if isinstance(r, tuple) and r[0] == "Result::Ok":
            d = ("address_port::decode", "top:buffer")
            want = ("tuple", ("common::socket_addr_xor", (d, ".ok.0"), "top:transaction_id"), (d, ".ok.1"))
            ctx.ob(rule, "xor:decode", r[1] == want, "xor_decode = %s" % show(r[1])[:140], info["where"])
    # transaction id provenance in the three attributes
    n = 0
    for ty in ("stun::xor_mapped_address::XorMappedAddress", "turn::xor_peer_address::XorPeerAddress", "turn::xor_relayed_address::XorRelayedAddress"):
        for side, tr, msgfn in (("encode", "EncodeAttributeValue", "AttributeEncoderContext::encoded_message"), ("decode", "DecodeAttributeValue", "AttributeDecoderContext::decoded_message")):
            b = prog.body("<stun_rs::attributes::%s as stun_rs::attributes::%s>::%s" % (ty, tr, side), required=False)
            if b is None:
                continue
            paths, info = C.explore_fn(prog, b.path, "x", [r"\{closure"])
            found = None
            for pa in paths:
                for e in pa.calls:
                    if re.search(r"common::xor_%s(::<.*>)?$" % side, e[1]):
                        found = pa.args(e)[0]
            want = ((("MessageHeader::decode", ((msgfn, "top:ctx"), ".*")), ".ok.0.transaction_id.*"))
            n += 1
            ctx.ob(rule, "xor:tid:%s:%s" % (ty.split("::")[-1], side), found == want, "transaction id = %s" % show(found)[:120], b.where())
    ctx.floor(rule, "xor attribute codec sides", n, 6)



def check(ctx, env):
    ctx.explanation = (
        "Static: (R2.1) type codes evaluated from the get_type() bodies vs the IANA table; (R2.2) the message-type "
        "interleaving is decided for all 16384 (method, class) pairs at once by evaluating the expression trees extracted "
        "from MessageType::as_u16 and From<u16> in a bit-provenance domain; (R2.3) ERROR-CODE / ICMP / EVEN-PORT layouts as "
        "expression trees; (R2.4) big-endian only (who-may-call, with a positive fixture); (R2.5) RFC constants and header "
        "byte ranges writer = reader. Byte equality with an independent codec for arbitrary values, XOR-ed addresses and the "
        "ignorable-bits clause are NOT decided, except for the address attributes' reserved byte (R2.6) and the 16-bit list "
        "granularity of UNKNOWN-ATTRIBUTES (R2.7).")
    ctx.assumptions = ["rustc MIR", "the IANA table typed into anchors/iana_attributes.json", "callee models of analysis/models.py"]
    n = 0
    for cfg in ("full", "agent"):
        n += r2_1_iana(ctx, env.prog(cfg), cfg)
    ctx.floor("R2.1", "type codes compared", n, 38 + 10)
    prog = env.prog("full")
    r2_2_message_type(ctx, prog)
    r2_3_layouts(ctx, prog)
    r2_4_big_endian(ctx, prog)
    r2_5_constants(ctx, prog)
    r2_6_address_layout(ctx, prog)
    r2_7_u16_list(ctx, prog)
    r2_10_header_validation(ctx, prog)
    r2_11_reserved_ignored(ctx, prog)
    r2_12_security_features(ctx, prog)
    r2_13_xor_addresses(ctx, prog)
    c01.r1_6_nested_padding(ctx, prog, rule="R2.8")      # inner padding of the nested PASSWORD-ALGORITHMS list is written where it belongs
    from . import coverage_rules
    coverage_rules.r14_5_write_coverage(ctx, prog, rule="R2.9")   # every byte of an encoded value is written (reserved / padding bytes cannot keep stale data)
    ctx.extra["exhaustive"] = True
    if env.tier == "thorough":
        from .. import witness
        witness.run(ctx, "R2.2", ["W2"])
