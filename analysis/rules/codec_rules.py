"""Rules about the stun-rs codec side decided with E2 expression trees / path tables and E4 queries:
C10 R10.2-R10.4, C04 R4.1-R4.5, C18 R18.1-R18.4, C13 R13.1/2/4/5/6, C11 R11.2-R11.4."""
import re
from .. import client as C
from .. import shared
from ..mirq import q_of
from .exprs import same, show
from . import client_rules as R

FP_T = "stun_rs::attributes::stun::fingerprint::Fingerprint"
DFP_T = "stun_rs::attributes::stun::fingerprint::DecodableFingerprint"
MI_T = "stun_rs::attributes::stun::message_integrity::MessageIntegrity"
SHA_T = "stun_rs::attributes::stun::message_integrity_sha256::MessageIntegritySha256"
ENC = "stun_rs::attributes::EncodeAttributeValue"
XOR = 0x5354554e


def _paths(ctx, prog, fn, label="self", step=(r"\{closure",), models=()):
    paths, info = C.explore_fn(prog, fn, label, list(step), extra_models=list(models))
    ctx.fn(info["body"])
    return paths, info


def _ret(pa):
    return C.expr_of(pa, pa.ret)


# ------------------------------------------------------------------------------------------------ C10

def r10_2_fail_closed(ctx, prog, rule="R10.2"):
    ctx.rule(rule, "fingerprint validation fails closed: FINGERPRINT absent -> Err(StunCheckFailed); the verdict is exactly "
                   "the boolean of Fingerprint::validate over get_input_text::<Fingerprint>(buffer); an Encodable value "
                   "validates to false; DecodableFingerprint::validate is `stored == crc(input)`")
    paths, info = _paths(ctx, prog, "stun_agent::fingerprint::validate_fingerprint", "x")
    n = 0
    for pa in paths:
        got = pa.choice(r"^variant\(ret:get@")
        r = _ret(pa)
        n += 1
        if got == "None":
            ok = r == ("Result::Err", "StunAgentError::StunCheckFailed")
            ctx.ob(rule, "absent", ok, "no FINGERPRINT -> %s" % (r,), info["where"], replay=pa.describe())
        else:
            cs = pa.calls_to(r"fingerprint::validate_fingerprint_attribute$")
            ok = len(cs) == 1 and "top:raw_buffer" in repr(cs[0][2][0]) and "get" in repr(C.expr_of(pa, cs[0][2][1]))
            ok = ok and isinstance(r, tuple) and r[0] == "fingerprint::validate_fingerprint_attribute"
            ctx.ob(rule, "present", ok, "present -> %s" % show(r)[:160], info["where"], replay=pa.describe())
    ctx.floor(rule, "validate_fingerprint paths", n, 2)
    get = [c for c in info["body"].calls() if re.search(r"StunMessage::get::<.*Fingerprint>$", c.full)]
    ctx.ob(rule, "looks-up-fingerprint", len(get) == 1, "msg.get::<Fingerprint>() (%d site)" % len(get), info["where"])
    paths, info = _paths(ctx, prog, "stun_agent::fingerprint::validate_fingerprint_attribute", "x")
    n = 0
    for pa in paths:
        asfp = pa.choice(r"^variant\(ret:as_fingerprint@")
        inp = pa.choice(r"^variant\(ret:get_input_text@")
        r = _ret(pa)
        n += 1
        key = "attr:as_fingerprint=%s,input=%s" % (asfp, inp)
        if asfp == "Err" or inp == "None":
            ok = r == ("Result::Err", "StunAgentError::StunCheckFailed")
        else:
            v = pa.calls_to(r"Fingerprint::validate$")
            git = [c for c in pa.calls if "get_input_text::<" in c[1]]
            ok = len(v) == 1 and isinstance(r, tuple) and r[0] == "Result::Ok" and isinstance(r[1], tuple) \
                and r[1][0] == "Fingerprint::validate"
            ok = ok and len(git) == 1 and git[0][1].endswith("::Fingerprint>") and "raw_buffer" in repr(git[0][2])
            ok = ok and "get_input_text" in repr(C.expr_of(pa, v[0][2][1])) and "as_fingerprint" in repr(C.expr_of(pa, v[0][2][0]))
        ctx.ob(rule, key, ok, "-> %s" % show(r)[:200], info["where"], replay=None if ok else pa.describe())
    ctx.floor(rule, "validate_fingerprint_attribute paths", n, 3)
    paths, info = _paths(ctx, prog, FP_T + "::validate", "fp")
    n = 0
    for pa in paths:
        var = pa.choice(r"^variant\(fp\)$")
        r = _ret(pa)
        n += 1
        if var == "Decodable":
            ok = isinstance(r, tuple) and r[0] == "DecodableFingerprint::validate" and r[2] == "top:input"
        else:
            ok = r == 0
        ctx.ob(rule, "Fingerprint::validate:%s" % var, ok, "%s -> %s" % (var, show(r)[:120]), info["where"])
    ctx.floor(rule, "Fingerprint::validate variants", n, 2)
    paths, info = _paths(ctx, prog, DFP_T + "::validate", "fp")
    for pa in paths:
        cs = pa.calls_to(r"checksum$")
        nw = pa.calls_to(r"Crc::<u32.*>::new$|crc32::.*new$|::new$")
        ok = len(cs) == 1 and cs[0][2][1] == ("&", "top:input") or (len(cs) == 1 and "top:input" in repr(cs[0][2][1]))
        ok = ok and "CRC_32_ISO_HDLC" in repr(C.expr_of(pa, cs[0][2][0]))
        r = pa.ret
        ok = ok and isinstance(r, str) and r.startswith("sym:cmp:Eq") and "fp.0" in r and "checksum" in r
        ctx.ob(rule, "DecodableFingerprint::validate", ok, "stored == crc32_iso_hdlc(input): %s" % str(r)[:120], info["where"])


def r10_3_last_on_send(ctx, prog, rule="R10.3"):
    ctx.rule(rule, "on send FINGERPRINT is added after the mechanism's decoration and before the message is built, iff "
                   "use_fingerprint; add_fingerprint_attribute adds Fingerprint::default()")
    for fn, mech in (("send_request", r"CredentialMechanismClient::prepare_request$"),
                     ("send_indication", r"CredentialMechanismClient::prepare_indication$")):
        paths, info = C.explore(prog, fn)
        ctx.fn(info["body"])
        seen = {}
        for pa in paths:
            use_fp = pa.choice(r"^client\.use_fingerprint$")
            mechv = pa.choice(r"^variant\(client\.mechanism\)$")
            i_fp = pa.index_of(r"fingerprint::add_fingerprint_attribute$")
            i_me = pa.index_of(mech)
            i_cr = pa.index_of(r"message::create_stun_message$")
            if i_cr < 0:
                continue
            ok = True
            why = "order ok"
            if use_fp == 1:
                if i_fp < 0 or i_fp > i_cr or (i_me >= 0 and i_fp < i_me):
                    ok, why = False, "fingerprint index %d, mechanism %d, build %d" % (i_fp, i_me, i_cr)
            else:
                if i_fp >= 0:
                    ok, why = False, "FINGERPRINT added although use_fingerprint=%s" % use_fp
            if mechv == "Some" and (i_me < 0 or i_me > i_cr):
                ok, why = False, "mechanism decoration missing or after the message is built"
            key = "%s:use_fp=%s,mech=%s" % (fn, use_fp, mechv)
            if key not in seen or not ok:
                seen[key] = (ok, why, pa)
        for key, (ok, why, pa) in sorted(seen.items()):
            ctx.ob(rule, key, ok, why, info["where"], replay=None if ok else pa.describe())
        ctx.floor(rule, "%s decoration orders" % fn, len(seen), 3)
    paths, info = _paths(ctx, prog, "stun_agent::fingerprint::add_fingerprint_attribute", "x")
    for pa in paths:
        a = pa.calls_to(r"StunAttributes::add::<.*Fingerprint>$")
        ok = len(a) == 1 and "default" in repr(C.expr_of(pa, a[0][2][1])) and "attributes" in repr(a[0][2][0])
        ctx.ob(rule, "add_fingerprint_attribute", ok, "attributes.add(Fingerprint::default()): %s" % [C.short(c[1]) for c in pa.calls], info["where"])


def r10_4_constants(ctx, prog, rule="R10.4"):
    ctx.rule(rule, "FINGERPRINT writer and reader agree: post_encode writes crc32_iso_hdlc(encoded message) XOR 0x5354554e "
                   "big-endian; decode un-XORs with the same constant; validate uses the same CRC algorithm")
    paths, info = _paths(ctx, prog, "<%s as %s>::post_encode" % (FP_T, ENC), "fp", [r"\{closure", r"AttributeEncoderContext"])
    n = 0
    for pa in paths:
        var = pa.choice(r"^variant\(fp\)$")
        chk = pa.choice(r"^variant\(ret:check_buffer_boundaries@")
        n += 1
        if var != "Encodable":
            ctx.ob(rule, "post_encode:%s" % var, C.expr_of(pa, pa.ret)[0] == "Result::Err" and not pa.calls_to(r"write_u32"),
                   "%s is not encodable" % var, info["where"])
            continue
        if chk == "Err":
            ctx.ob(rule, "post_encode:small-buffer", not pa.calls_to(r"write_u32"), "short buffer -> no write", info["where"])
            continue
        w = pa.calls_to(r"BigEndian as byteorder::ByteOrder>::write_u32$")
        ok = len(w) == 1
        val = C.expr_of(pa, w[0][2][1]) if ok else None
        exp = ("op:BitXor", ("crc32::checksum", ("crc32::new", "top:const:crc::CRC_32_ISO_HDLC"), "top:ctx.encoded_msg.*"), XOR)
        ok = ok and same(val, exp) and "ctx.raw_value" in repr(w[0][2][0])
        ctx.ob(rule, "post_encode:value", ok, "writes %s" % show(val), info["where"], replay=None if ok else pa.describe())
    ctx.floor(rule, "post_encode paths", n, 3)
    paths, info = _paths(ctx, prog, "<%s as stun_rs::Decode<'_>>::decode" % DFP_T, "x")
    for pa in paths:
        r = _ret(pa)
        if r[0] == "Result::Ok":
            exp = ("Result::Ok", ("tuple", ("DecodableFingerprint", ("op:BitXor", (("common::decode", "top:buffer"), ".ok.0"), XOR)), 4))
            ctx.ob(rule, "decode:value", same(r, exp), "decodes to %s" % show(r), info["where"], replay=pa.describe())
    # the u32 reader is big-endian
    b = prog.body("stun_rs::common::<impl stun_rs::Decode<'_> for u32>::decode", required=False)
    if b is None:
        ctx.anchor_missing(rule, "<u32 as Decode>::decode")
    else:
        rd = [c for c in b.calls() if re.search(r"BigEndian as byteorder::ByteOrder>::read_u32$", c.callee_path)]
        ctx.ob(rule, "decode:big-endian", len(rd) == 1, "u32::decode reads with BigEndian::read_u32 (%d site)" % len(rd), b.where())


# ------------------------------------------------------------------------------------------------ C04

def r4_1_length_before_mac(ctx, prog, rule="R4.1"):
    ctx.rule(rule, "MessageEncoder::encode: in every loop iteration the header length (checked conversion of the running "
                   "length) is written into raw_msg[2..4] before attr.post_encode runs, and post_encode sees raw_msg")
    body = prog.body("stun_rs::context::MessageEncoder::encode")
    paths, info = C.explore_fn(prog, body.path, "enc", [r"MessageEncoder::encode::\{closure", r"\{impl#\d+\}::encode::\{closure"])
    ctx.fn(body)
    seen = {}
    for pa in paths:
        for seg in shared.segments(pa.log, body.path)[1:]:
            pe = [i for i, e in enumerate(seg) if e[0] == "call" and re.search(r"EncodeAttributeValue>::post_encode$", e[1])]
            if not pe:
                continue
            wl = [i for i, e in enumerate(seg) if e[0] == "call" and re.search(r"ByteOrder>::write_u16$", e[1])
                  and "try_from" in repr(C.expr_of(pa, e[2][1]))]
            ok = bool(wl) and max(wl) < pe[0]
            why = "length write at %s, post_encode at %s" % (wl, pe)
            if ok:
                e = seg[wl[-1]]
                val = C.expr_of(pa, e[2][1])
                # the written value is u16::try_from(length) where length already includes this attribute
                ok = "op:Add" in repr(val)
                why = "length value %s" % show(val)[:200]
            if ok:
                ctxarg = C.expr_of(pa, seg[pe[0]][2][1])
                ok = isinstance(ctxarg, tuple) and "AttributeEncoderContext" in ctxarg[0] and "split_at_mut" in repr(ctxarg[2]) \
                    and ".0" in repr(ctxarg[2])
                why += "; post_encode ctx %s" % show(ctxarg)[:160]
            key = "iteration"
            if key not in seen or not ok:
                seen[key] = (ok, why)
    for key, (ok, why) in seen.items():
        ctx.ob(rule, key, ok, why, info["where"])
    ctx.floor(rule, "iterations reaching post_encode", len(seen), 1)


def r4_2_validate_attribute(ctx, prog, rule="R4.2"):
    ctx.rule(rule, "validate_attribute: with validation on and a verifiable attribute the only Ok path is verify(..) == true "
                   "over get_input_text(buffer, type); decode appends an admitted attribute only after validate_attribute "
                   "returned Ok")
    paths, info = _paths(ctx, prog, "stun_rs::context::validate_attribute", "x",
                         [r"\{closure", r"DecoderContext::validate$"])
    n = 0
    for pa in paths:
        c = pa.choice(r"^variant\(ctx\)$")
        val = pa.choice(r"validation$")
        ver = pa.choice(r"^variant\(ret:as_verifiable_ref@")
        inp = pa.choice(r"^variant\(ret:get_input_text@")
        vr = pa.choice(r"^ret:verify@")
        r = _ret(pa)
        n += 1
        key = "ctx=%s,validation=%s,verifiable=%s,input=%s,verify=%s" % (c, val, ver, inp, vr)
        if c == "None" or val == 0 or ver == "None":
            ok = r == ("Result::Ok", "()") and not pa.calls_to(r"Verifiable>::verify$")
        elif inp == "Err":
            ok = r[0] == "Result::Err"
        elif vr == 1:
            v = pa.calls_to(r"Verifiable>::verify$")
            ok = r == ("Result::Ok", "()") and len(v) == 1 and "get_input_text" in repr(C.expr_of(pa, v[0][2][1])) \
                and "ctx" in repr(v[0][2][2])
            g = pa.calls_to(r"raw::get_input_text$")
            ok = ok and len(g) == 1 and "top:buffer" in repr(g[0][2][0]) and "attribute_type" in repr(C.expr_of(pa, g[0][2][1]))
        else:
            ok = r[0] == "Result::Err" and "ValidationFailed" in repr(C.expr_of(pa, pa.ret)) or (r[0] == "Result::Err")
        ctx.ob(rule, key, ok, "-> %s" % show(r)[:140], info["where"], replay=None if ok else pa.describe())
    ctx.floor(rule, "validate_attribute paths", n, 5)
    res = shared.decode_paths(ctx, prog)
    if res is not None:
        segs, dinfo = res
        bad = [s for s in segs if s["appended"] and (not s["validated"] or s["validate_result"] != "ok"
                                                    or s["order"].index("validate_attribute") > s["order"].index("with_attribute"))]
        ctx.ob(rule, "decode-appends-after-validate", not bad,
               "%d iteration classes append; %d without a preceding successful validate_attribute" %
               (len([s for s in segs if s["appended"]]), len(bad)), dinfo["where"], replay=bad[:1] or None)


def r4_3_fail_closed(ctx, prog, rule="R4.3"):
    ctx.rule(rule, "integrity verification fails closed: Verifiable::verify returns false without a key; validate returns "
                   "false for the Encodable variant; Decodable*::validate is `hmac(key, input) == stored`")
    for ty, short in ((MI_T, "MessageIntegrity"), (SHA_T, "MessageIntegritySha256")):
        paths, info = _paths(ctx, prog, "<%s as stun_rs::attributes::Verifiable>::verify" % ty, "attr",
                             [r"\{closure", r"DecoderContext::key$"])
        n = 0
        for pa in paths:
            k = pa.choice(r"^variant\(.*key.*\)$")
            r = _ret(pa)
            n += 1
            if k == "None":
                ok = r == 0
            else:
                ok = isinstance(r, tuple) and r[0] == "%s::validate" % short and r[2] == "top:input" and "key" in repr(r[3])
            ctx.ob(rule, "%s::verify:key=%s" % (short, k), ok, "-> %s" % show(r)[:140], info["where"], replay=pa.describe())
        ctx.floor(rule, "%s::verify paths" % short, n, 2)
        paths, info = _paths(ctx, prog, ty + "::validate", "attr")
        n = 0
        for pa in paths:
            var = pa.choice(r"^variant\(attr\)$")
            r = _ret(pa)
            n += 1
            if var == "Encodable":
                ok = r == 0
            else:
                ok = isinstance(r, tuple) and r[0] == "Decodable%s::validate" % short and r[2] == "top:input" and r[3] == "top:key"
            ctx.ob(rule, "%s::validate:%s" % (short, var), ok, "-> %s" % show(r)[:140], info["where"])
        ctx.floor(rule, "%s::validate variants" % short, n, 2)
        dty = ty.rsplit("::", 1)[0] + "::Decodable" + short
        paths, info = _paths(ctx, prog, dty + "::validate", "attr")
        for pa in paths:
            h = pa.calls_to(r"HmacSha>::hmac_sha$")
            ok = len(h) == 1 and h[0][1].startswith("<%s as " % ty) and "as_bytes" in repr(C.expr_of(pa, h[0][2][0])) \
                and "key" in repr(C.expr_of(pa, h[0][2][0])) and "top:input" in repr(h[0][2][1])
            eq = [c for c in pa.calls if re.search(r"PartialEq<.*>>::eq$|PartialEq>::eq$", c[1])]
            ok = ok and len(eq) == 1 and "hmac_sha" in repr(C.expr_of(pa, eq[0][2])) and "attr.0" in repr(eq[0][2])
            ok = ok and isinstance(pa.ret, str) and "eq@" in pa.ret
            ctx.ob(rule, "Decodable%s::validate" % short, ok,
                   "hmac(key.as_bytes(), input) == stored: %s" % [C.short(c[1]) for c in pa.calls], info["where"], replay=pa.describe())


def r4_4_exhaustive(ctx, prog, rule="R4.4"):
    ctx.rule(rule, "exactly MESSAGE-INTEGRITY, MESSAGE-INTEGRITY-SHA256 and FINGERPRINT are verifiable: only their impls "
                   "override AsVerifiable::as_verifiable_ref, and StunAttribute::as_verifiable_ref delegates per variant")
    some_types = set()
    n_over = 0
    for im in prog.impls:
        if im.get("trait_name") == "stun_rs::attributes::AsVerifiable":
            own = [it for it in im["items"] if it["name"] == "as_verifiable_ref"]
            sty = im["types"][im["self_ty"]]["s"]
            if own and not sty.endswith("::StunAttribute"):
                n_over += 1
                b = prog.bodies.get(own[0]["key"])
                if b is None:
                    ctx.anchor_missing(rule, "body of as_verifiable_ref for %s" % sty)
                    continue
                paths, info = _paths(ctx, prog, b.path, "attr")
                rets = {(pa.ret[0] if isinstance(pa.ret, tuple) else pa.ret) for pa in paths}
                if "Option::Some" in rets:
                    some_types.add(sty.split("::")[-1])
                if rets not in ({"Option::Some"}, {"Option::None"}):
                    ctx.violation(rule, "override:%s" % sty.split("::")[-1], "as_verifiable_ref returns %s" % sorted(map(str, rets)), b.where())
    ctx.ob(rule, "verifiable-types", some_types == {"MessageIntegrity", "MessageIntegritySha256", "Fingerprint"},
           "types whose as_verifiable_ref returns Some: %s (of %d overriding impls)" % (sorted(some_types), n_over))
    dflt = prog.body("stun_rs::attributes::AsVerifiable::as_verifiable_ref")
    paths, info = _paths(ctx, prog, dflt.path, "attr")
    ctx.ob(rule, "default-none", all(pa.ret == "Option::None" for pa in paths) and bool(paths), "provided default returns None", dflt.where())
    # enum dispatch: for each variant the call goes to the variant's own impl
    cands = [b for b in prog.bodies.values() if b.path == "<stun_rs::attributes::StunAttribute as stun_rs::attributes::AsVerifiable>::as_verifiable_ref"]
    if len(cands) != 1:
        ctx.anchor_missing(rule, "StunAttribute::as_verifiable_ref")
        return
    paths, info = _paths(ctx, prog, cands[0].path, "attr", [r"\{closure"])
    n_some = 0
    variants = 0
    for pa in paths:
        var = pa.choice(r"^variant\(attr\)$")
        variants += 1
        cs = [c for c in pa.calls if "as_verifiable_ref" in c[1]]
        ok = len(cs) == 1 and ("attr.0" in repr(cs[0][2][0]) or "attr" in repr(cs[0][2][0]))
        tgt = C.short(cs[0][1]) if cs else None
        # the callee must be the variant's own type
        if ok:
            self_ty = cs[0][1].split(" as ")[0].lstrip("<").split("::")[-1]
            ok = self_ty == var
        ctx.ob(rule, "dispatch:%s" % var, ok, "variant %s -> %s" % (var, tgt), info["where"], replay=None if ok else pa.describe())
    adt = prog.adt("stun_rs::StunAttribute")
    ctx.ob(rule, "dispatch-exhaustive", variants == len(adt["variants"]), "%d variants dispatched of %d" % (variants, len(adt["variants"])), info["where"])


def r4_5_siblings(ctx, prog, rule="R4.5"):
    ctx.rule(rule, "writer and validator share one MAC function per attribute; both key constructors pass the password through "
                   "opaque_string_enforce; the agent pairs each integrity variant with get_input_text of the same type")
    for ty, short in ((MI_T, "MessageIntegrity"), (SHA_T, "MessageIntegritySha256")):
        paths, info = _paths(ctx, prog, "<%s as %s>::post_encode" % (ty, ENC), "attr", [r"\{closure", r"AttributeEncoderContext"])
        done = False
        for pa in paths:
            h = pa.calls_to(r"HmacSha>::hmac_sha$")
            if h:
                done = True
                ok = h[0][1].startswith("<%s as " % ty) and "attr.0" in repr(C.expr_of(pa, h[0][2][0])) and "as_bytes" in repr(C.expr_of(pa, h[0][2][0])) \
                    and "ctx.encoded_msg" in repr(h[0][2][1])
                cp = pa.calls_to(r"copy_from_slice")
                ok = ok and len(cp) == 1 and "hmac_sha" in repr(C.expr_of(pa, cp[0][2][1])) and "ctx.raw_value" in repr(C.expr_of(pa, cp[0][2][0]))
                ctx.ob(rule, "post_encode:%s" % short, ok, "post_encode writes hmac(key, encoded message): %s" % [C.short(c[1]) for c in pa.calls],
                       info["where"], replay=pa.describe())
        if not done:
            ctx.violation(rule, "post_encode:%s" % short, "no path of post_encode computes the MAC", info["where"])
    for fn in ("new_short_term", "new_long_term"):
        cands = [b for b in prog.bodies.values() if b.path.endswith("HMACKey::" + fn)]
        if len(cands) != 1:
            ctx.anchor_missing(rule, "HMACKey::" + fn)
            continue
        b = cands[0]
        enf = [c for c in b.calls() if re.search(r"strings::opaque_string_enforce$", c.callee_path)]
        prep = [c for c in b.calls() if re.search(r"strings::opaque_string_prepapre$", c.callee_path)]
        ctx.ob(rule, "key:%s" % fn, len(enf) >= 1 and not prep, "HMACKey::%s enforces the OpaqueString profile (%d site, %d prepare)" % (fn, len(enf), len(prep)), b.where())
    b = prog.body("stun_agent::integrity::validate_message_integrity")
    paths, info = _paths(ctx, prog, b.path, "x")
    seen = set()
    for pa in paths:
        var = pa.choice(r"^variant\(integrity\)$")
        g = [c for c in pa.calls if "get_input_text::<" in c[1]]
        v = [c for c in pa.calls if re.search(r"::validate$", c[1])]
        if var in ("MessageIntegrity", "MessageIntegritySha256"):
            ty = MI_T if var == "MessageIntegrity" else SHA_T
            ok = len(g) == 1 and g[0][1].endswith("::%s>" % var) and "raw_buffer" in repr(g[0][2])
            inp = pa.choice(r"^variant\(ret:get_input_text@")
            if inp == "Some":
                ok = ok and len(v) == 1 and v[0][1].endswith("::%s::validate" % var) \
                    and "top:key" in repr(v[0][2][2]) and "get_input_text" in repr(C.expr_of(pa, v[0][2][1]))
                ok = ok and isinstance(_ret(pa), tuple) and "validate" in _ret(pa)[0]
            else:
                ok = ok and pa.ret == 0
            key = "agent-validate:%s:input=%s" % (var, inp)
        else:
            ok = pa.ret == 0 and not g and not v
            key = "agent-validate:other"
        if key not in seen:
            seen.add(key)
            ctx.ob(rule, key, ok, "%s -> %s" % (var, show(_ret(pa))[:120]), info["where"], replay=None if ok else pa.describe())
    ctx.floor(rule, "agent validate_message_integrity classes", len(seen), 5)
