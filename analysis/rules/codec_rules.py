"""Rules about the stun-rs codec side decided with E2 expression trees / path tables and E4 queries:
C10 R10.2-R10.4, C04 R4.1-R4.5, C18 R18.1-R18.4, C13 R13.1/2/4/5/6, C11 R11.2-R11.4."""
import re
from .. import client as C
from .. import shared
from ..mirq import q_of
from .exprs import same, show
from . import client_rules as R
from ..absint import owning_functions

FP_T = "stun_rs::attributes::stun::fingerprint::Fingerprint"
DFP_T = "stun_rs::attributes::stun::fingerprint::DecodableFingerprint"
MI_T = "stun_rs::attributes::stun::message_integrity::MessageIntegrity"
SHA_T = "stun_rs::attributes::stun::message_integrity_sha256::MessageIntegritySha256"
ENC = "stun_rs::attributes::EncodeAttributeValue"
XOR = 0x5354554e


def _paths(ctx, prog, fn, label="self", step=(r"\{closure",), models=()):
    paths, info = C.explore_fn(prog, fn, label, list(step), extra_models=list(models))
    ctx.fn(info["body"])
    return paths, info


def _ret(pa):
    return C.expr_of(pa, pa.ret)


# ------------------------------------------------------------------------------------------------ C10

def r10_2_fail_closed(ctx, prog, rule="R10.2"):
    ctx.rule(rule, "fingerprint validation fails closed: FINGERPRINT absent -> Err(StunCheckFailed); the verdict is exactly "
                   "the boolean of Fingerprint::validate over get_input_text::<Fingerprint>(buffer); an Encodable value "
                   "validates to false; DecodableFingerprint::validate is `stored == crc(input)`")
    paths, info = _paths(ctx, prog, "stun_agent::fingerprint::validate_fingerprint", "x")
    n = 0
    for pa in paths:
        got = pa.choice(r"^variant\(ret:get@")
        r = _ret(pa)
        n += 1
        if got == "None":
            ok = r == ("Result::Err", "StunAgentError::StunCheckFailed")
            ctx.ob(rule, "absent", ok, "no FINGERPRINT -> %s" % (r,), info["where"], replay=pa.describe())
        else:
            cs = pa.calls_to(r"fingerprint::validate_fingerprint_attribute$")
            ok = len(cs) == 1 and "top:raw_buffer" in repr(cs[0][2][0]) and "get" in repr(C.expr_of(pa, cs[0][2][1]))
            ok = ok and isinstance(r, tuple) and r[0] == "fingerprint::validate_fingerprint_attribute"
            ctx.ob(rule, "present", ok, "present -> %s" % show(r)[:160], info["where"], replay=pa.describe())
    ctx.floor(rule, "validate_fingerprint paths", n, 2)
    get = [c for c in info["body"].calls() if re.search(r"StunMessage::get::<.*Fingerprint>$", c.full)]
    ctx.ob(rule, "looks-up-fingerprint", len(get) == 1, "msg.get::<Fingerprint>() (%d site)" % len(get), info["where"])
    paths, info = _paths(ctx, prog, "stun_agent::fingerprint::validate_fingerprint_attribute", "x")
    n = 0
    for pa in paths:
        asfp = pa.choice(r"^variant\(ret:as_fingerprint@")
        inp = pa.choice(r"^variant\(ret:get_input_text@")
        r = _ret(pa)
        n += 1
        key = "attr:as_fingerprint=%s,input=%s" % (asfp, inp)
        if asfp == "Err" or inp == "None":
            ok = r == ("Result::Err", "StunAgentError::StunCheckFailed")
        else:
            v = pa.calls_to(r"Fingerprint::validate$")
            git = [c for c in pa.calls if "get_input_text::<" in c[1]]
            ok = len(v) == 1 and isinstance(r, tuple) and r[0] == "Result::Ok" and isinstance(r[1], tuple) \
                and r[1][0] == "Fingerprint::validate"
            ok = ok and len(git) == 1 and git[0][1].endswith("::Fingerprint>") and "raw_buffer" in repr(git[0][2])
            ok = ok and "get_input_text" in repr(C.expr_of(pa, v[0][2][1])) and "as_fingerprint" in repr(C.expr_of(pa, v[0][2][0]))
        ctx.ob(rule, key, ok, "-> %s%s" % (show(r)[:200], "" if ok else "  (expected: Ok(fingerprint.validate(get_input_text::<Fingerprint>(raw_buffer))), "
                                                    "Err(StunCheckFailed) when the attribute or the text is missing)"), info["where"], replay=None if ok else pa.describe())
    ctx.floor(rule, "validate_fingerprint_attribute paths", n, 3)
    paths, info = _paths(ctx, prog, FP_T + "::validate", "fp")
    n = 0
    for pa in paths:
        var = pa.choice(r"^variant\(fp\)$")
        r = _ret(pa)
        n += 1
        if var == "Decodable":
            ok = isinstance(r, tuple) and r[0] == "DecodableFingerprint::validate" and r[2] == "top:input"
            if not ok and r in (0, 1):
                # `matches!(self, Decodable(a) if a.validate(input))`: the verdict is tested and returned as a constant
                vc = pa.calls_to(r"DecodableFingerprint::validate$")
                if len(vc) == 1 and C.expr_of(pa, vc[0][2])[1] == "top:input":
                    ok = pa.choice(r"%s$" % re.escape(vc[0][4].split("@")[-1])) == r
        else:
            ok = r == 0
        ctx.ob(rule, "Fingerprint::validate:%s" % var, ok, "%s -> %s" % (var, show(r)[:120]), info["where"])
    ctx.floor(rule, "Fingerprint::validate variants", n, 2)
    paths, info = _paths(ctx, prog, DFP_T + "::validate", "fp")
    for pa in paths:
        cs = pa.calls_to(r"checksum$")
        nw = pa.calls_to(r"Crc::<u32.*>::new$|crc32::.*new$|::new$")
        ok = len(cs) == 1 and cs[0][2][1] == ("&", "top:input") or (len(cs) == 1 and "top:input" in repr(cs[0][2][1]))
        ok = ok and "CRC_32_ISO_HDLC" in repr(C.expr_of(pa, cs[0][2][0]))
        r = pa.ret
        ok = ok and isinstance(r, str) and r.startswith("sym:cmp:Eq") and "fp.0" in r and "checksum" in r
        ctx.ob(rule, "DecodableFingerprint::validate", ok, "stored == crc32_iso_hdlc(input): %s" % str(r)[:120], info["where"])


def r10_3_last_on_send(ctx, prog, rule="R10.3"):
    ctx.rule(rule, "on send FINGERPRINT is added after the mechanism's decoration and before the message is built, iff "
                   "use_fingerprint; add_fingerprint_attribute adds Fingerprint::default()")
    for fn, mech in (("send_request", r"CredentialMechanismClient::prepare_request$"),
                     ("send_indication", r"CredentialMechanismClient::prepare_indication$")):
        paths, info = C.explore(prog, fn)
        ctx.fn(info["body"])
        seen = {}
        for pa in paths:
            use_fp = pa.choice(r"^client\.use_fingerprint$")
            mechv = pa.choice(r"^variant\(client\.mechanism\)$")
            i_fp = pa.index_of(r"fingerprint::add_fingerprint_attribute$")
            i_me = pa.index_of(mech)
            i_cr = pa.index_of(r"message::create_stun_message$")
            if i_cr < 0:
                continue
            ok = True
            why = "order ok"
            if use_fp == 1:
                if i_fp < 0 or i_fp > i_cr or (i_me >= 0 and i_fp < i_me):
                    ok, why = False, "fingerprint index %d, mechanism %d, build %d" % (i_fp, i_me, i_cr)
            elif use_fp is None:
                ok, why = False, "a message is built on a path that never consulted use_fingerprint"
            else:
                if i_fp >= 0:
                    ok, why = False, "FINGERPRINT added although use_fingerprint=%s" % use_fp
            if mechv == "Some" and (i_me < 0 or i_me > i_cr):
                ok, why = False, "mechanism decoration missing or after the message is built"
            key = "%s:use_fp=%s,mech=%s" % (fn, use_fp, mechv)
            if key not in seen or not ok:
                seen[key] = (ok, why, pa)
        for key, (ok, why, pa) in sorted(seen.items()):
            ctx.ob(rule, key, ok, why, info["where"], replay=None if ok else pa.describe())
        ctx.floor(rule, "%s decoration orders" % fn, len(seen), 3)
    paths, info = _paths(ctx, prog, "stun_agent::fingerprint::add_fingerprint_attribute", "x")
    for pa in paths:
        a = pa.calls_to(r"StunAttributes::add::<.*Fingerprint>$")
        ok = len(a) == 1 and "default" in repr(C.expr_of(pa, a[0][2][1])) and "attributes" in repr(a[0][2][0])
        ctx.ob(rule, "add_fingerprint_attribute", ok, "attributes.add(Fingerprint::default()): %s" % [C.short(c[1]) for c in pa.calls], info["where"])


def r10_4_constants(ctx, prog, rule="R10.4"):
    ctx.rule(rule, "FINGERPRINT writer and reader agree: post_encode writes crc32_iso_hdlc(encoded message) XOR 0x5354554e "
                   "big-endian; decode un-XORs with the same constant; validate uses the same CRC algorithm")
    paths, info = _paths(ctx, prog, "<%s as %s>::post_encode" % (FP_T, ENC), "fp", [r"\{closure", r"AttributeEncoderContext"])
    n = 0
    for pa in paths:
        var = pa.choice(r"^variant\(fp\)$")
        chk = pa.choice(r"^variant\(ret:check_buffer_boundaries@")
        n += 1
        if var != "Encodable":
            ctx.ob(rule, "post_encode:%s" % var, C.expr_of(pa, pa.ret)[0] == "Result::Err" and not pa.calls_to(r"write_u32"),
                   "%s is not encodable" % var, info["where"])
            continue
        if chk == "Err":
            ctx.ob(rule, "post_encode:small-buffer", not pa.calls_to(r"write_u32"), "short buffer -> no write", info["where"])
            continue
        w = pa.calls_to(r"BigEndian as byteorder::ByteOrder>::write_u32$")
        ok = len(w) == 1
        val = C.expr_of(pa, w[0][2][1]) if ok else None
        exp = ("op:BitXor", ("crc32::checksum", ("crc32::new", "top:const:crc::CRC_32_ISO_HDLC"), "top:ctx.encoded_msg.*"), XOR)
        ok = ok and same(val, exp) and "ctx.raw_value" in repr(w[0][2][0])
        if not w:
            # written some other way (`[..4].copy_from_slice(&v.to_be_bytes())`): the byte map of the value must be the four
            # big-endian bytes of the same expression
            from . import coverage_rules as K
            ivs, probs = K.intervals(prog, pa, "obj:ctx.raw_value")
            bs = [K.byte_value(ivs, i) for i in range(4)]
            if all(isinstance(x, tuple) and x[0] == "be-byte" and x[3] == 4 for x in bs) and [x[2] for x in bs] == [0, 1, 2, 3] and not probs:
                val = bs[0][1]
                ok = all(same(x[1], exp) for x in bs)
        ctx.ob(rule, "post_encode:value", ok, "writes %s" % show(val), info["where"], replay=None if ok else pa.describe())
    ctx.floor(rule, "post_encode paths", n, 3)
    paths, info = _paths(ctx, prog, "<%s as stun_rs::Decode<'_>>::decode" % DFP_T, "x")
    for pa in paths:
        r = _ret(pa)
        if r[0] == "Result::Ok":
            exp = ("Result::Ok", ("tuple", ("DecodableFingerprint", ("op:BitXor", (("common::decode", "top:buffer"), ".ok.0"), XOR)), 4))
            okv = same(r, exp)
            if not okv:
                # any other spelling of "the big-endian u32 at bytes 0..4, XOR-ed with the constant"
                from . import bytesem
                try:
                    v = r[1][1][1]
                    okv = r[1][2] == 4 and r[1][1][0] == "DecodableFingerprint" and isinstance(v, tuple) and v[0] == "op:BitXor" and \
                        ((v[1] == XOR and bytesem.be_value(v[2]) == (0, 4)) or (v[2] == XOR and bytesem.be_value(v[1]) == (0, 4)))
                except Exception:
                    okv = False
            ctx.ob(rule, "decode:value", okv, "decodes to %s" % show(r), info["where"], replay=pa.describe())
    # the u32 reader is big-endian
    b = prog.body("stun_rs::common::<impl stun_rs::Decode<'_> for u32>::decode", required=False)
    if b is None:
        ctx.anchor_missing(rule, "<u32 as Decode>::decode")
    else:
        # semantically: the Ok value is the big-endian integer of bytes 0..4 of the input (byteorder read, from_be_bytes, ..)
        from . import bytesem
        dp, dinfo = C.explore_fn(prog, b.path, "x", [r"\{closure"], concrete_iters=True)
        vals = set()
        for pa in dp:
            r = C.expr_of(pa, pa.ret)
            if isinstance(r, tuple) and r[0] == "Result::Ok" and isinstance(r[1], tuple) and r[1][0] == "tuple":
                v = r[1][1]
                base = "top:" + (b.debug_name(1) or "arg1")
                bv = bytesem.be_value(v, base)
                if bv is None and isinstance(v, tuple) and len(v) == 2 and isinstance(v[0], str) and v[0].endswith("from_be_bytes"):
                    # from_be_bytes(<array copied from the first 4 bytes>): the copy is a havocked array; look at what was copied
                    cps = [C.expr_of(pa, e[2]) for e in pa.calls if re.search(r"copy_from_slice$|clone_from_slice$", e[1])]
                    if len(cps) == 1:
                        bv = bytesem.slice_view(cps[0][1], base)
                vals.add(bv)
        ctx.ob(rule, "decode:big-endian", vals == {(0, 4)}, "u32::decode returns the big-endian value of bytes %s of its input" % sorted(vals, key=str), b.where())


# ------------------------------------------------------------------------------------------------ C04

def r4_1_length_before_mac(ctx, prog, rule="R4.1"):
    ctx.rule(rule, "MessageEncoder::encode: in every loop iteration the header length (checked conversion of the running "
                   "length) is written into raw_msg[2..4] before attr.post_encode runs, and post_encode sees raw_msg")
    body = prog.body("stun_rs::context::MessageEncoder::encode")
    paths, info = C.explore_fn(prog, body.path, "enc", [r"MessageEncoder::encode::\{closure", r"\{impl#\d+\}::encode::\{closure"])
    ctx.fn(body)
    seen = {}
    for pa in paths:
        for seg in shared.segments(pa.log, body.path)[1:]:
            pe = [i for i, e in enumerate(seg) if e[0] == "call" and re.search(r"EncodeAttributeValue>::post_encode$", e[1])]
            if not pe:
                continue
            wl = []
            for i, e in enumerate(seg):
                if e[0] == "call" and re.search(r"ByteOrder>::write_u16$", e[1]):
                    tgt = C.expr_of(pa, e[2][0])
                    if isinstance(tgt, tuple) and "index_mut" in repr(tgt[0]) and "split_at_mut" in repr(tgt) and ".0" in repr(tgt) \
                            and repr(tgt).count("('Range', 2, 4)") == 1:
                        wl.append(i)
            ok = bool(wl) and max(wl) < pe[0]
            why = "length write at %s, post_encode at %s" % (wl, pe)
            if ok:
                e = seg[wl[-1]]
                val = C.expr_of(pa, e[2][1])
                # the written value is the running length, which already includes this attribute and its padding
                precise = "op:Add" in repr(val) and "padding" in repr(val) and "encode" in repr(val)
                ok = precise or val == "top:arith" or "widened" in repr(val)     # later iterations: widened running sum
                why = "length value %s" % show(val)[:200]
                if precise:
                    seen["precise-instance"] = (True, why)
            if ok:
                ctxarg = C.expr_of(pa, seg[pe[0]][2][1])
                ok = isinstance(ctxarg, tuple) and "AttributeEncoderContext" in ctxarg[0] and "split_at_mut" in repr(ctxarg[2]) \
                    and ".0" in repr(ctxarg[2])
                why += "; post_encode ctx %s" % show(ctxarg)[:160]
            key = "iteration"
            if key not in seen or not ok:
                seen[key] = (ok, why)
    for key, (ok, why) in seen.items():
        ctx.ob(rule, key, ok, why, info["where"])
    ctx.floor(rule, "iterations reaching post_encode (incl. one precise length expression)", len(seen), 2)


def r4_2_validate_attribute(ctx, prog, rule="R4.2"):
    ctx.rule(rule, "validate_attribute: with validation on and a verifiable attribute the only Ok path is verify(..) == true "
                   "over get_input_text(buffer, type); decode appends an admitted attribute only after validate_attribute "
                   "returned Ok")
    paths, info = _paths(ctx, prog, "stun_rs::context::validate_attribute", "x",
                         [r"\{closure", r"DecoderContext::validate$"])
    n = 0
    for pa in paths:
        c = pa.choice(r"^variant\(ctx\)$")
        val = pa.choice(r"validation$")
        ver = pa.choice(r"^variant\(ret:as_verifiable_ref@")
        inp = pa.choice(r"^variant\(ret:get_input_text@")
        vr = pa.choice(r"^ret:verify@")
        r = _ret(pa)
        n += 1
        key = "ctx=%s,validation=%s,verifiable=%s,input=%s,verify=%s" % (c, val, ver, inp, vr)
        if c == "None" or val == 0 or ver == "None":
            ok = r == ("Result::Ok", "()") and not pa.calls_to(r"Verifiable>::verify$")
        elif inp == "Err":
            ok = r[0] == "Result::Err"
        elif vr == 1:
            v = pa.calls_to(r"Verifiable>::verify$")
            ok = r == ("Result::Ok", "()") and len(v) == 1 and "get_input_text" in repr(C.expr_of(pa, v[0][2][1])) \
                and "ctx" in repr(v[0][2][2])
            g = pa.calls_to(r"raw::get_input_text$")
            ok = ok and len(g) == 1 and "top:buffer" in repr(g[0][2][0]) and "attribute_type" in repr(C.expr_of(pa, g[0][2][1]))
        else:
            ok = r[0] == "Result::Err" and "ValidationFailed" in repr(C.expr_of(pa, pa.ret)) or (r[0] == "Result::Err")
        ctx.ob(rule, key, ok, "-> %s" % show(r)[:140], info["where"], replay=None if ok else pa.describe())
    ctx.floor(rule, "validate_attribute paths", n, 5)
    res = shared.decode_paths(ctx, prog)
    if res is not None:
        segs, dinfo = res
        bad = [s for s in segs if s["appended"] and (not s["validated"] or s["validate_result"] != "ok"
                                                    or s["order"].index("validate_attribute") > s["order"].index("with_attribute"))]
        ctx.ob(rule, "decode-appends-after-validate", not bad,
               "%d iteration classes append; %d without a preceding successful validate_attribute" %
               (len([s for s in segs if s["appended"]]), len(bad)), dinfo["where"], replay=bad[:1] or None)


def r4_3_fail_closed(ctx, prog, rule="R4.3"):
    ctx.rule(rule, "integrity verification fails closed: Verifiable::verify returns false without a key; validate returns "
                   "false for the Encodable variant; Decodable*::validate is `hmac(key, input) == stored`")
    for ty, short in ((MI_T, "MessageIntegrity"), (SHA_T, "MessageIntegritySha256")):
        paths, info = _paths(ctx, prog, "<%s as stun_rs::attributes::Verifiable>::verify" % ty, "attr",
                             [r"\{closure", r"DecoderContext::key$"])
        n = 0
        for pa in paths:
            k = pa.choice(r"^variant\(.*key.*\)$")
            r = _ret(pa)
            n += 1
            if k == "None":
                ok = r == 0
            else:
                ok = isinstance(r, tuple) and r[0] == "%s::validate" % short and r[2] == "top:input" and "key" in repr(r[3])
            ctx.ob(rule, "%s::verify:key=%s" % (short, k), ok, "-> %s" % show(r)[:140], info["where"], replay=pa.describe())
        ctx.floor(rule, "%s::verify paths" % short, n, 2)
        paths, info = _paths(ctx, prog, ty + "::validate", "attr")
        n = 0
        for pa in paths:
            var = pa.choice(r"^variant\(attr\)$")
            r = _ret(pa)
            n += 1
            if var == "Encodable":
                ok = r == 0
            else:
                ok = isinstance(r, tuple) and r[0] == "Decodable%s::validate" % short and r[2] == "top:input" and r[3] == "top:key"
            ctx.ob(rule, "%s::validate:%s" % (short, var), ok, "-> %s" % show(r)[:140], info["where"])
        ctx.floor(rule, "%s::validate variants" % short, n, 2)
        dty = ty.rsplit("::", 1)[0] + "::Decodable" + short
        paths, info = _paths(ctx, prog, dty + "::validate", "attr")
        for pa in paths:
            h = pa.calls_to(r"HmacSha>::hmac_sha$")
            ok = len(h) == 1 and h[0][1].startswith("<%s as " % ty) and "as_bytes" in repr(C.expr_of(pa, h[0][2][0])) \
                and "key" in repr(C.expr_of(pa, h[0][2][0])) and "top:input" in repr(h[0][2][1])
            eq = [c for c in pa.calls if re.search(r"PartialEq<.*>>::eq$|PartialEq>::eq$", c[1])]
            ok = ok and len(eq) == 1 and "hmac_sha" in repr(C.expr_of(pa, eq[0][2])) and "attr.0" in repr(eq[0][2])
            ok = ok and isinstance(pa.ret, str) and "eq@" in pa.ret
            ctx.ob(rule, "Decodable%s::validate" % short, ok,
                   "hmac(key.as_bytes(), input) == stored: %s" % [C.short(c[1]) for c in pa.calls], info["where"], replay=pa.describe())


def r4_4_exhaustive(ctx, prog, rule="R4.4"):
    ctx.rule(rule, "exactly MESSAGE-INTEGRITY, MESSAGE-INTEGRITY-SHA256 and FINGERPRINT are verifiable: only their impls "
                   "override AsVerifiable::as_verifiable_ref, and StunAttribute::as_verifiable_ref delegates per variant")
    some_types = set()
    n_over = 0
    for im in prog.impls:
        if im.get("trait_name") == "stun_rs::attributes::AsVerifiable":
            own = [it for it in im["items"] if it["name"] == "as_verifiable_ref"]
            sty = im["types"][im["self_ty"]]["s"]
            if own and not sty.endswith("::StunAttribute"):
                n_over += 1
                b = prog.bodies.get(own[0]["key"])
                if b is None:
                    ctx.anchor_missing(rule, "body of as_verifiable_ref for %s" % sty)
                    continue
                paths, info = _paths(ctx, prog, b.path, "attr")
                rets = {(pa.ret[0] if isinstance(pa.ret, tuple) else pa.ret) for pa in paths}
                if "Option::Some" in rets:
                    some_types.add(sty.split("::")[-1])
                if rets not in ({"Option::Some"}, {"Option::None"}):
                    ctx.violation(rule, "override:%s" % sty.split("::")[-1], "as_verifiable_ref returns %s" % sorted(map(str, rets)), b.where())
    ctx.ob(rule, "verifiable-types", some_types == {"MessageIntegrity", "MessageIntegritySha256", "Fingerprint"},
           "types whose as_verifiable_ref returns Some: %s (of %d overriding impls)" % (sorted(some_types), n_over))
    dflt = prog.body("stun_rs::attributes::AsVerifiable::as_verifiable_ref")
    paths, info = _paths(ctx, prog, dflt.path, "attr")
    ctx.ob(rule, "default-none", all(pa.ret == "Option::None" for pa in paths) and bool(paths), "provided default returns None", dflt.where())
    # enum dispatch: for each variant the call goes to the variant's own impl
    cands = [b for b in prog.bodies.values() if b.path == "<stun_rs::attributes::StunAttribute as stun_rs::attributes::AsVerifiable>::as_verifiable_ref"]
    if len(cands) != 1:
        ctx.anchor_missing(rule, "StunAttribute::as_verifiable_ref")
        return
    paths, info = _paths(ctx, prog, cands[0].path, "attr", [r"\{closure"])
    n_some = 0
    variants = 0
    for pa in paths:
        var = pa.choice(r"^variant\(attr\)$")
        variants += 1
        cs = [c for c in pa.calls if "as_verifiable_ref" in c[1]]
        ok = len(cs) == 1 and ("attr.0" in repr(cs[0][2][0]) or "attr" in repr(cs[0][2][0]))
        tgt = C.short(cs[0][1]) if cs else None
        # the callee must be the variant's own type
        if ok:
            self_ty = cs[0][1].split(" as ")[0].lstrip("<").split("::")[-1]
            ok = self_ty == var
        ctx.ob(rule, "dispatch:%s" % var, ok, "variant %s -> %s" % (var, tgt), info["where"], replay=None if ok else pa.describe())
    adt = prog.adt("stun_rs::StunAttribute")
    ctx.ob(rule, "dispatch-exhaustive", variants == len(adt["variants"]), "%d variants dispatched of %d" % (variants, len(adt["variants"])), info["where"])


def r4_5_siblings(ctx, prog, rule="R4.5"):
    ctx.rule(rule, "writer and validator share one MAC function per attribute; both key constructors pass the password through "
                   "opaque_string_enforce; the agent pairs each integrity variant with get_input_text of the same type")
    for ty, short in ((MI_T, "MessageIntegrity"), (SHA_T, "MessageIntegritySha256")):
        paths, info = _paths(ctx, prog, "<%s as %s>::post_encode" % (ty, ENC), "attr", [r"\{closure", r"AttributeEncoderContext"])
        done = False
        for pa in paths:
            h = pa.calls_to(r"HmacSha>::hmac_sha$")
            if h:
                done = True
                ok = h[0][1].startswith("<%s as " % ty) and "attr.0" in repr(C.expr_of(pa, h[0][2][0])) and "as_bytes" in repr(C.expr_of(pa, h[0][2][0])) \
                    and "ctx.encoded_msg" in repr(h[0][2][1])
                cp = pa.calls_to(r"copy_from_slice")
                ok = ok and len(cp) == 1 and "hmac_sha" in repr(C.expr_of(pa, cp[0][2][1])) and "ctx.raw_value" in repr(C.expr_of(pa, cp[0][2][0]))
                ctx.ob(rule, "post_encode:%s" % short, ok, "post_encode writes hmac(key, encoded message): %s" % [C.short(c[1]) for c in pa.calls],
                       info["where"], replay=pa.describe())
        if not done:
            ctx.violation(rule, "post_encode:%s" % short, "no path of post_encode computes the MAC", info["where"])
    for fn in ("new_short_term", "new_long_term"):
        cands = [b for b in prog.bodies.values() if b.path.endswith("HMACKey::" + fn)]
        if len(cands) != 1:
            ctx.anchor_missing(rule, "HMACKey::" + fn)
            continue
        b = cands[0]
        enf = [c for c in b.calls() if re.search(r"strings::opaque_string_enforce$", c.callee_path)]
        prep = [c for c in b.calls() if re.search(r"strings::opaque_string_prepapre$", c.callee_path)]
        ctx.ob(rule, "key:%s" % fn, len(enf) >= 1 and not prep, "HMACKey::%s enforces the OpaqueString profile (%d site, %d prepare)" % (fn, len(enf), len(prep)), b.where())
        # dataflow of the key material: on every Ok path the key bytes are computed from the *results* of
        # opaque_string_enforce - the raw password (and realm) reach the key only through it (checking them and then hashing
        # the raw string derives a different key for any input that is not a fixed point of the profile)
        kpaths, kinfo = C.explore_fn(prog, b.path, "x", [])
        must = {"new_short_term": ("password",), "new_long_term": ("realm", "password")}[fn]
        present = {"new_short_term": ("password",), "new_long_term": ("username", "realm", "password")}[fn]
        n_ok = 0
        for pa in kpaths:
            r = C.expr_of(pa, pa.ret)
            if not (isinstance(r, tuple) and r and r[0] == "Result::Ok"):
                continue
            n_ok += 1
            raw, seen_leaf = [], set()

            def walk(x, under):
                if isinstance(x, tuple):
                    u = under or (len(x) >= 1 and isinstance(x[0], str) and x[0].endswith("opaque_string_enforce"))
                    for y in x:
                        walk(y, u)
                elif isinstance(x, str):
                    for nm in present:
                        if re.match(r"^top:%s(\b|$)" % nm, x):
                            seen_leaf.add(nm)
                            if nm in must and not under:
                                raw.append(nm)
            walk(r, False)
            ok = not raw and set(present) <= seen_leaf
            why = "key material of HMACKey::%s: %s reach it %s; inputs used: %s" % (
                fn, "/".join(must), "only through opaque_string_enforce" if not raw else "RAW (%s not normalised)" % ", ".join(sorted(set(raw))), sorted(seen_leaf))
            ctx.ob(rule, "key-dataflow:%s" % fn, ok, why, b.where(), replay=None if ok else pa.describe())
        ctx.floor(rule, "Ok paths of HMACKey::%s" % fn, n_ok, 1)
    b = prog.body("stun_agent::integrity::validate_message_integrity")
    paths, info = _paths(ctx, prog, b.path, "x")
    seen = set()
    for pa in paths:
        var = pa.choice(r"^variant\(integrity\)$")
        g = [c for c in pa.calls if "get_input_text::<" in c[1]]
        v = [c for c in pa.calls if re.search(r"::validate$", c[1])]
        if var in ("MessageIntegrity", "MessageIntegritySha256"):
            ty = MI_T if var == "MessageIntegrity" else SHA_T
            ty_ok = len(g) == 1 and g[0][1].endswith("::%s>" % var)
            if len(g) == 1 and not ty_ok and re.search(r"get_input_text::<[A-Z]\w*>$", g[0][1]):
                # the call sits in a generic helper a refactoring introduced (`fn h<A: ..>() { get_input_text::<A>(..) }`):
                # the type is the one the helper is instantiated with at its call site in this function
                from ..absint import with_new_helpers
                inst = [c.full for c in b.calls() if any(hb.key == c.callee_key for hb in with_new_helpers(prog, b)[1:])]
                ty_ok = any(re.search(r"::<(\w+::)*%s[,>]" % var, f_) for f_ in inst)
            ok = ty_ok and "raw_buffer" in repr(g[0][2])
            inp = pa.choice(r"^variant\(ret:get_input_text@")
            if inp == "Some":
                ok = ok and len(v) == 1 and v[0][1].endswith("::%s::validate" % var) \
                    and "top:key" in repr(v[0][2][2]) and "get_input_text" in repr(C.expr_of(pa, v[0][2][1]))
                ok = ok and isinstance(_ret(pa), tuple) and "validate" in _ret(pa)[0]
            else:
                ok = ok and pa.ret == 0
            key = "agent-validate:%s:input=%s" % (var, inp)
        else:
            ok = pa.ret == 0 and not g and not v
            key = "agent-validate:other"
        if key not in seen:
            seen.add(key)
            ctx.ob(rule, key, ok, "%s -> %s" % (var, show(_ret(pa))[:120]), info["where"], replay=None if ok else pa.describe())
    ctx.floor(rule, "agent validate_message_integrity classes", len(seen), 5)


# ------------------------------------------------------------------------------------------------ C11

TM = "stun_agent::timeout::StunMessageTimeout"


def _item_field(prog, name):
    adt = prog.adt("stun_agent::timeout::TimeoutItem")
    names = [f["name"] for f in adt["variants"][0]["fields"]]
    if name not in names:
        raise C.AnchorMissing("TimeoutItem.%s" % name)
    return names.index(name)


_CMP_RX = re.compile(r"PartialOrd(<.*>)?>::(lt|le|gt|ge)$")


def order_facts(pa, lo=0, hi=None):
    """the ordering decisions taken in pa.log[lo:hi]: [(A, B, truth)] meaning `A > B` is `truth`, from the branched-on results of
    PartialOrd::{lt,le,gt,ge} calls (lt(a,b) = gt(b,a); le(a,b) = !gt(a,b); ge(a,b) = !gt(b,a))"""
    hi = len(pa.log) if hi is None else hi
    out = []
    for i in range(lo, hi):
        e = pa.log[i]
        if e[0] == "cmp" and e[2] in ("Gt", "Ge", "Lt", "Le") and str(e[1]).endswith("@instant"):
            # a comparison of instants a model decided (Instant::checked_duration_since): same canonical form
            v = next((x[2] for x in pa.log[i:hi] if x[0] == "choice" and x[1] == e[1]), None)
            if v is not None:
                a, b = C.expr_of(pa, e[3], 0, i), C.expr_of(pa, e[4], 0, i)
                if e[2] == "Gt":
                    out.append((a, b, bool(v)))
                elif e[2] == "Lt":
                    out.append((b, a, bool(v)))
                elif e[2] == "Le":
                    out.append((a, b, not v))
                else:
                    out.append((b, a, not v))
            continue
        if e[0] != "call":
            continue
        m = _CMP_RX.search(e[1])
        if not m or len(e[2]) < 2:
            continue
        v = next((x[2] for x in pa.log[i:hi] if x[0] == "choice" and x[1] == e[4]), None)
        if v is None:
            continue
        a, b = (C.expr_of(pa, x, 0, i) for x in e[2][:2])
        op = m.group(2)
        if op == "gt":
            out.append((a, b, bool(v)))
        elif op == "lt":
            out.append((b, a, bool(v)))
        elif op == "le":
            out.append((a, b, not v))
        else:
            out.append((b, a, not v))
    return out


ZERO_DURATIONS = [("Duration::from_secs", 0), ("Duration::from_millis", 0), ("Duration::from_micros", 0), ("Duration::from_nanos", 0),
                  ("Duration::new", 0, 0), "top:const:std::time::Duration::ZERO", ("Duration::default",)]


def _is_zero_duration(d):
    return any(same(d, z) for z in ZERO_DURATIONS)


def r11_2_payload(ctx, prog, rule="R11.2"):
    ctx.rule(rule, "StunMessageTimeout::next_timeout: None iff the heap is empty; otherwise the id is the peeked minimum's id "
                   "and the duration is (item.instant + item.timeout) - instant where the ordering decisions of the path leave "
                   "that difference possibly positive, zero only where they establish expiry <= instant")
    fi, ft, fid = (_item_field(prog, n) for n in ("instant", "timeout", "transaction_id"))
    paths, info = _paths(ctx, prog, TM + "::next_timeout", "t")
    peek = ("BinaryHeap::peek", "top:t.timeouts")
    item = lambda k: (peek, ".some.*.0.%d" % k)
    expires = ("Instant::add", item(fi), item(ft))
    diffs = [(f, expires, "top:instant") for f in ("Instant::sub", "Instant::duration_since", "Instant::saturating_duration_since")]
    n = 0
    for pa in paths:
        pk = pa.choice(r"^variant\(ret:peek@")
        r = _ret(pa)
        n += 1
        if pk == "None":
            ok = r == "Option::None"
            key = "empty"
        else:
            facts = order_facts(pa)
            # what the decisions say about `expires > instant`:  True / False (expires <= instant) / "ge" (expires >= instant) / "lt"
            known = []
            for (a, b, t) in facts:
                if same(a, expires) and b == "top:instant":
                    known.append("gt" if t else "le")
                elif a == "top:instant" and same(b, expires):
                    known.append("lt" if t else "ge")
                else:
                    known.append("other")
            d = r[1][2] if isinstance(r, tuple) and r[0] == "Option::Some" and isinstance(r[1], tuple) and len(r[1]) == 3 and r[1][0] == "tuple" else None
            okid = d is not None and same(r[1][1], item(fid))
            if known in (["gt"], ["ge"]):
                okd = any(same(d, x) for x in diffs)
            elif known in (["le"], ["lt"]):
                okd = _is_zero_duration(d) or same(d, diffs[2])
            elif not known:
                okd = same(d, diffs[2])          # no decision: only the saturating difference is right on both sides
            else:
                okd = False
            ok = okid and okd
            key = "pending:%s" % ",".join(known)
        ctx.ob(rule, key, ok, "-> %s" % show(r)[:260], info["where"], replay=None if ok else pa.describe())
    ctx.floor(rule, "next_timeout paths", n, 2)      # empty / pending (one path when the saturating difference is used)


def r11_3_order(ctx, prog, rule="R11.3"):
    ctx.rule(rule, "heap order: TimeoutItem::cmp compares self.instant+self.timeout (receiver) with other's (argument) in that "
                   "order; partial_cmp delegates to cmp; the heap element type is Reverse<TimeoutItem> (min-heap by expiry)")
    paths, info = _paths(ctx, prog, "<stun_agent::timeout::TimeoutItem as std::cmp::Ord>::cmp", "a")
    exp = ("Instant::cmp", ("Instant::add", "top:a.instant", "top:a.timeout"), ("Instant::add", "top:other.instant", "top:other.timeout"))
    for pa in paths:
        r = _ret(pa)
        # Instant::add is commutative in its two operands only within one item: compare without normalising cmp's order
        ok = isinstance(r, tuple) and r[0] == "Instant::cmp" and same(r[1], exp[1]) and same(r[2], exp[2])
        ctx.ob(rule, "cmp", ok, "cmp = %s" % show(r), info["where"], replay=pa.describe())
    ctx.floor(rule, "cmp paths", len(paths), 1)
    paths, info = _paths(ctx, prog, "<stun_agent::timeout::TimeoutItem as std::cmp::PartialOrd>::partial_cmp", "a")
    for pa in paths:
        r = _ret(pa)
        ok = isinstance(r, tuple) and r[0] == "Option::Some" and isinstance(r[1], tuple) and r[1][0].endswith("cmp") \
            and "top:a" in repr(r[1][1]) and "top:other" in repr(r[1][2])
        ctx.ob(rule, "partial_cmp", ok, "partial_cmp = %s" % show(r), info["where"])
    adt = prog.adt(TM)
    f = [x for x in adt["variants"][0]["fields"] if x["name"] == "timeouts"]
    tys = adt["types"][f[0]["ty"]]["s"] if f else None
    ctx.ob(rule, "heap-type", tys == "std::collections::BinaryHeap<std::cmp::Reverse<stun_agent::timeout::TimeoutItem>>",
           "StunMessageTimeout.timeouts : %s" % tys)


def _peeked(x):
    """an expression over the item a PeekMut guard derefs to, rewritten over the peeked element itself:
    ((PeekMut::deref, (P, '.some')), '.*<rest>')  ->  (P, '.some.*<rest>')"""
    if isinstance(x, tuple):
        if len(x) == 2 and isinstance(x[1], str) and isinstance(x[0], tuple) and len(x[0]) == 2 and x[0][0] in ("PeekMut::deref", "PeekMut::deref_mut") \
                and isinstance(x[0][1], tuple) and len(x[0][1]) == 2 and x[0][1][1] == ".some":
            return (x[0][1][0], ".some" + x[1])
        return tuple(_peeked(y) for y in x)
    return x


def r11_4_pairing(ctx, prog, rule="R11.4"):
    ctx.rule(rule, "pairing: add pushes Reverse(TimeoutItem{instant, timeout, id}) from its arguments; check pops exactly the "
                   "entries whose instant+timeout <= now and returns their ids, stopping at the first later one; remove "
                   "retains the entries whose id differs from the argument")
    paths, info = _paths(ctx, prog, TM + "::add", "t")
    for pa in paths:
        ps = pa.calls_to(r"BinaryHeap::<.*>::push$")
        exp = ("Reverse", ("TimeoutItem", "top:instant", "top:timeout", "top:transaction_id"))
        ok = len(ps) == 1 and ps[0][3] == ("t", "timeouts") and same(C.expr_of(pa, ps[0][2][1]), exp)
        ctx.ob(rule, "add", ok, "add pushes %s" % (show(C.expr_of(pa, ps[0][2][1])) if ps else None), info["where"])
    fi, ft, fid = (_item_field(prog, n) for n in ("instant", "timeout", "transaction_id"))
    paths, info = _paths(ctx, prog, TM + "::check", "t")
    body = info["body"]
    peek = ("BinaryHeap::peek", "top:t.timeouts")
    item = lambda k: (peek, ".some.*.0.%d" % k)
    expires = ("Instant::add", item(fi), item(ft))
    seen = {}
    for pa in paths:
        heads = [i for i, e in enumerate(pa.log) if e[0] == "loop-head" and e[1] == body.path]
        for k, h in enumerate(heads):
            end = heads[k + 1] if k + 1 < len(heads) else len(pa.log)
            seg = pa.log[h + 1:end]
            pkc = [e for e in seg if e[0] == "choice" and re.match(r"variant\(ret:peek(_mut)?@", str(e[1]))]
            pk = pkc[0][2] if pkc else None
            # the due test: exactly one ordering decision, about (expiry, instant), deciding `expiry > instant` both ways
            facts = order_facts(pa, h + 1, end)
            due = None
            bad = None
            pcs = [i for i in range(h + 1, end) if pa.log[i][0] == "call" and re.search(r"BinaryHeap::<.*>::peek(_mut)?$", pa.log[i][1])]
            if len(pcs) != 1 or pa.log[pcs[0]][3] != ("t", "timeouts"):
                bad = "%d peek calls on the heap in one iteration" % len(pcs)
            else:
                peek = C.expr_of(pa, "top:" + pa.log[pcs[0]][4], 0, pcs[0] + 1)      # the heap as it is in this iteration
                expires = ("Instant::add", item(fi), item(ft))
            for (a, b, t) in facts:
                if same(_peeked(a), expires) and b == "top:instant" and due is None:
                    due = 0 if t else 1
                else:
                    bad = "ordering decision on %s > %s" % (show(a)[:60], show(b)[:40])
            pushes = [e for e in seg if e[0] == "call" and re.search(r"Vec::<.*>::push$", e[1])]
            # the root is removed by heap.pop() or, when it was taken with peek_mut(), by PeekMut::pop(guard)
            pops = [e for e in seg if e[0] == "call" and re.search(r"BinaryHeap::<.*>::pop$", e[1])]
            gpops = [e for e in seg if e[0] == "call" and re.search(r"PeekMut::<.*>::pop$", e[1])
                     and len(pcs) == 1 and same(C.expr_of(pa, e[2][0], 0, pa.log.index(e)), (peek, ".some"))]
            # peek() == Some and no heap operation since: pop() cannot return None; a path that assumes it is infeasible
            popc = [e for e in seg if e[0] == "choice" and re.match(r"variant\(ret:pop@", str(e[1]))]
            if pk == "Some" and popc and popc[0][2] == "None" and len(pcs) == 1 and len(pops) == 1:
                between = [e for e in pa.log[pcs[0] + 1:pa.log.index(pops[0])] if e[0] == "call" and e[3] == ("t", "timeouts")]
                if not between:
                    continue
            key = "iteration:peek=%s,due=%s" % (pk, due)
            if bad is not None:
                ok = False
                why = bad
            elif pk == "Some" and due == 1:
                ok = len(pushes) == 1 and ((len(pops) == 1 and not gpops and pops[0][3] == ("t", "timeouts")) or (len(gpops) == 1 and not pops))
                if ok:
                    a = _peeked(C.expr_of(pa, pushes[0][2][1], 0, pa.log.index(pushes[0])))
                    popped = [(("PeekMut::pop", (peek, ".some")), ".0.%d" % fid), (("BinaryHeap::pop", "top:t.timeouts"), ".some.0.%d" % fid)]
                    ok = same(a, item(fid)) or any(same(a, x) for x in popped)
                why = "due entry: %d push, %d pop" % (len(pushes), len(pops) + len(gpops))
            else:
                ok = not pushes and not pops and not gpops and (pk != "Some" or due == 0)
                why = "no due entry: %d push, %d pop" % (len(pushes), len(pops) + len(gpops))
            if key not in seen or not ok:
                seen[key] = (ok, why)
        # the function returns the vector it filled
        if isinstance(pa.ret, str):
            okr = pa.ret.startswith("top:havoc:push") or pa.ret.startswith("top:ret:new@")
            ctx.ob(rule, "check-returns-expired", okr, "check returns %s" % pa.ret[:60], info["where"])
    for key, (ok, why) in sorted(seen.items()):
        ctx.ob(rule, "check:%s" % key, ok, why, info["where"])
    ctx.floor(rule, "check iteration classes", len(seen), 3)
    paths, info = _paths(ctx, prog, TM + "::remove", "t", [])
    for pa in paths:
        rt = pa.calls_to(r"BinaryHeap::<.*>::retain::<")
        ok = len(rt) == 1 and rt[0][3] == ("t", "timeouts") and "transaction_id" in repr(rt[0][2][1])
        ctx.ob(rule, "remove", ok, "remove = timeouts.retain(closure[%s])" % (repr(rt[0][2][1])[:80] if rt else None), info["where"])
    cl = [b for b in prog.bodies.values() if b.path.startswith(TM + "::remove::{closure")]
    if len(cl) != 1:
        ctx.anchor_missing(rule, "closure of StunMessageTimeout::remove")
    else:
        paths, info = C.explore_fn(prog, cl[0].path, "t", [])
        # the closure's element parameter (named or destructured) is its 2nd argument; the captured id its environment
        pname = cl[0].debug_name(2) or "arg2"
        is_elem = lambda x: isinstance(x, str) and re.match(r"^top:(%s|arg2)\.0\.%d(\.\*)?$" % (re.escape(pname), fid), x) is not None
        is_capt = lambda x: isinstance(x, str) and re.match(r"^top:arg1\.0(\.\*)*$", x) is not None
        for pa in paths:
            r = _ret(pa)
            ok = False
            if isinstance(r, tuple) and len(r) == 3 and r[0].endswith("ne"):
                ok = (is_elem(r[1]) and is_capt(r[2])) or (is_elem(r[2]) and is_capt(r[1]))
            elif isinstance(r, tuple) and len(r) == 2 and r[0] == "op:Not" and isinstance(r[1], tuple) and len(r[1]) == 3 and r[1][0].endswith("eq"):
                ok = (is_elem(r[1][1]) and is_capt(r[1][2])) or (is_elem(r[1][2]) and is_capt(r[1][1]))
            ctx.ob(rule, "remove-closure", ok, "retain predicate = %s" % show(r), cl[0].where())


# ------------------------------------------------------------------------------------------------ C13

SA = "stun_agent::message::StunAttributes"


def r13_1_tail_order(ctx, prog, rule="R13.1"):
    ctx.rule(rule, "From<StunAttributes> for Vec<StunAttribute>: after the base vector the pushes are integrity, "
                   "integrity_sha256, fingerprint in that order, each iff present, and the base vector is returned")
    cands = [b for b in prog.bodies.values() if re.search(r"From<stun_agent::message::StunAttributes> for std::vec::Vec<.*StunAttribute>>::from$", b.path)]
    cands = [b for b in cands if b.kind != "Closure"]
    if len(cands) != 1:
        ctx.anchor_missing(rule, "From<StunAttributes> for Vec<StunAttribute> (%d)" % len(cands))
        return
    paths, info = _paths(ctx, prog, cands[0].path, "val")
    n = 0
    for pa in paths:
        pres = {}
        for f in ("integrity", "integrity_sha256", "fingerprint"):
            pres[f] = pa.choice(r"^variant\(val\.%s\)$" % f)
        pushes = pa.calls_to(r"Vec::<.*>::push$")
        order = []
        for e in pushes:
            src = repr(e[2][1])
            m = re.search(r"val\.(integrity_sha256|integrity|fingerprint)", src)
            order.append(m.group(1) if m else src[:40])
            if "val.attributes" not in repr(e[2][0]) and "havoc:push" not in repr(e[2][0]):
                order.append("WRONG-VEC:%s" % repr(e[2][0])[:40])
        want = [f for f in ("integrity", "integrity_sha256", "fingerprint") if pres[f] == "Some"]
        r = pa.ret
        okr = isinstance(r, str) and ("val.attributes" in r or "havoc:push" in r)
        n += 1
        ctx.ob(rule, "tail:%s" % ",".join("%s=%s" % (k[:3], v) for k, v in pres.items()), order == want and okr,
               "pushes %s (expected %s), returns %s" % (order, want, r if isinstance(r, str) else "?"), info["where"],
               replay=pa.describe())
    ctx.floor(rule, "presence combinations", n, 8)


def r13_2_replace(ctx, prog, rule="R13.2"):
    ctx.rule(rule, "StunAttributes::add: MESSAGE-INTEGRITY / -SHA256 / FINGERPRINT go to their dedicated slot (overwrite); any "
                   "other type overwrites the existing attribute of the same type at its position or, if none, is pushed; "
                   "remove takes the dedicated slot or removes the first attribute of the type")
    body = prog.body(SA + "::add")
    paths, info = C.explore_fn(prog, body.path, "sa", [r"\{closure", r"stun_rs::attributes::StunAttribute::(is_\w+)$"])
    ctx.fn(body)
    slot = {"MessageIntegrity": "integrity", "MessageIntegritySha256": "integrity_sha256", "Fingerprint": "fingerprint"}
    seen = {}
    for pa in paths:
        var = None
        for nme, v in pa.choices:
            if str(nme).startswith("variant(ret:into@"):
                var = v
        # the first-match search over sa.attributes: position / find with a predicate (both stop at the first match)
        pc = pa.calls_to(r"Iterator>::(position|find)::<")
        pos = pa.choice(r"^variant\(ret:(position|find)@")
        w = [(x[2], x[3]) for x in pa.writes if x[0] == "write" and x[1] == "sa"]
        we = [x for x in pa.writes if x[0] == "write-elem"]
        # a store through the `&mut` element that find() returned on sa.attributes.iter_mut()
        wf = []
        for x in pa.writes:
            if x[0] == "write" and isinstance(x[1], str) and re.match(r"obj:ret:find@.*\.some$", x[1]) and x[2] == () and pc:
                recv = C.expr_of(pa, pc[0][2][0])
                if "iter_mut" in repr(recv) and "top:sa.attributes" in repr(recv):
                    wf.append(x)
        pushes = pa.calls_to(r"Vec::<.*>::push$")
        idx = pa.calls_to(r"IndexMut<usize>>::index_mut$|index_mut$")
        if var in slot:
            ok = len(w) == 1 and w[0][0] == (slot[var],) and isinstance(w[0][1], tuple) and w[0][1][0] == "Option::Some" and not pushes and not idx
            key = "add:%s" % var
            why = "writes %s, %d push" % ([x[0] for x in w], len(pushes))
        else:
            key = "add:other:position=%s" % pos
            if pos == "Some":
                ok = not w and not pushes and (len(idx) + len(we) + len(wf) == 1)
                if ok and idx:
                    ok = "position" in repr(C.expr_of(pa, idx[0][2][1])) and "sa.attributes" in repr(idx[0][2][0])
                if ok and wf:
                    ok = "into" in repr(wf[0][3])          # the element is overwritten with the attribute being added
                why = "existing type: %d overwrite of the found element, %d push" % (len(idx) + len(we) + len(wf), len(pushes))
            else:
                ok = not w and len(pushes) == 1 and "sa.attributes" in repr(pushes[0][2][0]) and "into" in repr(pushes[0][2][1])
                why = "new type: %d push" % len(pushes)
            # the search predicate compares attribute types (checked below); what it captures is the added attribute or its type
            ok = ok and len(pc) == 1 and "top:sa.attributes" in repr(C.expr_of(pa, pc[0][2][0]))
            if ok:
                caps = C.expr_of(pa, pc[0][2][1])
                ok = isinstance(caps, str) or (isinstance(caps, tuple) and all("into" in repr(c) for c in caps[1:]))
                if not ok:
                    why += "; the predicate captures %s" % show(caps)[:80]
        if key not in seen or not ok:
            seen[key] = (ok, why, pa)
    for key, (ok, why, pa) in sorted(seen.items()):
        ctx.ob(rule, key, ok, why, info["where"], replay=None if ok else pa.describe())
    ctx.floor(rule, "add cases", len(seen), 5)
    cl = [b for b in prog.bodies.values() if b.path.startswith(SA + "::add::{closure")]
    for b in cl:
        paths, info = C.explore_fn(prog, b.path, "c", [])
        for pa in paths:
            r = _ret(pa)
            # eq(attribute_type(element), attribute_type(captured attribute))  or  eq(attribute_type(element), captured type)
            def is_elem_type(x):
                return isinstance(x, tuple) and x[0] == "StunAttribute::attribute_type" and isinstance(x[1], str) and re.match(r"top:(a|arg2)(\.\*)*$", x[1])

            def is_capt_type(x):
                if isinstance(x, tuple) and x[0] == "StunAttribute::attribute_type":
                    x = x[1]
                return isinstance(x, str) and re.match(r"top:arg1\.0(\.\*)*$", x) is not None
            ok = isinstance(r, tuple) and len(r) == 3 and r[0].endswith("eq") and \
                ((is_elem_type(r[1]) and is_capt_type(r[2])) or (is_elem_type(r[2]) and is_capt_type(r[1])))
            ctx.ob(rule, "add-position-predicate", bool(ok), "position predicate = %s" % show(r)[:160], b.where())
    ctx.floor(rule, "add closures", len(cl), 1)
    # remove::<T>: a dedicated slot is taken, or the first attribute of the type is removed *preserving the order of
    # the others* (Vec::remove at the found position; swap_remove / retain-by-other-key would reorder or over-delete)
    paths, info = C.explore_fn(prog, SA + "::remove", "sa", [r"\{closure", r"stun_rs::attributes::StunAttribute::(is_\w+)$"], concrete_iters=True)
    ctx.fn(info["body"])
    seen = {}
    MUT = r"Vec::<.*>::(remove|swap_remove|retain|retain_mut|drain|truncate|clear|pop|insert|push|dedup\w*|sort\w*|reverse|swap|split_off|append|extend\w*)$|IndexMut"
    for pa in paths:
        pos = pa.choice(r"^variant\(ret:position@")
        mut = [e for e in pa.calls if re.search(MUT, e[1]) and e[3] and e[3][:2] == ("sa", "attributes")]
        w = sorted({x[2] for x in pa.writes if x[0] == "write" and x[1] == "sa"})
        r = _ret(pa)
        pcr = pa.calls_to(r"Iterator>::position::<")
        caps_ok = True
        for e in pcr:
            caps = C.expr_of(pa, e[2][1])
            caps_ok = caps_ok and (isinstance(caps, str) or (isinstance(caps, tuple) and all("get_type" in repr(c) for c in caps[1:])))
        if pos == "Some":
            key = "remove:found"
            ok = len(mut) == 1 and re.search(r"Vec::<.*>::remove$", mut[0][1]) is not None and not w and caps_ok
            if ok:
                a = C.expr_of(pa, mut[0][2])
                ok = "position" in repr(a[1]) and isinstance(r, tuple) and r[0] == "Option::Some" and isinstance(r[1], tuple) and r[1][0] == "Vec::remove"
            why = "found: %s on sa.attributes, returns %s" % ([C.short(e[1]) for e in mut], show(r)[:80])
        elif pos == "None":
            key = "remove:absent"
            ok = not mut and not w and r == "Option::None"
            why = "absent: %d mutation(s), returns %s" % (len(mut) + len(w), show(r)[:40])
        else:
            key = "remove:slot:%s" % (w[0][0] if len(w) == 1 and w[0] else "?")
            ok = not mut and len(w) == 1 and w[0][0] in ("integrity", "integrity_sha256", "fingerprint") \
                and isinstance(r, tuple) and r[0] == "Option::Some" and ("sa.%s." % w[0][0]) in repr(r[1])
            why = "slot: writes %s, %d vector mutation(s), returns %s" % (w, len(mut), show(r)[:60])
        if key not in seen or not ok:
            seen[key] = (ok, why, pa)
    for key, (ok, why, pa) in sorted(seen.items()):
        ctx.ob(rule, key, ok, why, info["where"], replay=None if ok else pa.describe())
    ctx.floor(rule, "remove cases", len(seen), 5)
    cl = [b for b in prog.bodies.values() if b.path.startswith(SA + "::remove::{closure") and b.tystr(b.locals[0]["ty"]) == "bool"]
    for b in cl:
        paths, info = C.explore_fn(prog, b.path, "c", [])
        for pa in paths:
            r = _ret(pa)
            sides = {repr(r[1])[:34], repr(r[2])[:34]} if isinstance(r, tuple) and len(r) == 3 else set()
            elem = repr(("StunAttribute::attribute_type", "top:a"))[:34]
            # the type searched for: T::get_type() evaluated in the predicate, or captured after being evaluated in remove()
            ok = isinstance(r, tuple) and r[0].endswith("eq") and elem in sides and \
                (repr(("T::get_type",))[:34] in sides or any(re.match(r"'top:arg1\.0(\.\*)*'$", x) for x in sides))
            ctx.ob(rule, "remove-position-predicate", ok, "position predicate = %s" % show(r)[:160], b.where())
    ctx.floor(rule, "remove closures", len(cl), 1)


def r13_45_build(ctx, prog, rule="R13.5"):
    ctx.rule(rule, "fresh transaction id and decoration order: both send paths call create_stun_message with no id after the "
                   "mechanism (first) and FINGERPRINT (second) decoration; create_stun_message adds the attributes in "
                   "StunAttributes order; StunMessageBuilder::build draws a random id when none was given")
    for fn, cls in (("send_request", "MessageClass::Request"), ("send_indication", "MessageClass::Indication")):
        paths, info = C.explore(prog, fn)
        n = 0
        for pa in paths:
            cs = pa.calls_to(r"message::create_stun_message$")
            if not cs:
                continue
            n += 1
            a = cs[0][2]
            ok = a[0] == "top:method" and a[1] == cls and a[2] == "Option::None"
            ctx.ob(rule, "%s:create" % fn, ok, "create_stun_message(%s, %s, %s, ..)" % (a[0], a[1], a[2]), info["where"])
        ctx.floor(rule, "%s paths building a message" % fn, n, 2)
    paths, info = _paths(ctx, prog, "stun_agent::message::create_stun_message", "x", [r"\{closure"])
    n = 0
    for pa in paths:
        tid = pa.choice(r"^variant\(transaction_id\)$")
        wt = pa.calls_to(r"StunMessageBuilder::with_transaction_id$")
        conv = [c for c in pa.calls if re.search(r"Into<std::vec::Vec<.*StunAttribute>>>::into$|From<stun_agent::message::StunAttributes>.*::from$", c[1])]
        n += 1
        ok = (len(wt) == 1) == (tid == "Some") and len(conv) >= 1 and "attributes" in repr(conv[0][2])
        bd = pa.calls_to(r"StunMessageBuilder::build$")
        ok = ok and len(bd) == 1
        ctx.ob(rule, "create_stun_message:id=%s" % tid, ok, "with_transaction_id x%d, build x%d" % (len(wt), len(bd)), info["where"],
               replay=None if ok else pa.describe())
    ctx.floor(rule, "create_stun_message paths", n, 2)
    b = prog.body("stun_rs::message::StunMessageBuilder::build")
    paths, info = _paths(ctx, prog, b.path, "b", [r"\{closure"])
    n = 0
    for pa in paths:
        n += 1
        r = C.expr_of(pa, pa.ret)
        ok = "TransactionId::default" in repr(r) or "unwrap_or_default" in repr(r) or "default" in repr([C.short(c[1]) for c in pa.calls]) \
            or pa.choice(r"transaction_id") == "Some"
        ctx.ob(rule, "build:%s" % ",".join(str(v) for _n, v in pa.choices), ok, "build -> %s" % show(r)[:200], b.where())
    d = [x for x in prog.bodies.values() if x.path == "<stun_rs::types::TransactionId as std::default::Default>::default"]
    if len(d) != 1:
        ctx.anchor_missing(rule, "TransactionId::default")
    else:
        rnd = [c for c in d[0].calls() if re.search(r"^rand::|rand::Rng|rand::rng|fill", c.callee_path)]
        ctx.ob(rule, "default-id-is-random", len(rnd) >= 1, "TransactionId::default calls %s" % sorted({C.short(c.callee_path) for c in d[0].calls()}), d[0].where())


def r13_6_packet_immutable(ctx, prog, rule="R13.6"):
    ctx.rule(rule, "identical retransmission: the stored packet is the one pushed as OutputPacket (send_request); on_timeout "
                   "pushes a clone of transaction.packet (R5.3); StunPacket has no API taking &mut self and "
                   "StunTransaction.packet is written only when the transaction is built")
    paths, info = C.explore(prog, "send_request")
    for pa in paths:
        ins = pa.calls_to(r"HashMap::<.*>::insert$", R.T_TABLE)
        outp = [p for p in pa.pushes() if p[1] == "StunClientEvent::OutputPacket"]
        if ins and outp:
            tr = ins[0][2][2]
            ok = isinstance(tr, tuple) and tr[0] == "StunTransaction" and tr[2] == outp[0][2][1] and "encode_buffer" in repr(tr[2])
            ctx.ob(rule, "stored==sent", ok, "stored packet %r, sent packet %r" % (tr[2] if isinstance(tr, tuple) else tr, outp[0][2][1]), info["where"])
            break
    else:
        ctx.violation(rule, "stored==sent", "no Ok path with insert + OutputPacket found", info["where"])
    muts = []
    for b in prog.bodies.values():
        if b.crate == "stun_agent" and b.raw.get("self_ty") is not None and b.types[b.raw["self_ty"]]["s"] == "stun_agent::StunPacket":
            if b.arg_count >= 1:
                t = b.local_ty(1)
                if t.get("k") == "ref" and t.get("mut"):
                    muts.append(b.path)
    ctx.ob(rule, "packet-no-mut-api", not muts, "StunPacket methods taking &mut self: %s" % (muts or "none"))
    n, bad = R.who_may_write(ctx, prog, rule, "packet", "stun_agent::client::StunTransaction", [])
    ctx.ob(rule, "packet-field-writes", not bad, "writes/&mut to StunTransaction.packet after construction: %s" % (bad or "none"))
    adt = prog.adt("stun_agent::StunPacket")
    ftys = [adt["types"][f["ty"]]["s"] for f in adt["variants"][0]["fields"]]
    ctx.ob(rule, "packet-shared-immutable", any(t.startswith("std::sync::Arc<") for t in ftys), "StunPacket fields: %s" % ftys)


# ------------------------------------------------------------------------------------------------ C18

DC = "stun_rs::context::DecoderContext"


def r18_1_who_reads(ctx, prog, rule="R18.1"):
    ctx.rule(rule, "who may read the decoder options: validation / unknown_data / not_ignore only through their accessors, the "
                   "builder, derived impls and MessageDecoder::decode; validate() only in validate_attribute; "
                   "with_unknown_data() only in decode; key() only in Verifiable::verify impls; no attribute decoder reads a flag")
    readers = {}
    for b in prog.bodies.values():
        if b.crate != "stun_rs":
            continue
        for blk in b.blocks:
            if blk["cleanup"]:
                continue
            places = []
            for s in blk["stmts"]:
                if s["k"] == "assign":
                    places.append(s["place"])
                    rv = s["rv"]
                    if rv["k"] in ("ref", "rawptr", "discr"):
                        places.append(rv["place"])
                    for o in ([rv.get("op"), rv.get("a"), rv.get("b")] + list(rv.get("ops", []))):
                        if isinstance(o, dict) and o["k"] in ("copy", "move"):
                            places.append(o["place"])
            t = blk["term"]
            if t["k"] == "switch" and t["discr"]["k"] in ("copy", "move"):
                places.append(t["discr"]["place"])
            if t["k"] == "call":
                for a in t["args"]:
                    if a["k"] in ("copy", "move"):
                        places.append(a["place"])
            for pl in places:
                for e in pl["p"]:
                    if e["k"] == "field" and e.get("adt") == DC and e.get("name") in ("validation", "unknown_data", "not_ignore", "key"):
                        readers.setdefault(e["name"], set()).update(owning_functions(prog, b))
    allowed_common = [r"^stun_rs::context::DecoderContextBuilder::", r"^<stun_rs::context::DecoderContext as std::(fmt::Debug|clone::Clone|cmp::PartialEq|default::Default)",
                      r"^<stun_rs::context::DecoderContext as std::cmp::Eq"]
    allowed = {
        "validation": [r"^stun_rs::context::DecoderContext::validate$"],
        "unknown_data": [r"^stun_rs::context::DecoderContext::with_unknown_data$"],
        "not_ignore": [r"^stun_rs::context::MessageDecoder::decode$"],
        "key": [r"^stun_rs::context::DecoderContext::key$"],
    }
    for f, fns in sorted(readers.items()):
        bad = [x for x in fns if not any(re.search(a, x) for a in allowed[f] + allowed_common)]
        ctx.ob(rule, "field:%s" % f, not bad, "DecoderContext.%s accessed in %d functions; outside the allowed set: %s" % (f, len(fns), bad or "none"))
    ctx.floor(rule, "option fields found", len(readers), 4)
    callers = {"validate": set(), "with_unknown_data": set(), "key": set()}
    ctx_callers = set()
    def fn_items(x):
        """paths of the functions an operand tree mentions as values (`map_or(false, DecoderContext::validate)`)"""
        out = []
        if isinstance(x, dict):
            fn = x.get("fn")
            if isinstance(fn, dict):
                out.append(fn.get("rpath") or fn.get("full") or "")
            for v in x.values():
                out += fn_items(v)
        elif isinstance(x, list):
            for v in x:
                out += fn_items(v)
        return out
    for b in prog.bodies.values():
        if b.crate != "stun_rs":
            continue
        # a method handed to a combinator as a function item is a call made on this function's behalf
        for blk in b.blocks:
            for pth in fn_items(blk.get("stmts", [])) + fn_items({k: v for k, v in blk["term"].items() if k != "func"}):
                m = re.search(r"^stun_rs::context::DecoderContext::(validate|with_unknown_data|key)$", pth)
                if m:
                    callers[m.group(1)] |= owning_functions(prog, b)
        for c in b.calls():
            m = re.search(r"^stun_rs::context::DecoderContext::(validate|with_unknown_data|key)$", c.callee_path)
            if m:
                callers[m.group(1)] |= owning_functions(prog, b)
            if re.search(r"AttributeDecoderContext::<'_>::context$|AttributeDecoderContext::context$", c.callee_path):
                ctx_callers |= owning_functions(prog, b)
    ctx.ob(rule, "callers:validate", callers["validate"] == {"stun_rs::context::validate_attribute"}, "validate() called in %s" % sorted(callers["validate"]))
    ctx.ob(rule, "callers:with_unknown_data", callers["with_unknown_data"] == {"stun_rs::context::MessageDecoder::decode"},
           "with_unknown_data() called in %s" % sorted(callers["with_unknown_data"]))
    okk = bool(callers["key"]) and all(re.search(r" as stun_rs::attributes::Verifiable>::verify$", x) for x in callers["key"])
    ctx.ob(rule, "callers:key", okk, "key() called in %s" % sorted(x.split(" as ")[0].split("::")[-1] for x in callers["key"]))
    okc = all(re.search(r"password_algorithms::PasswordAlgorithms as stun_rs::attributes::DecodeAttributeValue>::decode$", x) for x in ctx_callers)
    ctx.ob(rule, "callers:attribute-context", okc, "AttributeDecoderContext::context() called in %s" % sorted(ctx_callers))


def r18_2_flows(ctx, prog, rule="R18.2"):
    ctx.rule(rule, "option flows in the decode loop: unknown_data decides only the data argument of Unknown::new; not_ignore "
                   "only the filter gate; validation only whether verify runs (its sole effect is an error); a decoder "
                   "without context behaves like one with the default context")
    res = shared.decode_paths(ctx, prog)
    if res is None:
        return
    segs, info = res
    n = 0
    for s in segs:
        if s["handler"] != "None" or not s["unknown_new"]:
            continue
        arg = s["unknown_new"][0][0] if s["unknown_new"][0] else None
        kept = isinstance(arg, tuple) and arg[0] == "Option::Some"
        want = (s["ctx"] == "Some" and s["unknown_data"] == 1)
        n += 1
        ok = kept == want
        if ok and kept:
            ok = "next@" in repr(arg)          # the raw attribute value of this iteration
        ctx.ob(rule, "unknown-data:ctx=%s,flag=%s" % (s["ctx"], s["unknown_data"]), ok,
               "Unknown::new data=%s" % (repr(arg)[:80],), info["where"], replay=None if ok else s)
    ctx.floor(rule, "unknown-attribute iteration classes", n, 3)

    def proj(s):
        return (s["ignored"], s["validated"], s["validate_result"], s["appended"], s["handler"],
                tuple(("Some" if isinstance(u[0], tuple) and u[0][0] == "Option::Some" else "None") for u in s["unknown_new"]), s["exit"], tuple(s["order"]))
    none_set = {proj(s) for s in segs if s["ctx"] == "None"}
    dflt_set = {proj(s) for s in segs if s["ctx"] == "Some" and s["unknown_data"] in (0, None) and s["not_ignore"] in (0, None)
                and not (s["not_ignore"] is None and s["ignored"] == 1 and s["validated"])}
    # a flag left undetermined on a path (None) means the path does not depend on it: it stands for both values
    missing = none_set - dflt_set
    extra = {p for p in dflt_set - none_set}
    ctx.ob(rule, "no-context==default-context", not missing and not extra,
           "%d iteration classes without context, %d with the default context; only-without=%s only-default=%s"
           % (len(none_set), len(dflt_set), sorted(missing)[:2], sorted(extra)[:2]), info["where"])
    # the validation flag is consulted only inside validate_attribute (R4.2) - the loop itself never branches on it
    ctx.ob(rule, "validation-not-in-loop", all(s["validation"] is None for s in segs),
           "decode loop paths that branch on the validation flag: %d" % len([s for s in segs if s["validation"] is not None]), info["where"])
    # appended at most once per iteration, and iterations are in wire order by construction of the loop
    ctx.ob(rule, "append-once", all(s["order"].count("with_attribute") <= 1 for s in segs), "with_attribute at most once per iteration", info["where"])


def r18_5_builder(ctx, prog, rule="R18.5"):
    ctx.rule(rule, "DecoderContextBuilder: each option setter returns the same builder with exactly its own field changed "
                   "(options are independent of the order in which they are set); build() returns the accumulated context")
    exp = {"with_key": ("key", None), "with_validation": ("validation", 1), "with_unknown_data": ("unknown_data", 1), "not_ignore": ("not_ignore", 1)}
    adt = prog.adt(DC)
    names = [f["name"] for f in adt["variants"][0]["fields"]]
    for fn, (field, val) in exp.items():
        b = prog.body("stun_rs::context::DecoderContextBuilder::%s" % fn, required=False)
        if b is None:
            ctx.anchor_missing(rule, "DecoderContextBuilder::%s" % fn)
            continue
        paths, info = _paths(ctx, prog, b.path, "bld")
        for pa in paths:
            r = pa.ret
            ok = isinstance(r, tuple) and r[0] == "DecoderContextBuilder" and isinstance(r[1], tuple) and r[1][0] == "DecoderContext" and len(r[1]) == 1 + len(names)
            why = "returns %r" % (r,)
            if ok:
                for i, nme in enumerate(names):
                    got = r[1][1 + i]
                    if nme == field:
                        if val is not None and got != val:
                            ok, why = False, "%s sets %s to %r" % (fn, nme, got)
                        if val is None and not (isinstance(got, tuple) and got[0] == "Option::Some" and "key" in repr(got)):
                            ok, why = False, "%s sets key to %r" % (fn, got)
                    else:
                        if "self.0.%s" % nme not in repr(got) and "bld.0.%s" % nme not in repr(got):
                            ok, why = False, "%s changes the unrelated option %s to %r" % (fn, nme, got)
            ctx.ob(rule, fn, ok, why[:260], b.where(), replay=None if ok else pa.describe())
    b = prog.body("stun_rs::context::DecoderContextBuilder::build")
    paths, info = _paths(ctx, prog, b.path, "bld")
    for pa in paths:
        ctx.ob(rule, "build", "bld.0" in repr(pa.ret) or "self.0" in repr(pa.ret), "build returns %r" % (pa.ret,), b.where())


# ------------------------------------------------------------------------------------------------
# get_input_text: the text a MAC / CRC is computed over

def r4_7_input_text(ctx, prog, rule="R4.7"):
    ctx.rule(rule, "get_input_text(buffer, T): the search stops at the *first* attribute of type T (no attribute is examined "
                   "after a match); the prefix end is updated only by non-matching attributes and the patched length only by "
                   "the matching one; the result is buffer[..prefix + 20] with bytes 2..4 overwritten by that length - so "
                   "attributes appended after the first T cannot change the text")
    from ..cfg import cfg_of
    fn = "stun_rs::raw::get_input_text"
    paths, info = C.explore_fn(prog, fn, "x", [r"\{closure"])
    body = info["body"]
    ctx.fn(body)
    n_ok = 0
    bad = []
    for pa in paths:
        segs = shared.segments(pa.log, body.path)
        matched_at = None
        for i, seg in enumerate(segs):
            nx = [e for e in seg if e[0] == "call" and re.search(r"RawAttributesIter.*::next$", e[1])]
            if matched_at is not None and nx:
                bad.append("an attribute is examined after the first match (iteration %d after match in %d)" % (i, matched_at))
            for e in seg:
                if e[0] == "choice" and ((str(e[1]).startswith("cmp:Eq") and e[2] == 1) or (str(e[1]).startswith("cmp:Ne") and e[2] == 0)):
                    matched_at = i
        r = C.expr_of(pa, pa.ret)
        if isinstance(r, tuple) and r[0] == "Result::Ok":
            n_ok += 1
            if matched_at is None:
                bad.append("Ok returned without a matching attribute")
            cb = [C.expr_of(pa, e[2]) for e in pa.calls if re.search(r"check_buffer_boundaries$", e[1])]
            tv = [C.expr_of(pa, e[2]) for e in pa.calls if re.search(r"slice::<impl \[.*\]>::to_vec$", e[1])]
            # the length patch, in either spelling: BigEndian::write_u16(&mut out[2..4], v) / out[2..4].copy_from_slice(&v.to_be_bytes())
            wr = [C.expr_of(pa, e[2]) for e in pa.calls if re.search(r"ByteOrder>::write_u16$", e[1])]
            for e in pa.calls:
                if re.search(r"copy_from_slice$", e[1]):
                    a = C.expr_of(pa, e[2])
                    src = a[1]
                    while isinstance(src, tuple) and len(src) == 2 and isinstance(src[1], str) and src[1].startswith("."):
                        src = src[0]
                    if isinstance(src, tuple) and src and src[0] == "u16::to_be_bytes":
                        wr.append((a[0], src[1]))
            okp = len(cb) == 1 and cb[0][0] == "top:buffer" and (cb[0][1] == 20 or (isinstance(cb[0][1], tuple) and cb[0][1][0] == "op:Add" and 20 in cb[0][1][1:]))
            # the copy is the view buffer[0 .. checked bound], however it is sliced (index, split_at half, get)
            from .. import linproof as LP
            okv = False
            if len(tv) == 1 and cb:
                L_ = LP.Lin()
                root, lo, hi = L_.view(tv[0][0])
                okv = root == "top:buffer" and lo == {} and hi == L_.lin(cb[0][1])
            okw = len(wr) == 1 and "pos" in repr(wr[0][1])
            if okw:
                root, lo, hi = LP.Lin().view(wr[0][0])
                okw = lo == {1: 2} and hi == {1: 4}
            if not (okp and okv and okw):
                bad.append("result is not buffer[..prefix+20] with length patched at 2..4: check %s, to_vec %s, write %s" % (
                    [show(x)[:50] for x in cb], [show(x)[:60] for x in tv], [show(x)[:60] for x in wr]))
    ctx.ob(rule, "input-text:paths", not bad and n_ok >= 2, "; ".join(sorted(set(bad))[:2]) or "%d paths, %d successful: search stops at the first match" % (len(paths), n_ok),
           info["where"])
    # structure of the loop: which edge of the type comparison updates which variable.  The loop is in get_input_text or
    # in a helper a refactoring split off it (then the helper returns the two offsets and get_input_text consumes them)
    from ..absint import with_new_helpers
    top = body
    loopfns = [b2 for b2 in with_new_helpers(prog, top) if any(re.search(r"RawAttributesIter.*::next$", c.callee_path) for c in b2.calls())]
    if len(loopfns) != 1:
        ctx.anchor_missing(rule, "get_input_text: one function calling RawAttributesIter::next (%d)" % len(loopfns))
        return
    body = loopfns[0]
    cfg = cfg_of(body)
    heads = [c.block for c in body.calls() if re.search(r"RawAttributesIter.*::next$", c.callee_path)]
    if len(heads) != 1:
        ctx.anchor_missing(rule, "get_input_text: exactly one RawAttributesIter::next call (%d)" % len(heads))
        return
    head = heads[0]
    # the two quantities, found by dataflow rather than by name: the prefix end is what flows into the bound of
    # check_buffer_boundaries(buffer, _), the patched length is what flows into Option::ok_or_else(_)
    def place_item(pl, rest=()):
        """(local, field path) of a place: the field indices of its projections (downcasts and derefs skipped), then `rest`"""
        flds = tuple(pe.get("i") for pe in pl.get("p", []) if pe.get("k") == "field" and pe.get("name") != "pos" and pe.get("i") is not None)
        return (pl["l"], flds + tuple(rest))

    def operand_locals(x, rest=()):
        """(local, field path) items an operand / rvalue reads"""
        out = set()
        if isinstance(x, dict):
            pl = x.get("place")
            if isinstance(pl, dict) and "l" in pl:
                out.add(place_item(pl, rest))
            for k, v in x.items():
                if k != "place":
                    out |= operand_locals(v, rest)
        elif isinstance(x, list):
            for v in x:
                out |= operand_locals(v, rest)
        return out

    def reads_iter_pos(rv):
        """does the rvalue read a field named `pos` (of the attribute iterator)?"""
        def walk(x):
            if isinstance(x, dict):
                pl = x.get("place")
                if isinstance(pl, dict) and any(pe.get("k") == "field" and pe.get("name") == "pos" for pe in pl.get("p", [])):
                    return True
                return any(walk(v) for v in x.values())
            if isinstance(x, list):
                return any(walk(v) for v in x)
            return False
        return walk(rv)

    getters = {b2.path for b2 in prog.bodies.values() if re.search(r"RawAttributesIter(::)?(<.*>)?::pos$", b2.path) and len(b2.blocks) <= 2}
    consts = {}

    def back_slice(seeds):
        """flow-insensitive backward slice over whole-local assignments, sensitive to field paths through tuple / enum
        aggregates (`found = Some((start, end))` .. `let Some((s, e)) = found`): -> (tracked (local, path) items, blocks
        whose statement / getter call reads iter.pos); constants assigned to sliced locals are collected in consts[seeds]"""
        locs = set(seeds)
        src = set()
        cs = consts.setdefault(frozenset(seeds), set())
        changed = True
        rounds = 0
        while changed and rounds < 60:
            changed = False
            rounds += 1
            for b2, blk in enumerate(body.blocks):
                if blk["cleanup"]:
                    continue
                for st in blk["stmts"]:
                    if st["k"] != "assign" or st["place"]["p"]:
                        continue
                    L = st["place"]["l"]
                    for (l0, path) in [x for x in locs if x[0] == L]:
                        rv = st["rv"]
                        rest = path
                        while rv.get("k") == "aggregate" and rest and isinstance(rest[0], int) and rest[0] < len(rv.get("ops", [])):
                            rv, rest = rv["ops"][rest[0]], rest[1:]          # only the component that is read
                        if reads_iter_pos(rv):
                            src.add(b2)
                        if rv.get("k") == "use" and rv["op"]["k"] == "const" and "bits" in rv["op"]:
                            cs.add(int(rv["op"]["bits"]))
                        if rv.get("k") == "const" and "bits" in rv:
                            cs.add(int(rv["bits"]))
                        keep = rest if rv.get("k") in ("use", "copy", "move") or "place" in rv else ()
                        new = {x for x in operand_locals(rv, keep) if len(x[1]) <= 6} - locs
                        if new:
                            locs |= new
                            changed = True
                t = blk["term"]
                if t["k"] == "call" and t.get("dest") and not t["dest"]["p"] and any(x[0] == t["dest"]["l"] for x in locs):
                    full = (t["func"].get("fn") or {}).get("rpath") or (t["func"].get("fn") or {}).get("full", "")
                    if getters and re.search(r"RawAttributesIter(::<.*>)?::pos$", full):
                        src.add(b2)                 # iter.pos(): the accessor of the same field
                    if re.search(r"::(into|from|try_into|try_from|clone|unwrap_or|unwrap_or_default|branch|ok_or|ok_or_else|unwrap|expect)(::<.*>)?$",
                                 (t["func"].get("fn") or {}).get("full", "")):
                        new = operand_locals(t["args"]) - locs
                        if new:
                            locs |= new
                            changed = True
        return locs, src
    cbb = [c for c in top.calls() if re.search(r"check_buffer_boundaries$", c.callee_path)]
    # the 16-bit value patched into the copy: the value operand of BigEndian::write_u16 / the receiver of u16::to_be_bytes
    lens = [c.term["args"][1:2] for c in top.calls() if re.search(r"ByteOrder>::write_u16$", c.callee_path)] + \
           [c.term["args"][0:1] for c in top.calls() if re.search(r"<impl u16>::to_be_bytes$", c.callee_path)]
    if len(cbb) != 1 or len(lens) != 1:
        ctx.anchor_missing(rule, "get_input_text: one check_buffer_boundaries call and one 16-bit length patch (%d / %d)" % (len(cbb), len(lens)))
        return
    pos_seed, len_seed = operand_locals(cbb[0].term["args"][1:2]), operand_locals(lens[0])
    if body is not top:
        # which component of the helper's result feeds the prefix and which the length: read off the expression trees of
        # get_input_text explored with the helper opaque (payload names .ok / .some / .<i> give the access path)
        hp, hinfo = C.explore_fn(prog, top.path, "x", [r"\{closure"], opaque=["^" + re.escape(body.path) + "$"])
        comp = {}
        hname = C.short(body.path)
        for pa in hp:
            r = C.expr_of(pa, pa.ret)
            if not (isinstance(r, tuple) and r[0] == "Result::Ok"):
                continue
            for e in pa.calls:
                a = C.expr_of(pa, e[2])
                which = "pos" if re.search(r"check_buffer_boundaries$", e[1]) else ("len" if re.search(r"ByteOrder>::write_u16$|copy_from_slice$", e[1]) else None)
                if which is None:
                    continue
                for m in re.finditer(re.escape(repr(hname)) + r".*?'((?:\.ok|\.some|\.\d+|\.\*)+)'", repr(a[1] if len(a) > 1 else a)):
                    idx = [x for x in m.group(1).split(".") if x.isdigit()]
                    if idx:
                        comp.setdefault(which, set()).add(int(idx[-1]))
        if not (len(comp.get("pos", ())) == 1 and len(comp.get("len", ())) == 1):
            ctx.anchor_missing(rule, "get_input_text: which results of %s are the prefix end and the length (%s)" % (hname, comp))
            return
        ip, il = comp["pos"].pop(), comp["len"].pop()
        pos_seed, len_seed = set(), set()
        for blk in body.blocks:
            for st in blk["stmts"]:
                if st["k"] == "assign" and st["rv"]["k"] == "aggregate" and st["rv"].get("agg") == "tuple" and len(st["rv"].get("ops", [])) == 2:
                    pos_seed |= operand_locals(st["rv"]["ops"][ip])
                    len_seed |= operand_locals(st["rv"]["ops"][il])
        if not pos_seed or not len_seed:
            ctx.anchor_missing(rule, "get_input_text: the pair returned by %s" % hname)
            return
    _pl, pos_src = back_slice(pos_seed)
    _ll, len_src = back_slice(len_seed)
    # the switch that compares attr_type with raw_attr.attr_type: a switch inside the loop on an Eq of two u16
    sw = None
    for bi, blk in enumerate(body.blocks):
        t = blk["term"]
        if t["k"] != "switch" or blk["cleanup"]:
            continue
        for st in blk["stmts"]:
            if st["k"] == "assign" and st["rv"]["k"] == "binop" and st["rv"]["op"] in ("Eq", "Ne") and \
                    t["discr"]["k"] in ("copy", "move") and t["discr"]["place"]["l"] == st["place"]["l"] and bi in cfg.reachable(head):
                sw = (bi, t, st["rv"]["op"])
    if sw is None:
        ctx.anchor_missing(rule, "get_input_text: the attribute type comparison")
        return
    bi, t, cmp_op = sw
    false_t = [tg for v, tg in t["targets"] if int(v) == 0]
    true_t = t["otherwise"] if false_t else None
    if not false_t:
        ctx.anchor_missing(rule, "get_input_text: comparison edges")
        return
    false_t = false_t[0]
    if cmp_op == "Ne":
        true_t, false_t = false_t, true_t          # `true` below means: the types are equal
    on_true = cfg.reachable(true_t, cut_blocks=[head])
    on_false = cfg.reachable(false_t, cut_blocks=[head])

    after_cmp = on_true | on_false          # the rest of an iteration (and, for an edge that leaves the loop, what follows)
    # the patched length is iter.pos read after the matching next(): its reads sit on the match edge only
    ok1 = bool(len_src) and len_src <= on_true and not (len_src & on_false)
    # the prefix end is iter.pos as it was before the matching next(): it is never read on the match edge, it is read
    # again between any two next() calls (no cycle through the call avoids a read), and when the call can be reached
    # without a read the variable still holds its initial constant 0 (= the iterator's initial position, R3.5)
    nxt = cfg.succ[head][0][0] if cfg.succ[head] else head
    cycle_free = head not in cfg.reachable(nxt, cut_blocks=pos_src - {head})
    first_needs_init = head in cfg.reachable(0, cut_blocks=pos_src)
    init_ok = (not first_needs_init) or consts.get(frozenset(pos_seed), set()) <= {0}
    ok2 = bool(pos_src) and not (pos_src & on_true) and cycle_free and init_ok
    # after a match the loop head is not reached again
    ok3 = head not in cfg.reachable(true_t)
    ctx.ob(rule, "input-text:loop-structure", ok1 and ok2 and ok3,
           "length set only on the match edge: %s; prefix end advanced only on the non-match edge: %s; the match edge leaves the loop: %s"
           % (ok1, ok2, ok3), body.where())


def r18_6_unknown_new(ctx, prog, rule="R18.6"):
    ctx.rule(rule, "Unknown::new(type, data) keeps the data exactly as given: Some(bytes) -> Some(copy of the bytes) whatever "
                   "their length, None -> None; no filtering or conditional call sits between the argument and the field; "
                   "attribute_data() returns the stored field")
    U = "stun_rs::attributes::unknown::Unknown"
    paths, info = C.explore_fn(prog, U + "::new", "x", [r"\{closure"])
    ctx.fn(info["body"])
    seen = {}
    # conversions only: Into::into of the argument, and the function items given to Option::map (Vec::from, Arc::new)
    allowed = re.compile(r"Into<.*>>::into$|^T::into$|::into$|^<std::vec::Vec<u8> as std::convert::From<.*>>::from$|^std::sync::Arc::<.*>::new$|^std::slice::<impl \[u8\]>::to_vec$|^<\[u8\] as std::borrow::ToOwned>::to_owned$")
    for pa in paths:
        given = None
        for nme, v in pa.choices:
            if str(nme).startswith("variant(ret:into@"):
                given = v
        r = C.expr_of(pa, pa.ret)
        extra = [C.short(e[1]) for e in pa.calls if not allowed.search(e[1])]
        gs = pa.guards()
        stored = r[2] if isinstance(r, tuple) and r[0] == "Unknown" and len(r) == 3 else "?"
        st = "Some" if isinstance(stored, tuple) and stored[0] == "Option::Some" else ("None" if stored == "Option::None" else "?")
        ok = given in ("Some", "None") and st == given and not extra and not gs and isinstance(r, tuple) and r[1] == "top:attr_type"
        k = "given=%s" % given
        if k not in seen or not ok:
            seen[k] = (ok, "data %s -> stored %s; extra calls %s; comparisons %s" % (given, st, extra, [g[:1] for g in gs]), pa)
    for k, (ok, why, pa) in sorted(seen.items()):
        ctx.ob(rule, "unknown-new:%s" % k, ok, why, info["where"], replay=None if ok else pa.describe())
    ctx.floor(rule, "Unknown::new cases", len(seen), 2)
    # the two Option::map closures only convert (Vec::from, Arc::new): they are passed as function items, not closures with logic
    body = info["body"]
    cl = [b for b in prog.bodies.values() if b.path.startswith(U + "::new::{closure")]
    # a closure given to Option::map may only convert (`|raw| Arc::new(raw.to_vec())`): no branch, no call outside the
    # conversion whitelist
    logic = []
    for b in cl:
        calls_ok = all(allowed.search(c.full) or allowed.search(c.callee_path) for c in b.calls())
        branches = any(blk["term"]["k"] == "switch" for blk in b.blocks if not blk["cleanup"])
        if not calls_ok or branches:
            logic.append(b.path.split("::")[-1])
    ctx.ob(rule, "unknown-new:no-closures", not logic, "closures with logic in Unknown::new: %s (of %d closure(s))" % (logic, len(cl)), body.where())
    maps = [c for c in body.calls() if re.search(r"Option::<.*>::(map|filter|and_then|take_if|then|then_some|zip|xor|or|or_else|filter_map)", c.callee_path)]
    okm = all(re.search(r"Option::<.*?>::(\w+)", c.callee_path).group(1) == "map" for c in maps)
    ctx.ob(rule, "unknown-new:only-map", okm, "Option combinators used: %s" % sorted({re.search(r"Option::<.*?>::(\w+)", c.callee_path).group(1) for c in maps}), body.where())
    b = prog.body(U + "::attribute_data", required=False)
    if b is None:
        ctx.anchor_missing(rule, "Unknown::attribute_data")
        return
    paths, info = C.explore_fn(prog, b.path, "u", [r"\{closure"])
    for pa in paths:
        r = C.expr_of(pa, pa.ret)
        txt = repr(r) + repr([C.expr_of(pa, e[2]) for e in pa.calls])
        none_case = r == "Option::None" and pa.choice(r"^variant\(u\.attr_data\)$") == "None"
        ctx.ob(rule, "attribute_data:%s" % ("None" if none_case else "Some"), ("u.attr_data" in txt or none_case) and not pa.guards(),
               "attribute_data() derives from %s" % ("u.attr_data" if "u.attr_data" in txt else ("the empty field" if none_case else txt[:80])), info["where"])
