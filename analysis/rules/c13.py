"""C13 - every packet the client emits is well formed; retransmissions identical (structural clauses)."""
from . import client_rules as R
from . import codec_rules as K
from . import mech_rules as M


def check(ctx, env):
    ctx.explanation = (
        "Static: canonical tail order (R13.1) and replace-not-duplicate (R13.2) are decided on every path of "
        "From<StunAttributes> for Vec and StunAttributes::add (all 39 attribute variants); strip-before-add tables per "
        "mechanism (R13.3 = R7.2 + R8.1); mechanism-then-FINGERPRINT-then-build order (R13.4 = R10.3); fresh id (R13.5); "
        "identical retransmission by construction (R13.6 + R5.3). That the bytes decode with an independent parser and the "
        "MACs verify is NOT decided.")
    ctx.assumptions = ["rustc MIR", "callee models of analysis/models.py", "Vec::push appends at the end"]
    prog = env.prog("agent")
    K.r13_1_tail_order(ctx, prog)
    K.r13_2_replace(ctx, prog)
    M.r7_2_st_send(ctx, prog, rule="R13.3")
    M.r8_1_decoration(ctx, prog, rule="R13.3")
    M.r8_5_derivation(ctx, prog, rule="R13.3")      # the values of the credential attributes (USERHASH operands, key inputs)
    K.r10_3_last_on_send(ctx, prog, rule="R13.4")
    K.r13_45_build(ctx, prog)
    K.r13_6_packet_immutable(ctx, prog)
    R.r5_3_retransmit(ctx, prog, rule="R13.6")
    # every emitted packet decodes: the encoder writes all four header fields (length = 0 first) whatever the buffer held
    from . import c02
    c02.r2_5_constants(ctx, prog, rule="R13.7")
    if env.tier == "thorough":
        from .. import witness
        witness.run(ctx, "R13.6", ["W1"])
