"""C18 - decoder options only filter or decorate (information flow)."""
from . import codec_rules as K


def check(ctx, env):
    ctx.explanation = (
        "Static: who-may-read queries over the resolved MIR show that each decoder option is read only by its accessor and "
        "consumed only at its decision point (R18.1); the decode loop is explored path-sensitively with all options "
        "symbolic: unknown_data decides only Unknown::new's data argument, not_ignore only the filter gate, validation only "
        "whether verify runs, and the iteration table of a decoder without context equals that of the default context "
        "(R18.2-R18.4); validate_attribute's only effect is an error (C04 R4.2).")
    ctx.assumptions = ["rustc MIR", "callee models of analysis/models.py", "attribute decoders receive the context by value (no write effect by type)"]
    prog = env.prog("agent")
    K.r18_1_who_reads(ctx, prog)
    K.r18_2_flows(ctx, prog)
    K.r4_2_validate_attribute(ctx, prog, rule="R18.3")
    from . import c09
    c09.r92(ctx, prog)
    K.r18_5_builder(ctx, prog)
    K.r18_6_unknown_new(ctx, prog)
    if env.tier == "thorough":
        from .. import witness
        witness.run(ctx, "R18.1", ["W4"])
