"""C03 - untrusted bytes never crash the decoder, the client or the reassembler."""
import re
from . import panic_rules as P
from .. import panics
from ..mirq import q_of
from ..cfg import cfg_of

ENTRIES_AGENT = ["stun_rs::context::MessageDecoder::decode", "stun_rs::raw::get_input_text",
                 "stun_agent::client::StunClient::on_buffer_recv", "stun_agent::StunPacketDecoder::new",
                 "stun_agent::StunPacketDecoder::decode"]
ENTRIES_FULL = ["stun_rs::context::MessageDecoder::decode", "stun_rs::raw::get_input_text"]


def r3_2_size(ctx, prog):
    ctx.rule("R3.2", "size clause: the usize returned by MessageDecoder::decode is the one returned by RawMessage::decode, "
                     "which is MESSAGE_HEADER_SIZE + msg_length and is the bound of a successful check_buffer_boundaries")
    from .. import client as C
    paths, info = C.explore_fn(prog, "<stun_rs::raw::RawMessage<'a> as stun_rs::Decode<'a>>::decode", "x", [r"\{closure"])
    ctx.fn(info["body"])
    n = 0
    for pa in paths:
        if pa.ret_kind != "Ok":
            continue
        n += 1
        r = C.expr_of(pa, pa.ret)
        size = r[1][2] if isinstance(r[1], tuple) and len(r[1]) > 2 else None
        chk = pa.calls_to(r"common::check_buffer_boundaries$")
        # 20 + msg_length, the 20 being the constant or the size MessageHeader::decode returned (always 20: R2.10)
        hdr = (("MessageHeader::decode", "top:buffer"), ".ok.1")
        ok = isinstance(size, tuple) and size[0] == "op:Add" and len(size) == 3 and \
            ((size[1] in (20, hdr) and "msg_length" in repr(size[2])) or (size[2] in (20, hdr) and "msg_length" in repr(size[1])))
        ok = ok and any(C.expr_of(pa, c[2][1]) == size and "top:buffer" in repr(c[2][0]) for c in chk)
        ctx.ob("R3.2", "raw-message-size", ok, "RawMessage::decode returns size %s, checked: %s" % (size, [repr(C.expr_of(pa, c[2][1]))[:60] for c in chk]), info["where"],
               replay=pa.describe())
    ctx.floor("R3.2", "RawMessage::decode Ok paths", n, 1)
    paths, info = C.explore_fn(prog, "stun_rs::context::MessageDecoder::decode", "d",
                               [r"MessageDecoder::decode::\{closure", r"\{impl#\d+\}::decode::\{closure"])
    n = 0
    for pa in paths:
        if pa.ret_kind != "Ok":
            continue
        n += 1
        r = pa.ret
        ok = isinstance(r, tuple) and isinstance(r[1], tuple) and "decode@" in repr(r[1][2]) and repr(r[1][2]).rstrip("'\"").endswith(".ok.1")
        ctx.ob("R3.2", "decoder-returns-raw-size", ok, "MessageDecoder::decode returns size %r" % (r[1][2] if isinstance(r, tuple) and isinstance(r[1], tuple) else r,), info["where"])
    ctx.floor("R3.2", "MessageDecoder::decode Ok paths", n, 1)


def r3_3_progress(ctx, prog):
    ctx.rule("R3.3", "loop progress: on the Ok(Some) path RawAttributesIter::next advances pos by value_size + padding with "
                     "value_size >= 4 (attribute header), and fails when pos would pass the end")
    from .. import client as C
    paths, info = C.explore_fn(prog, "<stun_rs::raw::RawAttributesIter<'a> as fallible_iterator::FallibleIterator>::next", "it", [r"\{closure"])
    ctx.fn(info["body"])
    n = 0
    for pa in paths:
        r = pa.ret
        if not (isinstance(r, tuple) and r[0] == "Result::Ok" and isinstance(r[1], tuple) and r[1][0] == "Option::Some"):
            continue
        n += 1
        w = [x for x in pa.writes if x[1] == "it" and x[2] == ("pos",)]
        ok = len(w) == 1
        if ok:
            v = C.expr_of(pa, w[0][3])
            ok = isinstance(v, tuple) and v[0] == "op:Add" and v[1] == "top:it.pos" and isinstance(v[2], tuple) and v[2][0] == "op:Add" \
                and "decode" in repr(v[2][1]) and isinstance(v[2][2], tuple) and v[2][2][0] == "common::padding"
        ctx.ob("R3.3", "iterator-advances", ok, "pos' = %s" % (repr(C.expr_of(pa, w[0][3]))[:200] if w else None), info["where"], replay=pa.describe())
    ctx.floor("R3.3", "Ok(Some) paths", n, 1)
    # RawAttribute::decode returns 4 + attr_length
    paths, info = C.explore_fn(prog, "<stun_rs::raw::RawAttribute<'a> as stun_rs::Decode<'a>>::decode", "x", [r"\{closure"])
    for pa in paths:
        if pa.ret_kind == "Ok":
            r = C.expr_of(pa, pa.ret)
            size = r[1][2] if isinstance(r[1], tuple) and len(r[1]) > 2 else None
            ok = isinstance(size, tuple) and size[0] == "op:Add" and size[1] == 4
            ctx.ob("R3.3", "attribute-size>=4", ok, "RawAttribute::decode size = %s" % (repr(size)[:120],), info["where"])


def r3_4_reassembler(ctx, prog):
    ctx.rule("R3.4", "the reassembler hands its buffer back: on every return path of StunPacketDecoder::decode the buffer is "
                     "moved into the returned value (Decoded packet, MoreBytesNeeded(self), or the error's buffer field)")
    from .. import client as C
    paths, info = C.explore_fn(prog, "stun_agent::StunPacketDecoder::decode", "dec", [r"\{closure"])
    ctx.fn(info["body"])
    seen = {}
    for pa in paths:
        r = C.expr_of(pa, pa.ret)
        kind = None
        ok = False
        if isinstance(r, tuple) and r[0] == "Result::Ok" and isinstance(r[1], tuple):
            v = r[1]
            if v[0].endswith("Decoded"):
                kind = "Decoded"
                ok = "StunPacket::new" in repr(v) and ("dec.buffer" in repr(v) or "havoc" in repr(v))
            elif v[0].endswith("MoreBytesNeeded"):
                kind = "MoreBytesNeeded"
                ok = "StunPacketDecoder" in repr(v)
        elif isinstance(r, tuple) and r[0] == "Result::Err" and isinstance(r[1], tuple):
            kind = "Err:%s" % (r[1][1] if len(r[1]) > 1 else "?")
            ok = r[1][0] == "StunPacketDecodedError" and ("dec.buffer" in repr(r[1][2]) or "havoc" in repr(r[1][2]))
        key = str(kind)
        if key not in seen or not ok:
            seen[key] = (ok, repr(r)[:200])
    for key, (ok, why) in sorted(seen.items()):
        ctx.ob("R3.4", "return:%s" % key, ok, why, info["where"])
    ctx.floor("R3.4", "return kinds", len(seen), 4)


def check(ctx, env):
    ctx.explanation = (
        "Static: (R3.1) every potential panic site - MIR Assert terminators and calls into a reviewed table of may-panic "
        "std functions - in every function reachable from the untrusted-input entry points (call graph with trait fan-out, "
        "closures, reified fn pointers, Drop impls) is either discharged by a symbolic prover (dominating successful "
        "check_buffer_boundaries facts, exact array/sub-range lengths, integer upper bounds; no solver) or counted against a "
        "reviewed budget keyed by (function, site kind); any site beyond that is a violation. (R3.2) size clause and (R3.3) "
        "loop progress are expression-tree facts; (R3.4) buffer hand-back on every return path of the reassembler; (R3.5, evaluated as the premise of the budget entries it justifies) the wire-attribute iterator and the two decode loops are safe by an inductive linear proof; (R3.6) rejected buffers leave client and mechanism state unchanged. 'The "
        "result depends only on those first bytes' is NOT decided.")
    ctx.assumptions = ["rustc MIR (debug assertions + overflow checks on)",
                       "std/core/alloc functions outside analysis/panics.py MAY_PANIC do not panic",
                       "third-party crates listed in THIRD_PARTY_SAFE do not panic",
                       "reviewed budget anchors/panic_budget.json (one reason per entry)"]
    ctx.rule("R3.1", "no reachable panic from MessageDecoder::decode, get_input_text, StunClient::on_buffer_recv, "
                     "StunPacketDecoder::{new,decode}: every site discharged or within the reviewed budget")
    stats = {}
    for cfg, names in (("agent", ENTRIES_AGENT), ("full", ENTRIES_FULL)):
        prog = env.prog(cfg)
        entries = P.entry_bodies(prog, names)
        seen, ext, ind = P.inventory(ctx, prog, "R3.1", entries)
        st = P.check_sites(ctx, prog, "R3.1", "C03", seen, config_label="" if cfg == "agent" else "@full",
                           exclude_fn=(lambda b: b.crate == "stun_rs") if False else None)
        st["reachable_functions"] = len(seen)
        stats[cfg] = st
        ctx.floor("R3.1", "reachable functions (%s)" % cfg, len(seen), 200 if cfg == "agent" else 250)
        ctx.floor("R3.1", "panic sites inventoried (%s)" % cfg, st["sites"], 80 if cfg == "agent" else 55)   # vacuity guards, well below today's 135 / 93: a refactoring may remove sites
    if env.tier == "thorough":
        # every feature subset of stun-rs (a #[cfg] mismatch only exists in specific subsets)
        from .. import extract
        for cfg in extract.feature_subset_configs():
            prog = env.prog(cfg)
            entries = P.entry_bodies(prog, ENTRIES_FULL)
            seen, ext, ind = P.inventory(ctx, prog, "R3.1", entries)
            st = P.check_sites(ctx, prog, "R3.1", "C03", seen, config_label="@" + cfg)
            stats[cfg] = {"sites": st["sites"], "reachable_functions": len(seen)}
    ctx.extra["panic_sites"] = stats
    prog = env.prog("agent")
    r3_2_size(ctx, prog)
    r3_3_progress(ctx, prog)
    r3_4_reassembler(ctx, prog)
    # "... and the client remains usable": a buffer that is rejected or ignored leaves the client's and the mechanism's
    # state as it was (same rules as C17 R17.1 / R17.2), so untrusted bytes cannot park it in a dead-end state
    from . import client_rules as R
    from . import mech_rules as M
    R.r17_1_reject(ctx, prog, rule="R3.6")
    M.r17_2_mechanisms(ctx, prog, rule="R3.6")
