"""C10 - FINGERPRINT is enforced by the client (structural clauses; CRC value undecided)."""
from . import client_rules as R
from . import codec_rules as K


def check(ctx, env):
    ctx.explanation = (
        "Static: on_buffer_recv is explored path-sensitively: with use_fingerprint every effect is behind "
        "validate_fingerprint = Ok(true) (R10.1); validate_fingerprint fails closed (R10.2); FINGERPRINT is appended "
        "last on send (R10.3); writer and reader share the CRC algorithm and XOR constant 0x5354554e (R10.4). The CRC "
        "value itself and its error-detection property are NOT decided.")
    ctx.assumptions = ["rustc MIR", "callee models of analysis/models.py", "crc crate implements CRC-32/ISO-HDLC"]
    prog = env.prog("agent")
    R.r10_1_fingerprint_first(ctx, prog)
    K.r10_2_fail_closed(ctx, prog)
    K.r10_3_last_on_send(ctx, prog)
    K.r10_4_constants(ctx, prog)
    K.r4_2_validate_attribute(ctx, prog, rule="R10.5")
    K.r4_7_input_text(ctx, prog, rule="R10.6")        # the CRC input ends at the first FINGERPRINT
    # the agent checks the first FINGERPRINT against the bytes before it: that is the whole message only because the
    # decoder it uses (no context) drops whatever follows FINGERPRINT - the filter gate of MessageDecoder::decode
    from . import c09
    c09.r92(ctx, prog, rule="R10.7")
