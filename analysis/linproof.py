"""Linear safety proofs over E2 paths.

For one explored path the effect log is replayed in order.  Known facts (a class invariant, callee contracts, the
comparisons the path has decided so far, type bounds) are linear constraints `sum >= 0`; every slice range, copy, and
usize arithmetic node met on the way yields a proof obligation, decided by Fourier-Motzkin elimination (analysis/fm.py).
Leaves of the linear forms are expression trees (printed canonically); `len(slice expression)` is normalised so that
`buf[a..b].len()` is `b - a` and `buf[a..].len()` is `len(buf) - a`.
"""
import re
from . import fm
from . import client as C
from .rules.exprs import show

U64 = (1 << 64) - 1
ISZ = (1 << 63) - 1
LEN_FNS = ("slice::len", "Vec::len", "str::len", "String::len")


def strip(t):
    while isinstance(t, tuple) and len(t) == 2 and (t[0] == "&" or t[1] == ".*"):
        t = t[1] if t[0] == "&" else t[0]
    if isinstance(t, tuple) and len(t) == 2 and isinstance(t[1], str) and t[1].endswith(".*") and t[1] in (".0.*", ".1.*"):
        return (t[0], t[1][:-2])
    return t


def is_index(t):
    return isinstance(t, tuple) and len(t) == 3 and isinstance(t[0], str) and re.search(r"(^|::)index(_mut)?$", t[0]) is not None


def c_slice_get(w, e, args, suffix, variant):
    """std semantics of slice::get / get_mut with a range: Some => the range lies within the slice"""
    if suffix == "" and variant == "Some" and len(args) == 2 and isinstance(args[1], tuple) and args[1]:
        r = args[1]
        n = w.L.len_lin(args[0])
        if r[0] == "Range" and len(r) == 3:
            a, b = w.L.lin(r[1]), w.L.lin(r[2])
            return [add(b, a, -1), add(n, b, -1)]
        if r[0] == "RangeTo" and len(r) == 2:
            return [add(n, w.L.lin(r[1]), -1)]
        if r[0] == "RangeFrom" and len(r) == 2:
            return [add(n, w.L.lin(r[1]), -1)]
        if r[0] == "RangeToInclusive" and len(r) == 2:
            return [add(add(n, w.L.lin(r[1]), -1), {1: -1})]
    return []


SLICE_GET_RX = r"slice::<impl \[.*\]>::get(_mut)?(::<.*>)?$"


class Namer:
    """maps expression trees to variable names; rules may pre-register names for readability"""

    def __init__(self, rename=None):
        self.rename = rename or (lambda t: None)

    def leaf(self, t):
        r = self.rename(t)
        if r is not None:
            return r
        txt = show(t)
        if len(txt) <= 120:
            return txt
        import hashlib
        return txt[:100] + "..#" + hashlib.sha1(repr(t).encode()).hexdigest()[:10]


def add(a, b, kb=1):
    out = dict(a)
    for k, v in b.items():
        out[k] = out.get(k, 0) + kb * v
    return {k: v for k, v in out.items() if v != 0}


class Lin:
    def __init__(self, namer=None):
        self.namer = namer or Namer()

    def len_lin(self, t):
        t = strip(t)
        # the halves of split_at(_mut)(base, mid)
        if isinstance(t, tuple) and len(t) == 2 and t[1] in (".0", ".1", ".0.*", ".1.*") and isinstance(t[0], tuple) and t[0] \
                and isinstance(t[0][0], str) and re.search(r"split_at(_mut)?$", t[0][0]) and len(t[0]) == 3:
            mid = self.lin(t[0][2])
            return mid if t[1].startswith(".0") else add(self.len_lin(t[0][1]), mid, -1)
        # an item of chunks_exact(_mut)(s, n), possibly reached through zip / enumerate / rev / take / skip: exactly n long
        if isinstance(t, tuple) and len(t) == 2 and isinstance(t[1], str) and t[1].startswith(".some") and isinstance(t[0], tuple) \
                and len(t[0]) == 2 and isinstance(t[0][0], str) and t[0][0].endswith("::next"):
            comps = [c for c in t[1][len(".some"):].split(".") if c and c != "*"]
            n = self._item_len(t[0][1], comps)
            if n is not None:
                return n
        if isinstance(t, tuple) and t and t[0] == "array":
            return {1: len(t) - 1} if len(t) > 1 else {}
        # the Some payload of slice.get(range) / get_mut(range): as long as the range (the check is the `get` itself)
        if isinstance(t, tuple) and len(t) == 2 and isinstance(t[1], str) and t[1] in (".some", ".some.*", ".ok", ".ok.*") \
                and isinstance(t[0], tuple) and len(t[0]) == 3 and isinstance(t[0][0], str) and re.search(r"(^|::)get(_mut)?$", t[0][0]) \
                and isinstance(t[0][2], tuple) and t[0][2] and t[0][2][0] in ("Range", "RangeTo", "RangeFrom", "RangeFull", "RangeToInclusive"):
            return self.len_lin(("index",) + tuple(t[0][1:]))
        if isinstance(t, tuple) and t and isinstance(t[0], str) and re.match(r"[ui](8|16|32|64|128)::to_[bln]e_bytes$", t[0]):
            return {1: int(re.match(r"[ui](\d+)", t[0]).group(1)) // 8}
        if is_index(t):
            r = t[2]
            if isinstance(r, tuple):
                if r[0] == "Range":
                    return add(self.lin(r[2]), self.lin(r[1]), -1)
                if r[0] == "RangeTo":
                    return self.lin(r[1])
                if r[0] == "RangeFrom":
                    return add(self.len_lin(t[1]), self.lin(r[1]), -1)
                if r[0] == "RangeFull":
                    return self.len_lin(t[1])
                if r[0] == "RangeToInclusive":
                    return add(self.lin(r[1]), {1: 1})
        if isinstance(t, tuple) and len(t) == 2 and isinstance(t[0], str) and \
                re.search(r"(^|::)(to_vec|to_owned|into_vec|as_slice|as_mut_slice|as_ref|deref|deref_mut)$|^(String|str)::as_bytes$", t[0]):
            return self.len_lin(t[1])          # length-preserving views / copies
        return {self.namer.leaf(("len", t)): 1}

    def _item_len(self, it, comps, depth=0):
        it = strip(it)
        if not (isinstance(it, tuple) and it and isinstance(it[0], str)) or depth > 6:
            return None
        nm = it[0]
        if nm.endswith("::zip") and len(it) == 3 and comps and comps[0] in ("0", "1"):
            return self._item_len(it[1 + int(comps[0])], comps[1:], depth + 1)
        if nm.endswith("::enumerate") and len(it) == 2 and comps and comps[0] == "1":
            return self._item_len(it[1], comps[1:], depth + 1)
        if re.search(r"::(rev|take|skip|peekable|by_ref|into_iter)$", nm) and len(it) >= 2:
            return self._item_len(it[1], comps, depth + 1)
        if re.search(r"chunks_exact(_mut)?$", nm) and len(it) == 3 and not comps:
            return self.lin(it[2])
        return None

    def view(self, t):
        """(root, lo, hi): t denotes root[lo..hi] (lo, hi linear forms), following nested indexing / `get` with a range,
        the halves of split_at and length-preserving views; a value that is not a sub-slice is its own root (0, len)"""
        t = strip(t)
        if isinstance(t, tuple) and len(t) == 2 and isinstance(t[1], str) and t[1] in (".some", ".some.*", ".ok", ".ok.*") \
                and isinstance(t[0], tuple) and t[0] and isinstance(t[0][0], str) and re.search(r"(^|::)get(_mut)?$", t[0][0]):
            t = ("index",) + tuple(t[0][1:])          # the Some payload of slice.get(range)
        if isinstance(t, tuple) and len(t) == 2 and t[1] in (".0", ".1") and isinstance(t[0], tuple) and t[0] \
                and isinstance(t[0][0], str) and re.search(r"split_at(_mut)?$", t[0][0]) and len(t[0]) == 3:
            root, lo, hi = self.view(t[0][1])
            mid = add(lo, self.lin(t[0][2]))
            return (root, lo, mid) if t[1] == ".0" else (root, mid, hi)
        if is_index(t) and isinstance(t[2], tuple):
            root, lo, hi = self.view(t[1])
            r = t[2]
            if r[0] == "Range":
                return root, add(lo, self.lin(r[1])), add(lo, self.lin(r[2]))
            if r[0] == "RangeTo":
                return root, lo, add(lo, self.lin(r[1]))
            if r[0] == "RangeFrom":
                return root, add(lo, self.lin(r[1])), hi
            if r[0] == "RangeFull":
                return root, lo, hi
            if r[0] == "RangeToInclusive":
                return root, lo, add(add(lo, self.lin(r[1])), {1: 1})
            if r[0] == "RangeInclusive::new" and len(r) >= 3:
                return root, add(lo, self.lin(r[1])), add(add(lo, self.lin(r[2])), {1: 1})
        if isinstance(t, tuple) and len(t) == 2 and isinstance(t[0], str) and \
                re.search(r"(^|::)(as_slice|as_mut_slice|as_ref|deref|deref_mut)$", t[0]):
            return self.view(t[1])
        return t, {}, self.len_lin(t)

    def lin(self, t):
        if isinstance(t, bool):
            return {1: int(t)} if t else {}
        if isinstance(t, int):
            return {1: t} if t else {}
        if isinstance(t, tuple) and t:
            if t[0] in ("op:Add", "op:Sub") and len(t) == 3:
                return add(self.lin(t[1]), self.lin(t[2]), 1 if t[0] == "op:Add" else -1)
            if t[0] == "op:Mul" and len(t) == 3 and isinstance(t[2], int):
                return {k: v * t[2] for k, v in self.lin(t[1]).items()}
            if t[0] == "op:Mul" and len(t) == 3 and isinstance(t[1], int):
                return {k: v * t[1] for k, v in self.lin(t[2]).items()}
            if isinstance(t[0], str) and t[0] in LEN_FNS and len(t) == 2:
                return self.len_lin(t[1])
        return {self.namer.leaf(t): 1}


def fm_const(d):
    if not d:
        return 0
    if set(d) == {1}:
        return d[1]
    return None


def guard_constraint(L, op, a, b, v):
    """the comparison `a op b` decided as v, as a constraint dict (>= 0) over integers; None if not an order test"""
    la, lb = L.lin(a), L.lin(b)
    if op in ("Ge", "Lt"):
        ge = (v == 1) if op == "Ge" else (v == 0)
        return add(la, lb, -1) if ge else add(add(lb, la, -1), {1: -1})
    if op in ("Le", "Gt"):
        le = (v == 1) if op == "Le" else (v == 0)
        return add(lb, la, -1) if le else add(add(la, lb, -1), {1: -1})
    return None


def eq_constraints(L, op, a, b, v):
    """an equality decided true gives two constraints"""
    if (op == "Eq" and v == 1) or (op == "Ne" and v == 0):
        d = add(L.lin(a), L.lin(b), -1)
        return [d, {k: -x for k, x in d.items()}]
    return []


class _Failed(list):
    """failure list of a Walker: entries added while the walker is muted (obligation outside `only`) are dropped"""

    def __init__(self, w):
        list.__init__(self)
        self.w = w

    def append(self, x):
        if not self.w.muted:
            list.append(self, x)


def origin_of(e):
    """the function a logged call / assertion belongs to"""
    if e[0] == "assert":
        return e[8] if len(e) > 8 else None
    if e[0] == "call" and isinstance(e[4], str) and "@" in e[4]:
        site = e[4].split("@", 1)[1]
        return re.sub(r":bb\d+(~.*)?$", "", site)
    return None


class Walker:
    """replays one path; `facts` grows with the comparisons decided and the contracts of the callees met"""

    def __init__(self, pa, facts, namer=None, contracts=(), upper=None, leaf_facts=None):
        self.pa = pa
        self.L = Lin(namer)
        self.facts = list(facts)
        self.contracts = [(re.compile(rx), f) for rx, f in contracts]
        self.upper = upper or (lambda name: None)
        self.leaf_facts = leaf_facts or (lambda name: [])   # extra constraints about a leaf, by its printed name
        self.failed = _Failed(self)
        self.n = 0
        self.proved = []
        self.only = None        # set of function paths: only obligations originating in them are proved / reported
        self.muted = False
        self.n_only = 0

    # --- proving
    def _with_bounds(self, goal):
        names = set()
        for c in self.facts + [goal]:
            names |= {k for k in c if k != 1}
        extra = []
        for nme in names:
            extra.append({nme: 1})
            ub = self.upper(nme)
            if ub is None and nme.startswith("len("):
                ub = ISZ
            if ub is not None:
                extra.append({nme: -1, 1: ub})
            extra.extend(self.leaf_facts(nme))
        return self.facts + extra

    def prove(self, what, goal):
        if self.muted:
            return True
        self.n += 1
        self.n_only += 1
        if fm.entails(self._with_bounds(goal), goal):
            self.proved.append(what)
            return True
        self.failed.append(what)
        return False

    def prove_eq(self, what, d):
        if self.muted:
            return True
        self.n += 1
        self.n_only += 1
        fs = self._with_bounds(d)
        if fm.entails(fs, d) and fm.entails(fs, {k: -v for k, v in d.items()}):
            self.proved.append(what)
            return True
        self.failed.append(what)
        return False

    def arith(self, t, depth=0):
        if not isinstance(t, tuple) or depth > 14:
            return
        if t and isinstance(t[0], str) and re.search(r"^fmt::|Argument|^hint::must_use$|Error::new$|^Arguments::", t[0]):
            return                              # formatting / error construction only carries values computed before
        if t and t[0] == "op:Sub" and len(t) == 3:
            self.prove("%s does not underflow" % show(t)[:70], add(self.L.lin(t[1]), self.L.lin(t[2]), -1))
        if t and t[0] == "op:Add" and len(t) == 3:
            self.prove("%s does not overflow" % show(t)[:70], add({1: U64}, self.L.lin(t), -1))
        for x in t:
            self.arith(x, depth + 1)

    def index_ok(self, nm, base, rng):
        ln = self.L.len_lin(base)
        if not isinstance(rng, tuple):
            # a single index
            self.prove("%s: index < len" % nm, add(add(ln, self.L.lin(rng), -1), {1: -1}))
            return
        if rng[0] == "Range":
            lo, hi = self.L.lin(rng[1]), self.L.lin(rng[2])
        elif rng[0] == "RangeTo":
            lo, hi = {}, self.L.lin(rng[1])
        elif rng[0] == "RangeFrom":
            lo, hi = self.L.lin(rng[1]), ln
        elif rng[0] == "RangeFull":
            return
        else:
            self.failed.append("%s: unrecognised range %s" % (nm, show(rng)[:50]))
            return
        self.prove("%s: start <= end in %s" % (nm, show(rng)[:60]), add(hi, lo, -1))
        self.prove("%s: end <= len in %s" % (nm, show(rng)[:60]), add(ln, hi, -1))

    TYMAX = {"u8": 255, "u16": 65535, "u32": (1 << 32) - 1, "u64": U64, "usize": U64, "u128": (1 << 128) - 1}

    def assertion(self, e, pos):
        """a MIR Assert terminator logged by E2 (log_asserts): bounds check / arithmetic overflow / division"""
        _k, msg, binop, ops, tys, cond, expected, line = e[:8]
        ops = [C.expr_of(self.pa, o, 0, pos) for o in ops]
        what = "%s%s at line %s" % (msg, (":" + binop) if binop else "", line)
        if self.muted:
            return
        if cond is not None and cond == (1 if expected else 0):
            self.n += 1                         # the condition folded to the expected constant
            self.n_only += 1
            self.proved.append(what)
            return
        if msg == "BoundsCheck" and len(ops) == 2:
            ln, ix = ops
            self.prove("%s: index < len" % what, add(add(self.L.lin(ln), self.L.lin(ix), -1), {1: -1}))
            return
        if msg == "Overflow" and binop in ("Add", "Sub", "Mul", "Shl", "Shr") and len(ops) == 2:
            ty = tys[0] if tys and tys[0] in self.TYMAX else None
            if binop in ("Shl", "Shr"):
                bits = {"u8": 8, "u16": 16, "u32": 32, "u64": 64, "usize": 64, "u128": 128}.get(ty)
                if bits is None:
                    self.failed.append("%s: operand type %s" % (what, tys))
                    return
                self.prove("%s: shift amount < %d" % (what, bits), add({1: bits - 1}, self.L.lin(ops[1]), -1))
                return
            if ty is None:
                self.failed.append("%s: operand type %s" % (what, tys))
                return
            a, b = self.L.lin(ops[0]), self.L.lin(ops[1])
            if binop == "Add":
                self.prove("%s fits %s" % (what, ty), add(add({1: self.TYMAX[ty]}, a, -1), b, -1))
            elif binop == "Sub":
                self.prove("%s does not underflow" % what, add(a, b, -1))
            else:
                ca, cb = fm_const(a), fm_const(b)
                if ca is not None and cb is not None:
                    self.prove("%s fits %s" % (what, ty), {1: self.TYMAX[ty] - ca * cb})
                elif cb is not None and cb >= 0:
                    self.prove("%s fits %s" % (what, ty), add({1: self.TYMAX[ty]}, {k: v * cb for k, v in a.items()}, -1))
                elif ca is not None and ca >= 0:
                    self.prove("%s fits %s" % (what, ty), add({1: self.TYMAX[ty]}, {k: v * ca for k, v in b.items()}, -1))
                else:
                    self.failed.append("%s: non-linear product" % what)
            return
        self.failed.append("%s: no rule" % what)

    # --- replay
    def run(self, on_call=None, start=0, stop=None, with_ret=True):
        """replay log[start:stop]; labels are resolved at the position of their use"""
        pa = self.pa
        cmps = {}
        pending = {}
        stop = len(pa.log) if stop is None else stop
        for pos in range(start, stop):
            e = pa.log[pos]
            if self.only is not None:
                self.muted = origin_of(e) not in self.only
            if e[0] == "cmp":
                a, b = C.expr_of(pa, e[3], 0, pos), C.expr_of(pa, e[4], 0, pos)
                cmps[e[1]] = (e[2], a, b)
                self.arith(a)
                self.arith(b)
            elif e[0] == "choice":
                if e[1] in cmps:
                    op, a, b = cmps[e[1]]
                    g = guard_constraint(self.L, op, a, b, e[2])
                    if g is not None:
                        self.facts.append(g)
                    self.facts.extend(eq_constraints(self.L, op, a, b, e[2]))
                m = re.match(r"variant\((ret:.*)\)$", str(e[1]))
                if m:
                    for lab in [l for l in pending if m.group(1) == l or m.group(1).startswith(l + ".")]:
                        for f, call, args in pending[lab]:
                            suffix = m.group(1)[len(lab):]
                            self.facts.extend(f(self, call, args, suffix, e[2]) or [])
            elif e[0] == "call":
                args = C.expr_of(pa, e[2], 0, pos)
                # the receiver is a tracked sub-slice object whose *contents* an earlier callee havocked: its extent is
                # still that of the object (E2 logs the object's address with the call), so measure it by the object
                if args and e[3] and len(e[3]) == 1 and isinstance(e[3][0], str) and e[3][0].startswith("obj:ret:") \
                        and isinstance(strip(args[0]), str) and strip(args[0]).startswith("top:havoc:"):
                    args = (C.expr_of(pa, "top:" + e[3][0][4:], 0, pos),) + tuple(args[1:])
                nm = C.short(e[1])
                if re.search(r"fmt::|Argument|hint::must_use|Error::new$|::fmt$", e[1]):
                    continue                    # formatting / error construction only carries values computed before
                for a in args:
                    self.arith(a)
                if re.search(r"(^|::)index(_mut)?$", e[1]) and len(args) == 2:
                    self.index_ok(nm, args[0], args[1])
                elif re.search(r"copy_from_slice$|clone_from_slice$", e[1]) and len(args) == 2:
                    self.prove_eq("%s: equal lengths" % nm, add(self.L.len_lin(args[0]), self.L.len_lin(args[1]), -1))
                elif re.search(r"slice::<impl \[.*\]>::split_at(_mut)?$", e[1]) and len(args) == 2:
                    self.prove("%s: mid <= len" % nm, add(self.L.len_lin(args[0]), self.L.lin(args[1]), -1))
                elif re.search(r"ByteOrder>::(write|read)_u(16|24|32|48|64|128)$", e[1]) and args:
                    k = int(re.search(r"_u(\d+)$", e[1]).group(1)) // 8
                    self.prove("%s: %d bytes available" % (nm, k), add(self.L.len_lin(args[0]), {1: -k}))
                for rx, f in self.contracts:
                    if rx.search(e[1]):
                        self.facts.extend(f(self, e, args, None, None) or [])
                        if not any(x[1] is e and x[0] is f for x in pending.get(e[4], [])):
                            pending[e[4]] = [x for x in pending.get(e[4], []) if x[1] is e] + [(f, e, args)]
                if on_call is not None:
                    on_call(self, e, args)
            elif e[0] == "assert":
                self.assertion(e, pos)
            elif e[0] == "array-len":
                ln = self.L.len_lin(C.expr_of(pa, "top:" + e[1], 0, pos + 1))
                self.facts.extend([add(ln, {1: -e[2]}), add({1: e[2]}, ln, -1)])
            elif e[0] in ("write", "write-elem") and len(e) > 3:
                self.arith(C.expr_of(pa, e[3], 0, pos))
        if with_ret:
            self.muted = self.only is not None
            self.arith(C.expr_of(pa, pa.ret))
        self.muted = False
        return self
