"""Path summaries of the StunClient entry points (shared by C05, C10, C11, C12, C13, C15, C17).

Each entry point is explored with E2 from a fully symbolic client object: credential mechanism
present or not, fingerprint flag, transport kind, table membership, decoder / fingerprint /
mechanism outcomes are all undetermined and forked on demand.  Callees that own a different concern
(the decoder, the mechanisms, the timer heap, the hash map, the event collector) are not stepped
into: their result is an unknown of the declared type and the call is logged with its receiver
(`client.transactions`, `client.timeouts`, ...), so a path summary is the ordered list of effects on
the client's state plus the events pushed.
"""
import re
from .absint import Interp, State, Const, Top, Sym, Adt, Ref, UNIT, TyRef, ty_s
from .models import compile_models
from .facts import AnchorMissing

CLIENT = "stun_agent::client::StunClient"

# workspace functions stepped into (everything else is an opaque, logged call)
STEP = {
    "on_buffer_recv": [r"StunClient::on_buffer_recv::\{closure", r"client::process_integrity_error$",
                       r"stun_rs::message::StunMessage::(class|transaction_id)$"],
    "on_timeout": [r"StunClient::on_timeout::\{closure", r"\{impl#\d+\}::on_timeout::\{closure"],
    "send_request": [r"StunClient::send_request::\{closure", r"StunClient::prepare_request$",
                     r"client::prepare_stun_message$", r"StunClient::set_timeout$", r"StunClient::set_timeout::\{closure",
                     r"stun_rs::message::StunMessage::(class|transaction_id)$"],
    "send_indication": [r"StunClient::send_indication::\{closure", r"StunClient::prepare_indication$",
                        r"client::prepare_stun_message$", r"stun_rs::message::StunMessage::(class|transaction_id)$"],
    "transaction_finished": [r"StunClient::transaction_finished::\{closure"],
    "set_timeout": [r"StunClient::set_timeout::\{closure"],
}


class Path:
    __slots__ = ("choices", "log", "ret", "calls", "writes", "flags", "_lidx")

    def __init__(self, interp, o):
        self.choices = o.st.choices
        self.log = o.st.log
        self.ret = interp.abstract(o.ret, o.st)
        self.flags = o.st.flags
        self.calls = [e for e in o.st.log if e[0] == "call"]
        self.writes = [e for e in o.st.log if e[0] in ("write", "write-elem", "write-unknown-pointer")]
        self._lidx = None

    # --- helpers
    def label_index(self):
        """result label -> ascending log positions of the calls that produced it"""
        if self._lidx is None:
            d = {}
            for i, e in enumerate(self.log):
                if e[0] == "call" and len(e) > 4:
                    d.setdefault(e[4], []).append(i)
            self._lidx = d
        return self._lidx

    def args(self, e):
        """argument trees of a logged call, labels resolved at the call's own position"""
        try:
            at = self.log.index(e)
        except ValueError:
            at = None
        return expr_of(self, e[2], 0, at)

    def choice(self, regex):
        r = re.compile(regex)
        for n, v in self.choices:
            if r.search(str(n)):
                return v
        return None

    def guards(self):
        """arithmetic comparisons decided on this path: [(op, lhs tree, rhs tree, value)] in path order"""
        ops = {}
        out = []
        for e in self.log:
            if e[0] == "cmp":
                ops[e[1]] = e
            elif e[0] == "choice" and str(e[1]).startswith("cmp:") and e[1] in ops:
                c = ops[e[1]]
                out.append((c[2], expr_of(self, c[3]), expr_of(self, c[4]), e[2]))
        return out

    def switches(self):
        """integer switches decided on this path: [(discriminant tree, value or 'otherwise')] in path order"""
        sw = {}
        out = []
        for e in self.log:
            if e[0] == "switch":
                sw[e[1]] = e[2]
            elif e[0] == "choice" and str(e[1]).startswith("switch@") and e[1] in sw:
                out.append((expr_of(self, sw[e[1]]), e[2]))
        return out

    def all_choices(self, regex):
        r = re.compile(regex)
        return [(n, v) for n, v in self.choices if r.search(str(n))]

    def call_names(self):
        return [short(e[1]) for e in self.calls]

    def calls_to(self, regex, receiver=None):
        r = re.compile(regex)
        out = []
        for e in self.calls:
            if r.search(e[1]) and (receiver is None or e[3] == tuple(receiver)):
                out.append(e)
        return out

    def index_of(self, regex, receiver=None, start=0):
        r = re.compile(regex)
        for i, e in enumerate(self.log):
            if i < start:
                continue
            if e[0] == "call" and r.search(e[1]) and (receiver is None or e[3] == tuple(receiver)):
                return i
        return -1

    def pushes(self):
        """(log index, event variant name, abstract event) of every TransactionEvents::push"""
        out = []
        for i, e in enumerate(self.log):
            if e[0] == "call" and e[1].endswith("TransactionEvents::<'_>::push"):
                ev = e[2][1] if len(e[2]) > 1 else None
                name = ev[0] if isinstance(ev, tuple) else ev
                out.append((i, str(name), ev))
        return out

    @property
    def ret_kind(self):
        r = self.ret
        name = r[0] if isinstance(r, tuple) else r
        if isinstance(name, str):
            if name.startswith("Result::Ok"):
                return "Ok"
            if name.startswith("Result::Err"):
                return "Err"
        return str(name)

    def ret_err(self):
        """abstract error value when the path returns Err"""
        if self.ret_kind == "Err" and isinstance(self.ret, tuple) and len(self.ret) > 1:
            e = self.ret[1]
            return e[0] if isinstance(e, tuple) else e
        return None

    def describe(self):
        return {"choices": [[str(n), str(v)] for n, v in self.choices],
                "effects": [repr(e)[:200] for e in self.log if e[0] in ("call", "write", "write-elem")],
                "ret": repr(self.ret)[:200]}


_INT_IMPL = re.compile(r"::<impl ([ui](?:8|16|32|64|128|size))>::(\w+)$")


def short(path):
    from .absint import strip_generics
    m = _INT_IMPL.search(path)
    if m and re.search(r"_bytes$", m.group(2)):
        return "%s::%s" % (m.group(1), m.group(2))        # u16::to_be_bytes: the width is the array length
    p = strip_generics(path)
    if p.startswith("<") and ">::" in p:
        # <X as Trait>::method -> method name only, with the self type's last segment
        q, m = p[1:].split(">::", 1)
        selfty = q.split(" as ")[0].split("::")[-1]
        return "%s::%s" % (selfty, m) if selfty else m
    return "::".join(x for x in p.split("::")[-2:] if x)


_cache = {}


def explore(prog, fn_name, extra_models=(), extra_step=()):
    """-> (paths, info) for StunClient::<fn_name> explored from a symbolic client."""
    return explore_fn(prog, "%s::%s" % (CLIENT, fn_name), "client", STEP.get(fn_name, []) + list(extra_step),
                      extra_models)


def explore_fn(prog, fn_path, self_label="self", step_only=(), extra_models=(), self_value=None, memo_shared=False,
               concrete_iters=False, log_asserts=False, max_paths=None, opaque=(), adaptor_loops=False, loop_bound=None):
    """-> (paths, info): explore any function; a `self` reference argument points to a symbolic object
    of its type named `self_label`; other reference arguments point to symbolic cells named after the
    parameter; value arguments are symbolic values named after the parameter."""
    ck = (id(prog), fn_path, self_label, tuple(step_only), memo_shared, concrete_iters, log_asserts, tuple(opaque), adaptor_loops, loop_bound)
    if ck in _cache and not extra_models and self_value is None:
        return _cache[ck]
    body = prog.body(fn_path)
    it = Interp(prog, compile_models(list(extra_models)), step_only=list(step_only))
    it.memo_shared = memo_shared
    it.opaque = list(it.opaque) + [re.compile(p_) for p_ in opaque]      # callees kept opaque even if they are new helpers
    it.concrete_iters = concrete_iters
    it.adaptor_loops = adaptor_loops      # run find / fold / .. over an iterator whose next() is opaque as a fixpoint loop
    it.log_asserts = log_asserts
    if max_paths is not None:
        it.max_paths = max_paths
    if concrete_iters:
        it.loop_bound = max(it.loop_bound, 80)
    if loop_bound is not None:
        it.loop_bound = max(it.loop_bound, loop_bound)
    st = State()
    args = []
    first = 1
    if body.arg_count >= 1 and body.debug_name(1) == "self":
        ty = TyRef(body.types, body.locals[1]["ty"])
        if ty.rec.get("k") == "ref":
            obj = self_value
            if obj is None and it.variants_of(ty.pointee()) is None:
                obj = it.materialize(ty.pointee(), self_label)
            if obj is None:
                obj = it.symbolic(ty.pointee(), self_label)
            st.heap[self_label] = obj
            args.append(Ref(self_label, (), ty.rec.get("mut", False)))
        else:
            obj = self_value
            if obj is None and it.variants_of(ty) is None:
                obj = it.materialize(ty, self_label)
            if obj is None:
                obj = it.symbolic(ty, self_label)
            args.append(obj)
        first = 2
    for l in range(first, body.arg_count + 1):
        ty = TyRef(body.types, body.locals[l]["ty"])
        name = body.debug_name(l) or ("arg%d" % l)
        if ty.rec.get("k") == "ref":
            st.heap[name] = it.symbolic(ty.pointee(), name)
            args.append(Ref(name, (), ty.rec.get("mut", False)))
        else:
            args.append(it.symbolic(ty, name))
    outs = it.run(body, args, st)
    paths = [Path(it, o) for o in outs]
    info = {"body": body, "where": body.where(), "unmodelled": dict(it.unmodelled), "stepped": sorted(it.stepped),
            "bounded": it.bounded, "n_paths": len(paths)}
    info["interp"] = it
    if not extra_models and self_value is None:
        _cache[ck] = (paths, info)
    return paths, info


def expr_of(pa, v, depth=0, at=None):
    """expression tree of an abstract value: results of logged calls are expanded into
    (callee short name, arg trees...) using the effect log of the path.  A label is produced again on every loop
    iteration: it is resolved to the latest call carrying it before log position `at` (default: the end of the path,
    which is right for the returned value; pass the position of the use for values used inside a loop)."""
    if depth > 24:
        return _strip_refs(v)
    if isinstance(v, tuple):
        if v and v[0] == "&" and len(v) == 2:
            return expr_of(pa, v[1], depth, at)
        return tuple(expr_of(pa, x, depth + 1, at) for x in v)
    if isinstance(v, str) and (v.startswith("top:ret:") or v.startswith("sym:ret:")):
        lab = v[4:]
        idx = pa.label_index()
        best = None
        for key in _label_prefixes(lab):
            for i in idx.get(key, ()):
                if at is not None and i >= at:
                    break
                if best is None or i > best[0]:
                    best = (i, key)
        if best is not None:
            i, key = best
            e = pa.log[i]
            suffix = lab[len(key):]
            argv = [expr_of(pa, a, depth + 1, i) for a in e[2]]
            # the receiver is a tracked sub-slice object (result of an earlier index / split call) whose *contents* a
            # callee havocked in between: it is still that object - name it by the object, not by the havoc
            if argv and len(e) > 3 and e[3] and len(e[3]) == 1 and isinstance(e[3][0], str) and e[3][0].startswith("obj:ret:") \
                    and isinstance(argv[0], str) and argv[0].startswith("top:havoc:") and depth < 20:
                argv[0] = expr_of(pa, "top:" + e[3][0][4:], depth + 1, i)
            node = (short(e[1]),) + tuple(argv)
            return node if not suffix else (node, suffix)
    return v


def _strip_refs(v):
    if isinstance(v, tuple):
        if v and v[0] == "&" and len(v) == 2:
            return _strip_refs(v[1])
        return tuple(_strip_refs(x) for x in v)
    return v


def _label_prefixes(lab):
    """the label itself and every prefix that ends before a '.' (projections of a call result)"""
    out = [lab]
    pos = len(lab)
    while True:
        pos = max(lab.rfind(".", 0, pos), lab.rfind("[", 0, pos))     # '.field' projections and '[i]' element reads
        if pos <= 0:
            break
        out.append(lab[:pos])
    return out
