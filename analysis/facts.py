"""Facts loader: the resolved program (MIR as JSON written by /verif/driver) for one configuration.

A configuration is a directory with one <crate>.json per workspace crate.  Bodies are keyed by
crate name + crate-relative def path ("stun_rs::context::{impl#8}::decode"), which is the same
string whether the item is seen from its own crate or from a dependent one, so the analysis of
stun-agent steps into stun-rs bodies.
"""
import json, os, re
from collections import defaultdict


class AnchorMissing(Exception):
    """A function / field / variant named by a rule does not exist in the analysed program."""


class Body:
    __slots__ = ("raw", "crate", "key", "path", "kind", "blocks", "locals", "arg_count", "types",
                 "span", "vis", "name", "prog", "_calls", "_cfg", "_live")

    def __init__(self, raw, crate, types, prog):
        self.raw = raw
        self.crate = crate
        self.key = raw["key"]
        self.path = raw["path"]
        self.kind = raw["kind"]
        self.blocks = raw["blocks"]
        self.locals = raw["locals"]
        self.arg_count = raw["arg_count"]
        self.types = types
        self.span = raw["span"]
        self.vis = raw.get("vis", "")
        self.name = raw.get("name", "")
        self.prog = prog
        self._calls = None
        self._cfg = None
        self._live = None

    # ---- types
    def ty(self, ix):
        return self.types[ix]

    def local_ty(self, l):
        return self.types[self.locals[l]["ty"]]

    def tystr(self, ix):
        return self.types[ix]["s"]

    @property
    def is_public(self):
        return self.vis.startswith("Public")

    @property
    def file(self):
        return self.span["file"]

    @property
    def line(self):
        return self.span["line"]

    def where(self, line=None):
        return "%s:%s" % (self.span["file"], line if line is not None else self.span["line"])

    def debug_name(self, local):
        for d in self.raw.get("debug", []):
            if d["place"]["l"] == local and not d["place"]["p"]:
                return d["name"]
        return None

    # ---- calls
    def calls(self):
        """list of CallSite for every Call terminator (non-cleanup blocks included)."""
        if self._calls is None:
            out = []
            for bi, b in enumerate(self.blocks):
                t = b["term"]
                if t["k"] in ("call", "tailcall"):
                    out.append(CallSite(self, bi, t))
            self._calls = out
        return self._calls

    def __repr__(self):
        return "<Body %s>" % self.path


class CallSite:
    __slots__ = ("body", "block", "term", "fn", "indirect")

    def __init__(self, body, block, term):
        self.body = body
        self.block = block
        self.term = term
        f = term["func"]
        if f["k"] == "const" and "fn" in f:
            self.fn = f["fn"]
            self.indirect = False
        else:
            self.fn = None
            self.indirect = True

    @property
    def line(self):
        return self.term.get("fn_line", self.term.get("line"))

    @property
    def from_expansion(self):
        return bool(self.term.get("fn_exp"))

    @property
    def resolved(self):
        return self.fn is not None and self.fn.get("resolved", False)

    @property
    def callee_key(self):
        """key of the resolved callee (or of the trait method when unresolved)."""
        if self.fn is None:
            return None
        if self.fn.get("resolved"):
            return self.fn["rkey"]
        return self.fn["key"]

    @property
    def callee_path(self):
        if self.fn is None:
            return "<indirect>"
        if self.fn.get("resolved"):
            return self.fn["rpath"]
        return self.fn["full"]

    @property
    def decl_path(self):
        """path of the declared callee (trait method for trait calls), without generic args."""
        return self.fn["path"] if self.fn else "<indirect>"

    @property
    def full(self):
        if self.fn is None:
            return "<indirect>"
        return self.fn.get("rfull") or self.fn["full"]

    @property
    def args(self):
        return self.term["args"]

    @property
    def dest(self):
        return self.term.get("dest")

    @property
    def target(self):
        return self.term.get("target")

    def __repr__(self):
        return "<Call %s @%s:%s>" % (self.callee_path, self.body.file, self.line)


class Program:
    def __init__(self, directory, label=None):
        self.dir = directory
        self.label = label or os.path.basename(directory)
        self.bodies = {}
        self.by_path = defaultdict(list)
        self.crates = {}
        self.adts = {}
        self.adts_by_name = {}
        self.impls = []
        self.traits = {}
        self.trait_impl_items = defaultdict(list)   # trait item key -> [impl item key]
        self.closures_of = defaultdict(list)        # parent fn key -> [closure body]
        for fn in sorted(os.listdir(directory)):
            if not fn.endswith(".json"):
                continue
            with open(os.path.join(directory, fn)) as f:
                d = json.load(f)
            crate = d["crate"]
            self.crates[crate] = d
            types = d["types"]
            for raw in d["bodies"]:
                b = Body(raw, crate, types, self)
                self.bodies[b.key] = b
                self.by_path[b.path].append(b)
                if b.kind == "Closure":
                    self.closures_of[raw["closure_of"]].append(b)
            for a in d["adts"]:
                if a is None:
                    continue
                if a.get("local") or a["key"] not in self.adts:
                    self.adts[a["key"]] = dict(a, crate=crate, types=types)
                    self.adts_by_name[a["name"]] = self.adts[a["key"]]
            for im in d["impls"]:
                im = dict(im, crate=crate, types=types)
                self.impls.append(im)
                for it in im["items"]:
                    if "trait_item" in it:
                        self.trait_impl_items[it["trait_item"]].append(it["key"])
            for tr in d["traits"]:
                self.traits[tr["key"]] = dict(tr, crate=crate)

    # ---- lookup
    def body(self, path, required=True):
        """Find exactly one body by pretty path (e.g. 'stun_rs::context::ignore_attribute' or
        '<stun_rs::X as stun_rs::T>::m') or by key."""
        if path in self.bodies:
            return self.bodies[path]
        l = self.by_path.get(path, [])
        if len(l) == 1:
            return l[0]
        if not l:
            if required:
                raise AnchorMissing("function not found: %s" % path)
            return None
        raise AnchorMissing("ambiguous function: %s (%d bodies)" % (path, len(l)))

    def find_bodies(self, regex):
        r = re.compile(regex)
        return [b for b in self.bodies.values() if r.search(b.path)]

    def adt(self, name):
        a = self.adts.get(name) or self.adts_by_name.get(name)
        if a is not None and not a.get("local") and a["key"] in self.adts:
            a = self.adts[a["key"]]
        if a is None:
            last = name.split("::")[-1]
            c = [x for x in self.adts.values() if x["key"].split("::")[-1] == last and x["key"].split("::")[0] == name.split("::")[0]]
            if len(c) == 1:
                return c[0]
            raise AnchorMissing("type not found: %s" % name)
        return a

    def impl_candidates(self, trait_item_key):
        """workspace bodies implementing a trait method (class-hierarchy fan-out); includes the
        provided default body when the trait has one."""
        out = [self.bodies[k] for k in self.trait_impl_items.get(trait_item_key, []) if k in self.bodies]
        if trait_item_key in self.bodies:
            out.append(self.bodies[trait_item_key])
        return out

    def callees(self, cs):
        """workspace bodies a call site may enter (resolved: one; unresolved trait call: fan-out)."""
        if cs.fn is None:
            return []
        if cs.resolved:
            b = self.bodies.get(cs.fn["rkey"])
            return [b] if b is not None else []
        return self.impl_candidates(cs.fn["key"])

    def stats(self):
        n_calls = n_res = 0
        for b in self.bodies.values():
            for c in b.calls():
                n_calls += 1
                if c.resolved:
                    n_res += 1
        return {"bodies": len(self.bodies), "call_sites": n_calls, "resolved": n_res,
                "crates": {c: len(d["bodies"]) for c, d in self.crates.items()},
                "features": {c: d["features"] for c, d in self.crates.items()}}


# ---------------------------------------------------------------------------------------------
# helpers over places / operands

def place_str(body, place):
    s = "_%d" % place["l"]
    n = body.debug_name(place["l"])
    if n:
        s = n
    for e in place["p"]:
        k = e["k"]
        if k == "deref":
            s = "(*%s)" % s
        elif k == "field":
            s = "%s.%s" % (s, e.get("name", e["i"]))
        elif k == "downcast":
            s = "(%s as %s)" % (s, e.get("name") or e["variant"])
        elif k == "index":
            s = "%s[_%d]" % (s, e["local"])
        elif k == "constindex":
            s = "%s[%s%d]" % (s, "-" if e["from_end"] else "", e["offset"])
        elif k == "subslice":
            s = "%s[%d..%s%d]" % (s, e["from"], "-" if e["from_end"] else "", e["to"])
        else:
            s = "%s.<%s>" % (s, k)
    return s


def field_path(place):
    """names of the field projections of a place (derefs/downcasts skipped)."""
    return [e.get("name", str(e["i"])) for e in place["p"] if e["k"] == "field"]


def operand_place(op):
    if op["k"] in ("copy", "move"):
        return op["place"]
    return None


def operand_local(op):
    """local of a bare-local operand, else None"""
    p = operand_place(op)
    if p is not None and not p["p"]:
        return p["l"]
    return None


def const_int(op):
    """integer value of a constant operand, else None"""
    if op["k"] == "const" and "bits" in op:
        if "sval" in op:
            return int(op["sval"])
        return int(op["bits"])
    return None
