"""A tiny relational numeric domain for the rules: conjunctions of linear constraints  sum(a_i * x_i) + c >= 0  over
non-negative integer variables, decided by Fourier-Motzkin elimination over the rationals.

`entails(facts, goal)` answers "do the facts imply goal >= 0 for all integer valuations?" by refuting
facts /\\ (-goal - 1 >= 0).  Rational infeasibility implies integer infeasibility, so a `True` answer is sound; a
`False` answer means "not proved".  Used for the reassembler's class invariant (C16 R16.4), where the constraints
have at most six variables.
"""
from fractions import Fraction


def norm(c):
    return {k: Fraction(v) for k, v in c.items() if v != 0}


def add(a, b, ka=1, kb=1):
    out = {}
    for k, v in a.items():
        out[k] = out.get(k, 0) + ka * v
    for k, v in b.items():
        out[k] = out.get(k, 0) + kb * v
    return {k: v for k, v in out.items() if v != 0}


def infeasible(cons, limit=4000):
    """cons: list of dicts {var: coef, 1: const} meaning sum >= 0.  True iff proved infeasible over the rationals."""
    cons = [norm(c) for c in cons]
    vars_ = sorted({k for c in cons for k in c if k != 1}, key=str)
    for v in vars_:
        pos, neg, rest = [], [], []
        for c in cons:
            a = c.get(v, 0)
            (pos if a > 0 else neg if a < 0 else rest).append(c)
        new = rest
        for p in pos:
            for n in neg:
                # p: a*v + P >= 0 (a>0), n: -b*v + N >= 0 (b>0)  =>  b*P + a*N >= 0
                comb = add(p, n, -n[v], p[v])
                comb.pop(v, None)
                new.append(comb)
        # drop trivially true constraints, detect contradiction early
        cons = []
        seen = set()
        for c in new:
            if not any(k != 1 for k in c):
                if c.get(1, 0) < 0:
                    return True
                continue
            key = tuple(sorted((str(k), val) for k, val in c.items()))
            if key not in seen:
                seen.add(key)
                cons.append(c)
        if len(cons) > limit:
            return False
    return any(c.get(1, 0) < 0 for c in cons if not any(k != 1 for k in c))


def entails(facts, goal):
    """facts |= goal >= 0 (integers)"""
    neg = {k: -v for k, v in goal.items()}
    neg[1] = neg.get(1, 0) - 1
    return infeasible(list(facts) + [neg])


def entails_eq(facts, a):
    """facts |= a == 0"""
    return entails(facts, a) and entails(facts, {k: -v for k, v in a.items()})
