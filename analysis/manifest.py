"""MANIFEST.json generator (the registry of claimed properties lives here)."""
import json, os

VERIF = os.path.dirname(os.path.dirname(os.path.abspath(__file__)))

BASE_NOTE = ("Trusted base: rustc's MIR construction and callee resolution (nightly, real build flags via "
             "RUSTC_WORKSPACE_WRAPPER); the reviewed callee models of analysis/models.py; std / third-party crate "
             "internals are not analysed. Fail closed on missing anchors, missing fact files and instance counts below "
             "the recorded floors.")

CLAIMS = {
    "C01": dict(
        technique="exhaustiveness + sibling-agreement queries over resolved MIR (registry vs enum per feature config, type codes, size limits, normalisers)",
        text="Structural necessary conditions of the round trip are decided statically on every feature configuration: "
             "every attribute kind has a registered decoder, type codes are pairwise distinct, constructor/encoder/decoder "
             "size limits are nested, and constructed values are fixpoints of the normalisation the decoder applies. "
             "Equality of arbitrary values after a round trip is NOT decided.",
        design="DESIGN.md section 5 C01"),
    "C02": dict(
        technique="bit-provenance abstract interpretation of MessageType::as_u16 / From<u16>; constant and layout queries over MIR (IANA table, big-endian only)",
        text="Bit layouts are decided for all inputs at once by a bit-provenance domain (14-bit type interleaving, both "
             "directions and their composition), type codes against the IANA table, header field ranges writer = reader, "
             "fixed field layouts and RFC constants, header validation (top two bits, cookie), the shared address codec byte by byte (reserved byte zero and never read), RFFU bytes never reaching decoded values, 16-bit list granularity, nested padding placement, must-write coverage of every value encoder. Byte equality with an independent codec for arbitrary values is NOT decided.",
        design="DESIGN.md section 5 C02"),
    "C03": dict(
        technique="panic-site inventory over the call graph reachable from the untrusted-input entry points, discharged by a dominating-bounds-check dataflow (interval / length lower bounds) or a reviewed per-function budget; budget premises proved inductively with a Fourier-Motzkin linear domain over abstract-interpretation paths",
        text="No reachable panic: every MIR assert and every call to a may-panic std function reachable from the decoder, "
             "the client's on_buffer_recv and the reassembler is discharged by a dominating bounds check or counted "
             "against a reviewed budget keyed by (function, site kind); size clause and loop progress are data-flow facts. "
             "The premises of the budget entries in use are decided in the same run: the wire-attribute iterator and the two "
             "decode loops are proved safe by induction (callee contracts, invariant pos <= len, linear obligations by "
             "Fourier-Motzkin), the reassembler's sites follow from its class invariant (C16 R16.4), removable characters are "
             "ASCII, the ErrorCode range invariant holds. Rejected buffers leave client and mechanism state unchanged "
             "(usability). NOT decided: 'the result depends only on those first bytes'.",
        design="DESIGN.md section 5 C03"),
    "C04": dict(
        technique="path-sensitive abstract interpretation of validate_attribute / verify / validate / decode loop; sibling agreement of resolved HMAC callee",
        text="Acceptance gating and fail-closed behaviour are decided on every path; the encoder finalises the length before "
             "the MAC; writer and validator share one MAC function. MAC values / cryptographic strength are NOT decided.",
        design="DESIGN.md section 5 C04"),
    "C05": dict(
        technique="path-sensitive abstract interpretation (MIR) of the client entry points from a fully symbolic client; must-pass-through and pairing rules over effect logs; who-may-write queries",
        text="Structural invariant decided on all paths: responses are processed only behind the table lookup; a final event "
             "implies removal from table and timer heap in the same path/iteration; packets and timers only for live "
             "transactions; only named functions mutate table and heap. This implies at-most-one final outcome and silence "
             "afterwards, given the std HashMap/BinaryHeap contracts.",
        design="DESIGN.md section 5 C05"),
    "C06": dict(
        technique="expression-tree extraction (abstract interpretation of MIR) of RtoCalculator / RtoManager and of the client's timer wiring, compared structurally with the RFC 8489 7.2.1 recurrence",
        text="Partial: the recurrence that generates the schedule (doubling multiplier, Rc transmissions, final Rm x RTO, "
             "defaults 500 ms / 7 / 16), the manager's absolute-deadline bookkeeping identities per call (early call re-arms "
             "the remainder without consuming a slot; late call consumes slots until the first deadline beyond now) and the "
             "client wiring are decided on all paths. The closed-form instants over sequences of timer calls and the failure "
             "instant are NOT decided (arithmetic over runtime Instants, induction over calls).",
        design="DESIGN.md section 5 C06"),
    "C07": dict(
        technique="decision-table extraction by abstract interpretation with loop fixpoint over attribute kinds, compared row by row with RFC 8489 9.1.4",
        text="The full decision table of short-term receive processing (class x configured/learned algorithm x admitted "
             "integrity attributes x transport x MAC verifies) and of request decoration is extracted from the MIR and "
             "compared with the RFC; client glue verdict->event and the final time-out reason are decided on all paths. "
             "That MAC bytes verify under the password is NOT decided.",
        design="DESIGN.md section 5 C07"),
    "C08": dict(
        technique="compositional abstract interpretation of every long-term mechanism function (callees opaque, contracts checked separately); decision tables; taint query",
        text="Per-state decoration tables, dispatch, 401/438/other handling over every admitted attribute sequence, "
             "write-after-authenticate, key/integrity/userhash derivation and password taint are decided on all paths. "
             "Acceptance of the concrete bytes by a server and MAC values are NOT decided.",
        design="DESIGN.md section 5 C08"),
    "C09": dict(
        technique="abstract interpretation of ignore_attribute and of the agent iterator into finite automata; equivalence with the RFC automaton by exhaustive product exploration; path-sensitive gating of the decode loop",
        text="The admission automaton extracted from the code is equivalent to the RFC 8489 automaton for wire sequences of "
             "every length (finite product explored exhaustively), for both the decoder filter and the agent iterator; "
             "validation and appending are gated by the filter decision on every path of the decode loop.",
        design="DESIGN.md section 5 C09"),
    "C10": dict(
        technique="path-sensitive abstract interpretation of on_buffer_recv / validate_fingerprint; expression-tree extraction of the CRC/XOR formula on both sides",
        text="Client-side enforcement order and fail-closed validation are decided on all paths; FINGERPRINT is last on send; "
             "writer and reader formulas (CRC-32/ISO-HDLC, XOR 0x5354554e, big-endian) are extracted as expression trees "
             "and agree. The CRC value and its error-detection property are NOT decided.",
        design="DESIGN.md section 5 C10"),
    "C11": dict(
        technique="path-sensitive abstract interpretation of send_request / on_timeout / StunMessageTimeout; expression trees of the notification payload; order direction of the heap comparator",
        text="The notification is the last action, is emitted iff next_timeout is Some and carries that pair; next_timeout "
             "returns the peeked minimum with expires-instant or zero; the comparator orders by instant+timeout under "
             "Reverse; insert/add pairing and check/pop pairing hold on all paths. Numeric time remaining and the liveness "
             "consequence as a whole are NOT decided.",
        design="DESIGN.md section 5 C11"),
    "C12": dict(
        technique="path-sensitive abstract interpretation of send_request and of every final-outcome path; effect-log rules; who-may-write queries",
        text="Refusal precedes every effect and has an empty effect log; exactly one insert on each Ok path and none on Err "
             "paths; every final outcome removes exactly one entry; indications never touch the table; the limit is "
             "written only by the constructor.",
        design="DESIGN.md section 5 C12"),
    "C13": dict(
        technique="abstract interpretation of StunAttributes::add / From<StunAttributes> for Vec / the send paths; strip-before-add tables; ownership queries on StunPacket",
        text="Canonical tail order, replace-not-duplicate, strip-before-add per mechanism, mechanism-then-fingerprint order, "
             "fresh transaction id and clone-of-stored-packet retransmission are decided on all paths. That the bytes "
             "decode with an independent parser and the MACs verify is NOT decided.",
        design="DESIGN.md section 5 C13"),
    "C14": dict(
        technique="panic-site inventory from MessageEncoder::encode over all attribute encoders with bounds-check dataflow; narrow-integer arithmetic rule on both overflow-check MIR shapes; must-write interval coverage of every value encoder",
        text="The encoder is panic-free for any buffer (every index/slice site dominated by a covering bounds check or in the "
             "reviewed budget); no unchecked u8/u16 arithmetic on lengths; fixed-size encoders check = write = return; "
             "on every Ok(n) path of every attribute-value encoder the written ranges cover [0, n) (must-write coverage, linear "
             "chaining) and no whole-slice write of unknown extent exists, so the value bytes do not depend on previous buffer "
             "contents and nothing past the value is written by the value encoders; the encode loop is safe by induction (R14.6) and "
             "the header length field is only ever written with the value u16::try_from accepted, which includes the padding "
             "(R14.7: oversized messages are rejected, not wrapped). Byte correctness of fitting messages is NOT decided.",
        design="DESIGN.md section 5 C14"),
    "C15": dict(
        technique="expression-tree extraction of RttCalcuator::update/reset by abstract interpretation, compared structurally with RFC 6298; path rules for Karn's rule and the 600 s guard",
        text="The RFC 6298 recurrence (constants, operand structure, RTTVAR from the old SRTT, first-sample branch), Karn's "
             "rule wiring and the staleness guard are decided on all paths. Numerical agreement with a double-precision "
             "reference is NOT decided.",
        design="DESIGN.md section 5 C15"),
    "C16": dict(
        technique="abstract interpretation of StunPacketDecoder::decode/new; per-path conservation laws and branch conditions as linear forms; class invariant proved by induction over calls with a Fourier-Motzkin relational domain",
        text="Partial: (i) on each of the seven paths of one decode(data) call, as linear identities over (current_size, "
             "expected_size, data.len(), header length): every copy has equal source and destination length, starts at the "
             "buffer's fill level and at the consumed offset of data; consumed = bytes copied; current_size' = current_size + "
             "copied; packet size = expected size; missing = expected - current_size'; (ii) the comparisons selecting each path "
             "are exactly the reassembler's decision conditions; (iii) the class invariant (20 <= buffer.len(); current_size < 20 "
             "or current_size < expected <= buffer.len()) is established by new(), preserved by every path that returns a "
             "decoder, and implies that every slice range, copy and usize operation of decode is in range - the induction "
             "over calls, for every chunking; (iv) a header is accepted only with the top two bits zero and the magic cookie. "
             "NOT decided: byte equality of the copies themselves (std copy_from_slice) and the composition of (i)-(iii) into "
             "the statement about whole streams, which is a paper argument over these machine-checked steps.",
        design="DESIGN.md section 5 C16"),
    "C17": dict(
        technique="interprocedural effect analysis by path-sensitive abstract interpretation: writes on every rejecting path",
        text="On every path of on_buffer_recv that returns Err, and on every path of the mechanisms' receive functions that "
             "returns Discarded, the set of writes to client/mechanism state is within {violated-transaction marker}.",
        design="DESIGN.md section 5 C17"),
    "C18": dict(
        technique="information-flow / who-may-read queries over MIR and path-sensitive exploration of the decode loop per option",
        text="Each decoder option flows only into its filter/decoration decision; validation has no effect other than "
             "failing; a decoder without context behaves like one with the default context (path tables equal).",
        design="DESIGN.md section 5 C18"),
    "C19": dict(
        technique="panic-site inventory over every public constructor/accessor/conversion/mutator of the value types; shared-pointer discipline query (Arc::make_mut only); compile-fail witnesses",
        text="Every may-panic site reachable from the public API of the value types is discharged or in the reviewed budget "
             "(documented expect_* excluded); no mutation through Arc except copy-on-write.",
        design="DESIGN.md section 5 C19"),
}

NOT_APPLICABLE = []     # every property has at least a structural clause decided (C06 and C16 are partial claims)


def available():
    rules = os.path.join(VERIF, "analysis", "rules")
    return sorted(c for c in CLAIMS if os.path.exists(os.path.join(rules, c.lower() + ".py")))


def build():
    checks = []
    for pid in available():
        c = CLAIMS[pid]
        checks.append({
            "property_id": pid,
            "quick_cmd": "./bin/verif check %s --tier quick" % pid,
            "thorough_cmd": "./bin/verif check %s --tier thorough" % pid,
            "evidence_file": "/verif/evidence/%s.json" % pid,
            "replay_cmd_template": "./bin/verif explain {path}",
            "engine": "rustun-static",
            "level_claimed": {"category": "other", "text": c["text"], "design_ref": c["design"]},
            "level_note": BASE_NOTE,
            "technique": c["technique"],
        })
    na = list(NOT_APPLICABLE)
    for pid in sorted(CLAIMS):
        if pid not in available():
            na.append({"property_id": pid, "reason": "check not built yet (planned: %s)" % CLAIMS[pid]["technique"]})
    return {
        "version": 1,
        "setup_cmd": "./bin/verif setup",
        "hooks": {
            "guard": "rustun_verif",
            "enable": "none needed: the analysis reads the unmodified crates' MIR (cargo +nightly check with RUSTC_WORKSPACE_WRAPPER=/verif/.cache/driver-target/release/rustun-facts)",
            "baseline_off_cmd": "cd /repo && cargo test --workspace --no-fail-fast --offline",
            "source_commits": [],
            "add_only": True,
        },
        "engines": [{
            "name": "rustun-static",
            "path": "/verif/bin/verif",
            "serves_properties": available(),
            "kind_free_text": "rustc_private MIR fact extractor (driver/) + Python abstract interpreter and rule engine (analysis/): static analysis only, no rustun code is executed",
        }],
        "checks": checks,
        "not_applicable": na,
        "notes": "Static analysis family. Six genuine defects were repaired by fix: commits in /repo (see known_findings.txt, DESIGN.md section 4).",
    }


def write():
    m = build()
    with open(os.path.join(VERIF, "MANIFEST.json"), "w") as f:
        json.dump(m, f, indent=1)
    print("MANIFEST.json: %d checks, %d not applicable" % (len(m["checks"]), len(m["not_applicable"])))
    return 0
