"""Rule-independent building blocks on top of E2: abstract sequences, symbolic objects, and the
path exploration of MessageDecoder::decode shared by C04 / C09 / C18."""
import re
from .absint import Interp, State, Const, Top, Sym, Adt, Ref, UNIT, Infeasible
from .models import compile_models, some, NONE, ok, err, deref, opt_cases, bool_cases


def innermost(interp, v, st):
    """follow references to the innermost non-reference value: -> (addr, path, value)"""
    addr = path = None
    guard = 0
    while isinstance(v, Ref) and guard < 8:
        addr, path = v.addr, v.path
        base = st.heap.get(addr)
        if base is None:
            return addr, path, Top("dangling")
        v = interp.concretize(interp.get_at(base, path), st)
        guard += 1
    return addr, path, v


# ------------------------------------------------------------------------------------------------
# abstract sequences

def seq_iter_models(elems, label="seq"):
    """a slice iterator over the fixed element list `elems` (values); the iterator object is
    Adt('absiter', [Const(pos)])."""

    def m_next(interp, fn, args, st, site, frame):
        addr, path, it = innermost(interp, args[0], st)
        if not (isinstance(it, Adt) and it.name == "absiter"):
            return None
        pos = it.fields[0].v
        st2 = st.fork()
        if pos < len(elems):
            cell = "%s[%d]" % (label, pos)
            st2.heap[cell] = elems[pos]
            st2.heap[addr] = interp.set_at(st2.heap[addr], path, Adt("absiter", 0, [Const(pos + 1)]))
            return [(some(Ref(cell, (), False)), st2)]
        return [(NONE, st2)]

    def m_into_iter(interp, fn, args, st, site, frame):
        return [(args[0], st)]

    return [
        (r"std::slice::Iter<'_, .*> as std::iter::Iterator>::next$", m_next),
        (r"std::slice::Iter<'_, .*> as std::iter::IntoIterator>::into_iter$", m_into_iter),
    ]


def sym_iter_models(kinds, label="wire", iter_name="symiter"):
    """a slice iterator over an unknown sequence: every `next` returns None or a fresh element of one
    of `kinds` ({name: value}); with the loop-head fixpoint this covers sequences of every length.
    The iterator object is Adt(iter_name, [])."""

    def m_next(interp, fn, args, st, site, frame):
        addr, path, it = innermost(interp, args[0], st)
        if not (isinstance(it, Adt) and it.name == iter_name):
            return None
        out = []
        # one cell per kind (same-kind elements are indistinguishable); all cells exist from the first
        # call on, so that their mere presence does not distinguish abstract states
        for kname, val in kinds.items():
            st.heap["%s.elem.%s" % (label, kname)] = val
        st0 = st.fork()
        st0.choose("%s.next" % label, "end")
        out.append((NONE, st0))
        for kname, val in kinds.items():
            st2 = st.fork()
            cell = "%s.elem.%s" % (label, kname)
            st2.choose("%s.next" % label, kname)
            out.append((some(Ref(cell, (), False)), st2))
        return out

    def m_into_iter(interp, fn, args, st, site, frame):
        return [(args[0], st)]

    return [
        (r"std::slice::Iter<'_, .*> as std::iter::Iterator>::next$", m_next),
        (r"std::slice::Iter<'_, .*> as std::iter::IntoIterator>::into_iter$", m_into_iter),
    ]


# ------------------------------------------------------------------------------------------------
# log helpers

def segments(log, fn_path=None):
    """split an effect log at loop-head markers (of fn_path if given): [prefix, iter1, iter2, ...]"""
    segs = [[]]
    for e in log:
        if e[0] == "loop-head" and (fn_path is None or e[1] == fn_path):
            segs.append([])
        else:
            segs[-1].append(e)
    return segs


def calls_in(seg, regex):
    r = re.compile(regex)
    return [e for e in seg if e[0] == "call" and r.search(e[1])]


def choice_in(seg, name):
    for e in seg:
        if e[0] == "choice" and e[1] == name:
            return e[2]
    return None


def ret_kind(v):
    if isinstance(v, Adt) and v.name.endswith("Result"):
        return "ok" if v.variant == 0 else "err"
    if isinstance(v, Adt) and v.name.endswith("Option"):
        return "some" if v.variant == 1 else "none"
    return "?"


# ------------------------------------------------------------------------------------------------
# MessageDecoder::decode

DECODE = "stun_rs::context::MessageDecoder::decode"


def decode_paths(ctx, prog):
    """explore MessageDecoder::decode with a symbolic context; returns (iteration segments, info).
    Each segment: dict(ctx, validation, unknown_data, not_ignore, ignored, validated, appended, exit,
    unknown_kept, handler)."""
    cands = [b for b in prog.bodies.values() if b.path.endswith("MessageDecoder::decode") and b.crate == "stun_rs"]
    if len(cands) != 1:
        ctx.anchor_missing("decode", "stun_rs MessageDecoder::decode (%d bodies)" % len(cands))
        return None
    body = cands[0]
    ctx.fn(body)

    def m_ignore(interp, fn, args, st, site, frame):
        s = interp.fresh_sym(st, "ignored")
        st2 = st.fork()
        st2.effect(("call", "ignore_attribute", (), None))
        return [(s, st2)]

    def m_validate(interp, fn, args, st, site, frame):
        out = []
        for vix, name in ((0, "ok"), (1, "err")):
            st2 = st.fork()
            st2.effect(("call", "validate_attribute", (name,), None))
            st2.choose("validate", name)
            out.append((ok(UNIT) if vix == 0 else err(Top("validation-error")), st2))
        return out

    def m_with_attr(interp, fn, args, st, site, frame):
        st2 = st.fork()
        st2.effect(("call", "with_attribute", (interp.abstract(args[1], st2),), None))
        return [(Top("builder"), st2)]

    def m_unknown_new(interp, fn, args, st, site, frame):
        st2 = st.fork()
        st2.effect(("call", "Unknown::new", (interp.abstract(args[1], st2),), None))
        return [(Top("unknown-attr"), st2)]

    def m_get_handler(interp, fn, args, st, site, frame):
        out = []
        for vix, name in ((0, "None"), (1, "Some")):
            st2 = st.fork()
            st2.choose("handler", name)
            out.append((NONE if vix == 0 else some(Top("handler-fn")), st2))
        return out

    models = compile_models([
        (r"^stun_rs::context::ignore_attribute$", m_ignore),
        (r"^stun_rs::context::validate_attribute$", m_validate),
        (r"StunMessageBuilder::with_attribute", m_with_attr),
        (r"attributes::unknown::Unknown::new", m_unknown_new),
        (r"^stun_rs::registry::get_handler$", m_get_handler),
    ])
    segs_out = []
    stats = {"paths": 0, "unmodelled": {}}
    for ctx_kind in ("None", "Some"):
        it = Interp(prog, models, step_only=[r"context::\{impl#\d+\}::decode::\{closure", r"MessageDecoder::decode::\{closure",
                                            r"DecoderContext::(validate|with_unknown_data|key)$"])
        it.choice_effects = True
        st = State()
        if ctx_kind == "None":
            cval = NONE
        else:
            cval = some(Adt("stun_rs::context::DecoderContext", 0,
                            [Top("key"), Sym("flag:validation"), Sym("flag:unknown_data"), Sym("flag:not_ignore")]))
        adt = prog.adt("stun_rs::context::DecoderContext")
        names = [f["name"] for f in adt["variants"][0]["fields"]]
        if names != ["key", "validation", "unknown_data", "not_ignore"]:
            ctx.anchor_missing("decode", "DecoderContext fields %s" % names)
            return None
        st.heap["decoder"] = Adt("stun_rs::context::MessageDecoder", 0, [cval])
        st.heap["buffer"] = Top("bytes")
        outs = it.run(body, [Ref("decoder", (), False), Ref("buffer", (), False)], st)
        stats["paths"] += len(outs)
        for k, v in it.unmodelled.items():
            stats["unmodelled"][k] = stats["unmodelled"].get(k, 0) + v
        if it.bounded:
            ctx.violation("decode", "loop-bound", "loop bound hit while exploring decode", body.where())
        for o in outs:
            segs = segments(o.st.log, body.path)
            flags = {n: o.st.bind.get("flag:" + n) for n in ("validation", "unknown_data", "not_ignore")}
            rk = ret_kind(o.ret)
            for i, seg in enumerate(segs[1:]):
                last = (i == len(segs) - 2)
                if not calls_in(seg, r"^ignore_attribute$") and not calls_in(seg, "with_attribute|validate_attribute") \
                        and choice_in(seg, "handler") is None:
                    continue      # loop exit iteration (iterator returned None / Err before any work)
                d = {
                    "ctx": ctx_kind,
                    "validation": flags["validation"],
                    "unknown_data": flags["unknown_data"],
                    "not_ignore": flags["not_ignore"] if ctx_kind == "Some" else 0,
                    "ignored": choice_in(seg, "ignored"),
                    "validated": bool(calls_in(seg, r"^validate_attribute$")),
                    "validate_result": choice_in(seg, "validate"),
                    "appended": bool(calls_in(seg, r"^with_attribute$")),
                    "handler": choice_in(seg, "handler"),
                    "unknown_new": [e[2] for e in calls_in(seg, r"^Unknown::new$")],
                    "order": [e[1] for e in seg if e[0] == "call" and e[1] in ("ignore_attribute", "validate_attribute", "with_attribute")],
                    "exit": ("err" if (last and rk == "err") else "continue"),
                }
                segs_out.append(d)
    # distinct classes only
    uniq = {}
    for d in segs_out:
        uniq[repr(sorted(d.items(), key=lambda kv: kv[0]))] = d
    info = {"where": body.where(), "paths": stats["paths"], "unmodelled": stats["unmodelled"], "body": body}
    return list(uniq.values()), info


def protected_iter_spec_models(kinds, kind_class, label="wire"):
    """ProtectedAttributeIteratorObject::next replaced by its specification (the RFC 8489 admission
    automaton, proved equivalent to the code under C09 R9.3): each call either ends the sequence or
    yields one *admitted* element of some kind and sets the corresponding flag; elements that are
    skipped are unobservable to the caller.  kind_class: kind name -> 'MI' | 'SHA' | 'FP' | 'ORD'."""

    def m_next(interp, fn, args, st, site, frame):
        addr, path, it = innermost(interp, args[0], st)
        if not (isinstance(it, Adt) and it.name.endswith("ProtectedAttributeIteratorObject")):
            return None
        fl = [interp.concretize(x, st) for x in it.fields[1:4]]
        if not all(isinstance(x, Const) for x in fl):
            return None
        mi, sha, fp = [bool(x.v) for x in fl]
        for kname, val in kinds.items():
            st.heap["%s.elem.%s" % (label, kname)] = val
        out = []
        st0 = st.fork()
        st0.choose("%s.next" % label, "end")
        out.append((NONE, st0))
        for kname, val in kinds.items():
            kc = kind_class.get(kname, "ORD")
            if kc == "ORD" or kc == "MI":
                adm = not (mi or sha or fp)
            elif kc == "SHA":
                adm = not (sha or fp)
            else:
                adm = not fp
            if not adm:
                continue
            st2 = st.fork()
            nf = (mi or kc == "MI", sha or kc == "SHA", fp or kc == "FP")
            newit = Adt(it.name, it.variant, [it.fields[0]] + [Const(1 if x else 0, "bool") for x in nf], it.vname)
            st2.heap[addr] = interp.set_at(st2.heap[addr], path, newit)
            st2.choose("%s.next" % label, kname)
            out.append((some(Ref("%s.elem.%s" % (label, kname), (), False)), st2))
        return out

    return [(r"ProtectedAttributeIteratorObject<'a> as std::iter::Iterator>::next$|ProtectedAttributeIteratorObject<'_> as std::iter::Iterator>::next$", m_next)]
