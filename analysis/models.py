"""Callee models for E2 (DESIGN.md Appendix C): reviewed, each a few lines.

A model is `fn(interp, fn_ref, args, state, site, frame) -> [(ret, state)] | None` (None = not
applicable, fall through to stepping into the body / the opaque default).
"""
import re
from .absint import Budget, Const, Top, Sym, Adt, Ref, FnV, UNIT, Infeasible, adt_base_name, TyRef, ty_s

OPTION = "std::option::Option"
RESULT = "std::result::Result"
CF = "std::ops::ControlFlow"


def some(v):
    return Adt(OPTION, 1, (v,), "Some")


NONE = Adt(OPTION, 0, (), "None")


def ok(v):
    return Adt(RESULT, 0, (v,), "Ok")


def err(v):
    return Adt(RESULT, 1, (v,), "Err")


def deref(interp, v, st):
    """value behind a reference (or the value itself)"""
    v = interp.concretize(v, st)
    guard = 0
    while isinstance(v, Ref) and guard < 6:
        base = st.heap.get(v.addr)
        if base is None:
            return Top("dangling")
        v = interp.concretize(interp.get_at(base, v.path), st)
        guard += 1
    return v


def split_enum(interp, v, st, tystr, label=None):
    """all (variant value, state) refinements of an unknown enum value that is stored behind a Ref or
    is a plain value; for a value that is already an Adt returns it as is."""
    v0 = interp.concretize(v, st)
    if isinstance(v0, Adt):
        return [(v0, st)]
    variants = interp.variants_of(tystr)
    if variants is None:
        return None
    out = []
    lab = label or (v0.label if isinstance(v0, Top) else "v")
    for vix, var in enumerate(variants):
        st2 = st.fork()
        m = interp.materialize(tystr, lab, vix)
        if m is None:
            m = Adt(adt_base_name(tystr), vix, [Top("%s.%d" % (lab, i)) for i in range(len(var["fields"]))], var["name"])
        st2.choose("variant(%s)" % lab, var["name"])
        out.append((m, st2))
    return out


def _fresh(interp, st, v):
    if isinstance(v, Sym):
        return interp.fresh_sym(st, v.name)
    return v


def opt_cases(interp, v, st, label):
    """case split of an Option value: [(Adt, st)], writing the refinement back when v is behind a Ref"""
    target = None
    if isinstance(v, Ref):
        target = v
        inner = deref(interp, v, st)
    else:
        inner = interp.concretize(v, st)
    if isinstance(inner, Adt):
        return [(inner, st)]
    lab = inner.label if isinstance(inner, Top) else label
    out = []
    known = st.bind.get("v:%s" % lab)
    for vix, vname in ((0, "None"), (1, "Some")):
        if known is not None and known != vix:
            continue
        st2 = st.fork()
        st2.bind["v:%s" % lab] = vix
        pty = inner.ty.arg(0) if isinstance(inner, Top) and isinstance(inner.ty, TyRef) and adt_base_name(inner.ty.s) == OPTION else None
        val = NONE if vix == 0 else some(_fresh(interp, st2, interp.symbolic(pty, "%s.some" % lab)))
        st2.choose("variant(%s)" % lab, vname)
        if target is not None:
            base = st2.heap.get(target.addr)
            if base is not None:
                st2.heap[target.addr] = interp.set_at(base, target.path, val)
        out.append((val, st2))
    return out


def res_cases(interp, v, st, label):
    """case split of a Result value, writing the refinement back when v is behind a Ref (as opt_cases does)"""
    target = None
    if isinstance(v, Ref):
        target = v
        inner = deref(interp, v, st)
    else:
        inner = interp.concretize(v, st)
    if isinstance(inner, Adt):
        return [(inner, st)]
    lab = inner.label if isinstance(inner, Top) else label
    out = []
    known = st.bind.get("v:%s" % lab)
    for vix, vname in ((0, "Ok"), (1, "Err")):
        if known is not None and known != vix:
            continue
        st2 = st.fork()
        st2.bind["v:%s" % lab] = vix
        pty = inner.ty.arg(vix) if isinstance(inner, Top) and isinstance(inner.ty, TyRef) and adt_base_name(inner.ty.s) == RESULT else None
        val = ok(_fresh(interp, st2, interp.symbolic(pty, "%s.ok" % lab))) if vix == 0 else err(interp.symbolic(pty, "%s.err" % lab))
        st2.choose("variant(%s)" % lab, vname)
        if target is not None:
            base = st2.heap.get(target.addr)
            if base is not None:
                st2.heap[target.addr] = interp.set_at(base, target.path, val)
        out.append((val, st2))
    return out


# ------------------------------------------------------------------------------------------ Option

def m_opt_is_some(interp, fn, args, st, site, frame):
    out = []
    want = 1 if fn["path"].endswith("is_some") else 0
    for (v, st2) in opt_cases(interp, args[0], st, "opt@" + site):
        out.append((Const(1 if v.variant == want else 0, "bool"), st2))
    return out


def m_opt_as_ref(interp, fn, args, st, site, frame):
    # Option<T>::as_ref(&self) -> Option<&T> ; as_mut likewise
    a = args[0]
    out = []
    for (v, st2) in opt_cases(interp, a, st, "opt@" + site):
        if v.variant == 0:
            out.append((NONE, st2))
        elif isinstance(a, Ref):
            out.append((some(Ref(a.addr, a.path + (("dc", 1), 0), a.mut)), st2))
        else:
            out.append((some(Top("asref")), st2))
    return out


def m_opt_take(interp, fn, args, st, site, frame):
    a = args[0]
    out = []
    for (v, st2) in opt_cases(interp, a, st, "opt@" + site):
        if isinstance(a, Ref):
            base = st2.heap.get(a.addr)
            st2.heap[a.addr] = interp.set_at(base, a.path, NONE)
            if interp.is_tracked(a.addr):
                st2.effect(("write", a.addr, interp.path_names(st2, a.addr, a.path), "None"))
        out.append((v, st2))
    return out


def m_opt_take_if(interp, fn, args, st, site, frame):
    """opt.take_if(pred): `if opt.as_mut().map_or(false, pred) { opt.take() } else { None }`"""
    a = args[0]
    if len(args) != 2 or not isinstance(a, Ref):
        return None
    out = []
    for (v, st2) in opt_cases(interp, a, st, "opt@" + site):
        if v.variant == 0:
            out.append((NONE, st2))
            continue
        st2 = st2.fork()
        cell = ("h", "take-if-item", site, frame.depth)
        st2.heap[cell] = v.fields[0]
        r = _call_fnlike(interp, args[1], [Ref(cell, (), True)], st2, frame, site, "take_if")
        if r is None:
            return None
        for (b, st3) in r:
            cases = _as_bool_cases(interp, b, st3)
            if cases is None:
                return None
            for (yes, st4) in cases:
                st4.heap.pop(cell, None)
                if not yes:
                    out.append((NONE, st4))
                    continue
                base = st4.heap.get(a.addr)
                st4.heap[a.addr] = interp.set_at(base, a.path, NONE)
                if interp.is_tracked(a.addr):
                    st4.effect(("write", a.addr, interp.path_names(st4, a.addr, a.path), "None"))
                out.append((v, st4))
    return out


def m_opt_replace(interp, fn, args, st, site, frame):
    """opt.replace(v): the old value is returned, Some(v) is stored (logged like an assignment to the place)"""
    a = args[0]
    if not isinstance(a, Ref):
        return None
    out = []
    for (v, st2) in opt_cases(interp, a, st, "opt@" + site):
        interp.write_at(a.addr, a.path, some(args[1]), st2)
        out.append((v, st2))
    return out


def m_res_err(interp, fn, args, st, site, frame):
    out = []
    for (v, st2) in res_cases(interp, args[0], st, "res@" + site):
        out.append((some(v.fields[0]) if v.variant == 1 else NONE, st2))
    return out


def m_iter_once(interp, fn, args, st, site, frame):
    """std::iter::once(v): a one-element iterator"""
    if len(args) != 1:
        return None
    return [(Adt("it:array", 0, (Adt("array", 0, (args[0],)), Const(0, "usize"))), st)]


def m_opt_into_iter(interp, fn, args, st, site, frame):
    """Option<T>::into_iter(): zero or one element"""
    out = []
    for (v, st2) in opt_cases(interp, args[0], st, "opt@" + site):
        elems = () if v.variant == 0 else (v.fields[0],)
        out.append((Adt("it:array", 0, (Adt("array", 0, elems), Const(0, "usize"))), st2))
    return out


def m_opt_or(interp, fn, args, st, site, frame):
    out = []
    for (v, st2) in opt_cases(interp, args[0], st, "opt@" + site):
        if v.variant == 1:
            out.append((v, st2))
        else:
            for (w, st3) in opt_cases(interp, args[1], st2, "optb@" + site):
                out.append((w, st3))
    return out


def m_opt_ok_or_else(interp, fn, args, st, site, frame):
    out = []
    for (v, st2) in opt_cases(interp, args[0], st, "opt@" + site):
        if v.variant == 1:
            out.append((ok(v.fields[0]), st2))
        else:
            r = interp.call_closure(args[1], [], st2, frame)
            if r is None:
                out.append((err(Top("err@" + site)), st2))
            else:
                for (e, st3) in r:
                    out.append((err(e), st3))
    return out


def m_opt_ok_or(interp, fn, args, st, site, frame):
    out = []
    for (v, st2) in opt_cases(interp, args[0], st, "opt@" + site):
        out.append((ok(v.fields[0]) if v.variant == 1 else err(args[1]), st2))
    return out


def m_opt_is_some_and(interp, fn, args, st, site, frame):
    out = []
    for (v, st2) in opt_cases(interp, args[0], st, "opt@" + site):
        if v.variant == 0:
            out.append((Const(0, "bool"), st2))
        else:
            r = interp.call_closure(args[1], [v.fields[0]], st2, frame)
            if r is None:
                out.append((Sym("is_some_and@" + site), st2))
            else:
                out.extend(r)
    return out


def m_opt_map_or_else(interp, fn, args, st, site, frame):
    out = []
    for (v, st2) in opt_cases(interp, args[0], st, "opt@" + site):
        if v.variant == 0:
            r = interp.call_closure(args[1], [], st2, frame)
        else:
            r = interp.call_closure(args[2], [v.fields[0]], st2, frame)
        if r is None:
            out.append((Top("map_or_else@" + site), st2))
        else:
            out.extend(r)
    return out


def m_opt_map(interp, fn, args, st, site, frame):
    out = []
    for (v, st2) in opt_cases(interp, args[0], st, "opt@" + site):
        if v.variant == 0:
            out.append((NONE, st2))
        else:
            r = interp.call_closure(args[1], [v.fields[0]], st2, frame)
            if r is None and isinstance(args[1], FnV):
                r = _call_fnlike(interp, args[1], [v.fields[0]], st2, frame, site, "map")
            if r is None:
                out.append((some(Top("map@" + site)), st2))
            else:
                for (x, st3) in r:
                    out.append((some(x), st3))
    return out



def _call_fnlike(interp, f, argv, st, frame, site, what):
    """call a closure value or a function item passed by value; None when it cannot be resolved"""
    if isinstance(f, FnV):
        dk = str(f.fn.get("dk", ""))
        if dk.startswith("Ctor("):
            # a tuple-variant / tuple-struct constructor used as a function (`.map(Event::Timeout)`): build the value
            path = f.fn.get("rpath") or f.fn.get("path") or ""
            if "Variant" in dk and "::" in path:
                owner, vname = path.rsplit("::", 1)
                adt = interp.prog.adts_by_name.get(owner)
                if adt is not None:
                    for vix, var in enumerate(adt["variants"]):
                        if var["name"] == vname:
                            return [(Adt(owner, vix, tuple(argv), vname), st)]
            elif "Struct" in dk and path in interp.prog.adts_by_name:
                return [(Adt(path, 0, tuple(argv), path.rsplit("::", 1)[-1]), st)]
        try:
            return interp.call_fn(f.fn, list(argv), st, "%s~%s" % (site, what), frame)
        except Budget:
            return None
    if not (isinstance(f, Adt) and f.name.startswith("closure:")):
        return None
    body = interp.prog.bodies.get(f.name[len("closure:"):])
    if body is None:
        return None
    if interp.step_only is not None and not any(r.search(body.path) or r.search(body.key) for r in interp.step_only) \
            and not interp.is_new_helper(body):
        return None
    try:
        return interp.call_closure(f, argv, st, frame)
    except Budget:
        return None


def m_opt_cloned(interp, fn, args, st, site, frame):
    """Option<&T>::cloned / copied: Some(&x) -> Some(x) (values have no identity in the abstraction)"""
    out = []
    for (v, st2) in opt_cases(interp, args[0], st, "opt@" + site):
        if v.variant == 0:
            out.append((NONE, st2))
        else:
            out.append((some(deref(interp, v.fields[0], st2)), st2))
    return out


def m_opt_unwrap_or(interp, fn, args, st, site, frame):
    out = []
    for (v, st2) in opt_cases(interp, args[0], st, "opt@" + site):
        out.append((args[1] if v.variant == 0 else v.fields[0], st2))
    return out


def m_opt_unwrap_or_else(interp, fn, args, st, site, frame):
    out = []
    for (v, st2) in opt_cases(interp, args[0], st, "opt@" + site):
        if v.variant == 1:
            out.append((v.fields[0], st2))
        else:
            r = _call_fnlike(interp, args[1], [], st2, frame, site, "unwrap_or_else")
            out.extend(r if r is not None else [(Top("unwrap_or_else@" + site), st2)])
    return out


def m_opt_map_or(interp, fn, args, st, site, frame):
    out = []
    for (v, st2) in opt_cases(interp, args[0], st, "opt@" + site):
        if v.variant == 0:
            out.append((args[1], st2))
        else:
            r = _call_fnlike(interp, args[2], [v.fields[0]], st2, frame, site, "map_or")
            out.extend(r if r is not None else [(Top("map_or@" + site), st2)])
    return out


def m_opt_and_then(interp, fn, args, st, site, frame):
    out = []
    for (v, st2) in opt_cases(interp, args[0], st, "opt@" + site):
        if v.variant == 0:
            out.append((NONE, st2))
        else:
            r = _call_fnlike(interp, args[1], [v.fields[0]], st2, frame, site, "and_then")
            out.extend(r if r is not None else [(Top("and_then@" + site), st2)])
    return out


def m_opt_filter(interp, fn, args, st, site, frame):
    out = []
    for (v, st2) in opt_cases(interp, args[0], st, "opt@" + site):
        if v.variant == 0:
            out.append((NONE, st2))
            continue
        payload = v.fields[0]
        cell = ("h", "filter", site, frame.depth)     # deterministic scratch cell: re-execution in a loop reproduces the store
        st2.heap[cell] = payload
        r = _call_fnlike(interp, args[1], [Ref(cell, (), False)], st2, frame, site, "filter")
        if r is None:
            return None
        for (b, st3) in r:
            st3.heap.pop(cell, None)
            b = interp.concretize(b, st3)
            if isinstance(b, Const):
                out.append((v if b.v else NONE, st3))
            elif isinstance(b, Sym):
                for d in (0, 1):
                    st4 = st3.fork()
                    st4.bind[b.name] = d
                    st4.choose(b.name, d)
                    out.append((v if d else NONE, st4))
            else:
                return None
    return out

def m_bool_then_some(interp, fn, args, st, site, frame):
    b = interp.concretize(args[0], st)
    out = []
    for (bv, st2) in bool_cases(interp, b, st):
        out.append((some(args[1]) if bv else NONE, st2))
    return out


def m_bool_then(interp, fn, args, st, site, frame):
    b = interp.concretize(args[0], st)
    out = []
    for (bv, st2) in bool_cases(interp, b, st):
        if not bv:
            out.append((NONE, st2))
        else:
            r = interp.call_closure(args[1], [], st2, frame)
            if r is None:
                out.append((some(Top("then@" + site)), st2))
            else:
                for (x, st3) in r:
                    out.append((some(x), st3))
    return out


def bool_cases(interp, b, st):
    b = interp.concretize(b, st)
    neg = False
    if isinstance(b, Adt) and b.name == "!":
        neg = True
        b = interp.concretize(b.fields[0], st)
    if isinstance(b, Const):
        v = 1 if b.v else 0
        return [((1 - v) if neg else v, st)]
    if isinstance(b, Sym):
        out = []
        for d in (0, 1):
            st2 = st.fork()
            st2.bind[b.name] = d
            st2.choose(b.name, d)
            out.append(((1 - d) if neg else d, st2))
        return out
    out = []
    for d in (0, 1):
        st2 = st.fork()
        st2.choose("bool@?", d)
        out.append((d, st2))
    return out


# ------------------------------------------------------------------------------------------ Result / Try

def m_try_branch(interp, fn, args, st, site, frame):
    # <Result<T,E> as Try>::branch -> ControlFlow<Result<Infallible,E>, T>
    self_ty = fn["full"]
    out = []
    if self_ty.startswith("<std::option::Option<"):
        for (v, st2) in opt_cases(interp, args[0], st, "try@" + site):
            if v.variant == 1:
                out.append((Adt(CF, 0, (v.fields[0],), "Continue"), st2))
            else:
                out.append((Adt(CF, 1, (NONE,), "Break"), st2))
        return out
    for (v, st2) in res_cases(interp, args[0], st, "try@" + site):
        if v.variant == 0:
            out.append((Adt(CF, 0, (v.fields[0],), "Continue"), st2))
        else:
            out.append((Adt(CF, 1, (err(v.fields[0]),), "Break"), st2))
    return out


def m_from_residual(interp, fn, args, st, site, frame):
    r = interp.concretize(args[0], st)
    if isinstance(r, Adt) and r.name == RESULT and r.variant == 1:
        # error conversion From<E> for F: identity unless a workspace From impl exists
        e = r.fields[0]
        return [(err(e), st)]
    if isinstance(r, Adt) and r.name == OPTION:
        return [(NONE, st)]
    return [(err(Top("residual@" + site)), st)]


def m_res_map_err(interp, fn, args, st, site, frame):
    out = []
    for (v, st2) in res_cases(interp, args[0], st, "res@" + site):
        if v.variant == 0:
            out.append((v, st2))
        else:
            r = interp.call_closure(args[1], [v.fields[0]], st2, frame)
            if r is None:
                out.append((err(Top("map_err@" + site)), st2))
            else:
                for (e, st3) in r:
                    out.append((err(e), st3))
    return out


def m_res_map(interp, fn, args, st, site, frame):
    out = []
    for (v, st2) in res_cases(interp, args[0], st, "res@" + site):
        if v.variant == 1:
            out.append((v, st2))
        else:
            r = _call_fnlike(interp, args[1], [v.fields[0]], st2, frame, site, "map")
            if r is None:
                out.append((ok(Top("map@" + site)), st2))
            else:
                for (x, st3) in r:
                    out.append((ok(x), st3))
    return out


def m_res_and_then(interp, fn, args, st, site, frame):
    out = []
    for (v, st2) in res_cases(interp, args[0], st, "res@" + site):
        if v.variant == 1:
            out.append((v, st2))
        else:
            r = _call_fnlike(interp, args[1], [v.fields[0]], st2, frame, site, "and_then")
            out.extend(r if r is not None else [(Top("and_then@" + site), st2)])
    return out


def m_res_unwrap_or(interp, fn, args, st, site, frame):
    out = []
    for (v, st2) in res_cases(interp, args[0], st, "res@" + site):
        out.append((v.fields[0] if v.variant == 0 else args[1], st2))
    return out


def m_res_ok(interp, fn, args, st, site, frame):
    out = []
    for (v, st2) in res_cases(interp, args[0], st, "res@" + site):
        out.append((some(v.fields[0]) if v.variant == 0 else NONE, st2))
    return out


def m_res_is_ok(interp, fn, args, st, site, frame):
    want = 0 if fn["path"].endswith("is_ok") else 1
    out = []
    for (v, st2) in res_cases(interp, args[0], st, "res@" + site):
        out.append((Const(1 if v.variant == want else 0, "bool"), st2))
    return out


# ------------------------------------------------------------------------------------------ misc

def m_unwrap(interp, fn, args, st, site, frame):
    """unwrap / expect: the payload on the Some / Ok path (the panicking path is E1's business)"""
    v = interp.concretize(args[0], st)
    if isinstance(v, Adt) and v.name in (OPTION, RESULT):
        good = 1 if v.name == OPTION else 0
        if v.variant == good:
            return [(v.fields[0], st)]
        return []
    self_ty = fn["full"]
    if "std::option::Option<" in self_ty:
        cases = opt_cases(interp, v, st, "unwrap@" + site)
        return [(c.fields[0], s2) for (c, s2) in cases if c.variant == 1]
    cases = res_cases(interp, v, st, "unwrap@" + site)
    return [(c.fields[0], s2) for (c, s2) in cases if c.variant == 0]


def m_int_try_from(interp, fn, args, st, site, frame):
    """integer TryFrom/TryInto: value preserving on the Ok path; the range check and its outcome are logged
    (("narrow", target type, value, "Ok" | "Err")) so that rules can ask which value was proved to fit"""
    full = fn.get("rfull") or fn.get("full") or fn.get("path") or ""
    m = re.search(r"TryInto<(u8|u16|u32|u64|usize)>>::try_into$|for (u8|u16|u32|u64|usize)>::try_from$", full)
    tgt = (m.group(1) or m.group(2)) if m else "?"
    st1, st2 = st.fork(), st.fork()
    v = interp.abstract(args[0], st1)
    st1.effect(("narrow", tgt, v, "Ok"))
    st2.effect(("narrow", tgt, v, "Err"))
    return [(ok(args[0]), st1), (err(Top("try-from-int-error")), st2)]


def m_op_assign(interp, fn, args, st, site, frame):
    """std AddAssign / SubAssign / MulAssign on Instant / Duration: *a = op(*a, b) as a symbolic node"""
    a = args[0]
    if not isinstance(a, Ref):
        return None
    base = st.heap.get(a.addr)
    if base is None:
        return None
    old = interp.get_at(base, a.path)
    name = fn["path"].split("::")[-1].replace("_assign", "")
    owner = "Instant" if "Instant" in fn["full"].split(" as ")[0] else "Duration"
    st2 = st.fork()
    st2.heap[a.addr] = interp.set_at(base, a.path, Adt("fn:%s::%s" % (owner, name), 0, (old, args[1])))
    return [(UNIT, st2)]



# ------------------------------------------------------------------------------------------------
# iterators over fixed-size arrays and integer ranges: concrete counters, so that `for` loops over
# `arr.iter_mut().enumerate().take(n).skip(m)` or `0..n` unroll instead of being havocked

def _array_len(interp, r, st, frame=None):
    """length of the array a slice reference was unsized from, if known from the pointee's type (`[T; N]` in a function
    generic over N: the value N has at this call, when the frame knows it)"""
    if not isinstance(r, Ref):
        return None
    base = st.heap.get(r.addr)
    if base is None:
        return None
    try:
        v = interp.get_at(base, r.path)
    except Exception:
        return None
    ty = getattr(v, "ty", None)
    rec = getattr(ty, "rec", None) if ty is not None else None
    if isinstance(rec, dict) and rec.get("k") == "array" and rec.get("len") is not None:
        return int(rec["len"])
    if isinstance(v, Adt) and v.name == "array":
        return len(v.fields)
    if isinstance(rec, dict) and rec.get("k") == "array" and rec.get("len") is None and frame is not None \
            and getattr(frame, "cparams", None) and len(frame.cparams) == 1:
        return int(frame.cparams[0])
    return None


def _window(r):
    """(base ref, lo, hi) when r is a view `base[lo..hi]` made by m_split_at_concrete"""
    if isinstance(r, Ref) and r.path and isinstance(r.path[-1], str):
        m = re.match(r"\[(\d+)\.\.(\d+)\]$", r.path[-1])
        if m:
            return Ref(r.addr, r.path[:-1], r.mut), int(m.group(1)), int(m.group(2))
    return None


def _extent(interp, r, st, frame=None):
    """(base ref, lo, hi) of a slice reference whose extent is known: a view, or an array unsized to a slice"""
    w = _window(r)
    if w is not None:
        return w
    n = _array_len(interp, r, st, frame)
    return (r, 0, n) if n is not None else None


def m_split_at_concrete(interp, fn, args, st, site, frame):
    """arr.split_at(_mut)(k) on an array of known length with a constant k: two views (opt-in, concrete_iters)"""
    if not getattr(interp, "concrete_iters", False) or len(args) != 2:
        return None
    k = interp.concretize(args[1], st)
    ext = _extent(interp, args[0], st, frame)
    if ext is None or not (isinstance(k, Const) and isinstance(k.v, int) and 0 <= k.v <= ext[2] - ext[1]):
        return None
    r, lo, hi = ext
    mk = lambda a, b: Ref(r.addr, r.path + ("[%d..%d]" % (a, b),), r.mut)
    return [(Adt("tuple", 0, (mk(lo, lo + k.v), mk(lo + k.v, hi))), st)]


def m_view_len(interp, fn, args, st, site, frame):
    if args and getattr(interp, "concrete_iters", False):
        ext = _extent(interp, args[0], st, frame)
        if ext is not None:
            return [(Const(ext[2] - ext[1], "usize"), st)]          # a view, or a slice unsized from an array of known length
    return None


def m_bitop_assign(interp, fn, args, st, site, frame):
    """<uN as BitXorAssign<&uN>>::bitxor_assign(&mut a, b) (and the And / Or forms): *a = *a op *b, as the primitive
    compound assignment would be (opt-in, concrete_iters)"""
    if not getattr(interp, "concrete_iters", False) or len(args) != 2 or not isinstance(args[0], Ref):
        return None
    m = re.search(r"Bit(Xor|And|Or)Assign(<.*>)?>::bit(xor|and|or)_assign$", fn.get("rfull") or fn.get("full") or fn.get("path") or "")
    if not m:
        return None
    st2 = st.fork()
    a = interp.read_at(args[0].addr, args[0].path, st2)
    b = deref(interp, args[1], st2) if not (isinstance(args[1], Ref) and any(isinstance(p_, str) and p_.startswith("[") for p_ in args[1].path)) \
        else interp.read_at(args[1].addr, args[1].path, st2)
    interp.write_at(args[0].addr, args[0].path, Adt("op:Bit%s" % m.group(1), 0, (a, b)), st2)
    return [(UNIT, st2)]


def _cmp_fork(interp, st, op, a, b, site):
    """decide `a op b` both ways like a MIR comparison would: logs the comparison and the choice; -> [(0 | 1, state)]"""
    ca, cb = interp.concretize(a, st), interp.concretize(b, st)
    if isinstance(ca, Const) and isinstance(cb, Const) and isinstance(ca.v, int) and isinstance(cb.v, int):
        r = {"Lt": ca.v < cb.v, "Le": ca.v <= cb.v, "Gt": ca.v > cb.v, "Ge": ca.v >= cb.v}[op]
        return [(1 if r else 0, st)]
    nm = "cmp:%s:%s:%s@%s" % (op, interp.short(ca), interp.short(cb), site.rsplit(":", 1)[-1])
    out = []
    for d in (1, 0):
        st2 = st.fork()
        st2.effect(("cmp", nm, op, interp.abstract(ca, st2), interp.abstract(cb, st2)))
        st2.bind[nm] = d
        st2.choose(nm, d)
        out.append((d, st2))
    return out


def m_instant_checked_since(interp, fn, args, st, site, frame):
    """Instant::checked_duration_since(a, b): Some(a - b) when a >= b, else None - a path split with the deciding comparison
    logged, the difference written as the `a - b` it is"""
    if len(args) != 2:
        return None
    a, b = (deref(interp, x, st) if isinstance(x, Ref) else x for x in args)
    out = []
    for (ge, st2) in _cmp_fork(interp, st, "Ge", a, b, site + ":instant"):
        if not ge:
            out.append((NONE, st2))
            continue
        rt = getattr(interp, "_ret_ty", None)
        interp._ret_ty = None
        try:
            (d, st3), = interp.opaque_call("<std::time::Instant as std::ops::Sub>::sub", [a, b], st2, site, frame)
        finally:
            interp._ret_ty = rt
        out.append((some(d), st3))
    return out


def m_opt_transpose(interp, fn, args, st, site, frame):
    """Option<Result<T, E>>::transpose -> Result<Option<T>, E>"""
    out = []
    for (o, st2) in opt_cases(interp, args[0], st, "opt@" + site):
        if o.variant == 0:
            out.append((ok(NONE), st2))
            continue
        for (r, st3) in res_cases(interp, o.fields[0], st2, "res@" + site):
            out.append((ok(some(r.fields[0])) if r.variant == 0 else err(r.fields[0]), st3))
    return out


def m_opt_flatten(interp, fn, args, st, site, frame):
    """Option<Option<T>>::flatten"""
    out = []
    for (o, st2) in opt_cases(interp, args[0], st, "opt@" + site):
        if o.variant == 0:
            out.append((NONE, st2))
            continue
        for (i, st3) in opt_cases(interp, o.fields[0], st2, "inner@" + site):
            out.append((i, st3))
    return out


def m_opt_or_else(interp, fn, args, st, site, frame):
    out = []
    for (o, st2) in opt_cases(interp, args[0], st, "opt@" + site):
        if o.variant == 1:
            out.append((o, st2))
        else:
            r = _call_fnlike(interp, args[1], [], st2, frame, site, "or_else")
            out.extend(r if r is not None else [(Top("or_else@" + site), st2)])
    return out


def m_int_minmax(interp, fn, args, st, site, frame):
    """usize::min / max, cmp::min / max on integers: piecewise linear, so the two cases become two paths with the deciding
    comparison logged (min(a, b) = a when a <= b)"""
    full = fn.get("rfull") or fn.get("full") or fn.get("path") or ""
    m = re.search(r"(?:<impl (?:usize|u8|u16|u32|u64)>::|std::cmp::|<(?:usize|u8|u16|u32|u64) as std::cmp::Ord>::)(min|max)(?:::<(?:usize|u8|u16|u32|u64)>)?$", full)
    if not m or len(args) != 2:
        return None
    a, b = args
    out = []
    for (le, st2) in _cmp_fork(interp, st, "Le", a, b, site):
        if m.group(1) == "min":
            out.append((a if le else b, st2))
        else:
            out.append((b if le else a, st2))
    return out


def m_int_checked_sub(interp, fn, args, st, site, frame):
    """a.checked_sub(b): Some(a - b) when a >= b, None otherwise; saturating_sub: a - b or 0 - as two paths"""
    full = fn.get("rfull") or fn.get("full") or fn.get("path") or ""
    m = re.search(r"<impl (usize|u8|u16|u32|u64)>::(checked_sub|saturating_sub)$", full)
    if not m or len(args) != 2:
        return None
    a, b = args
    out = []
    for (ge, st2) in _cmp_fork(interp, st, "Ge", a, b, site):
        diff = Adt("op:Sub", 0, (a, b))
        ca, cb = interp.concretize(a, st2), interp.concretize(b, st2)
        if isinstance(ca, Const) and isinstance(cb, Const) and isinstance(ca.v, int) and isinstance(cb.v, int) and ge:
            diff = Const(ca.v - cb.v, m.group(1))
        if m.group(2) == "checked_sub":
            out.append((some(diff) if ge else NONE, st2))
        else:
            out.append((diff if ge else Const(0, m.group(1)), st2))
    return out


def m_to_be_bytes(interp, fn, args, st, site, frame):
    """uN::to_be_bytes(x): byte i is (x >> 8 (n-1-i)) as u8 - kept as that expression (opt-in, concrete_iters)"""
    m = re.search(r"<impl u(8|16|32|64|128)>::to_be_bytes$", fn.get("path") or "")
    if not m or not args:
        return None
    n = int(m.group(1)) // 8
    if not getattr(interp, "concrete_iters", False):
        return None
    x = interp.concretize(args[0], st)
    if isinstance(x, Const) and isinstance(x.v, int):
        return [(Adt("array", 0, tuple(Const((x.v >> (8 * (n - 1 - i))) & 0xFF, "u8") for i in range(n))), st)]
    return [(Adt("array", 0, tuple(Adt("op:Shr", 0, (x, Const(8 * (n - 1 - i)))) for i in range(n))), st)]


def m_from_be_bytes(interp, fn, args, st, site, frame):
    """uN::from_be_bytes([x >> 8(n-1), .., x >> 8(n-k)]) = x >> 8(n-k): the leading bytes of one value reassembled"""
    if not getattr(interp, "concrete_iters", False) or not args:
        return None
    a = interp.concretize(args[0], st)
    if not (isinstance(a, Adt) and a.name == "array" and a.fields):
        return None
    if all(isinstance(f, Const) and isinstance(f.v, int) for f in a.fields):
        v = 0
        for f in a.fields:
            v = (v << 8) | (f.v & 0xFF)
        return [(Const(v), st)]
    base, sh0 = None, None
    for i, f in enumerate(a.fields):
        if not (isinstance(f, Adt) and f.name == "op:Shr" and isinstance(f.fields[1], Const)):
            return None
        if base is None:
            base, sh0 = f.fields[0], f.fields[1].v
        if f.fields[0].key() != base.key() or f.fields[1].v != sh0 - 8 * i:
            return None
    last = sh0 - 8 * (len(a.fields) - 1)
    return [(Adt("op:Shr", 0, (base, Const(last))), st)]


def m_iter_chain(interp, fn, args, st, site, frame):
    if len(args) == 2 and all(isinstance(a, Adt) and a.name.startswith("it:") for a in args):
        return [(Adt("it:chain", 0, (args[0], args[1])), st)]
    if len(args) == 2 and isinstance(args[0], Adt) and args[0].name.startswith("it:"):
        b = interp.concretize(args[1], st)
        is_opt = (isinstance(b, Adt) and b.name == OPTION) or (isinstance(b, Top) and isinstance(b.ty, TyRef) and adt_base_name(b.ty.s) == OPTION)
        if is_opt:                      # chain(Some(x) / None): Option is IntoIterator
            out = []
            for (v, st2) in opt_cases(interp, b, st, "opt@" + site):
                elems = () if v.variant == 0 else (v.fields[0],)
                out.append((Adt("it:chain", 0, (args[0], Adt("it:array", 0, (Adt("array", 0, elems), Const(0, "usize"))))), st2))
            return out
    return None


def m_iter_zip(interp, fn, args, st, site, frame):
    if len(args) != 2 or not (isinstance(args[0], Adt) and args[0].name.startswith("it:")):
        return None
    b = args[1]
    if isinstance(b, Adt) and b.name.startswith("it:"):
        other = b
    elif isinstance(b, Adt) and b.name == "array":
        other = Adt("it:array", 0, (b, Const(0, "usize")))
    elif isinstance(b, Ref):
        ext = _extent(interp, b, st, frame)
        if ext is None or ext[2] - ext[1] > 64:
            return None
        other = Adt("it:slice", 0, (ext[0], Const(ext[1], "usize"), Const(ext[2], "usize")))
    else:
        return None
    return [(Adt("it:zip", 0, (args[0], other)), st)]


def m_slice_iter(interp, fn, args, st, site, frame):
    if not getattr(interp, "concrete_iters", False):
        return None                 # opt-in (client.explore_fn(..., concrete_iters=True)): other rules model iterators themselves
    w = _window(args[0]) if args else None
    if w is not None:
        return [(Adt("it:slice", 0, (w[0], Const(w[1], "usize"), Const(w[2], "usize"))), st)]
    n = _array_len(interp, args[0], st, frame) if args else None
    if n is None or n > 64:
        return None
    return [(Adt("it:slice", 0, (args[0], Const(0, "usize"), Const(n, "usize"))), st)]


def m_iter_enumerate(interp, fn, args, st, site, frame):
    if args and isinstance(args[0], Adt) and args[0].name.startswith("it:"):
        return [(Adt("it:enum", 0, (args[0], Const(0, "usize"))), st)]
    return None


def m_iter_take(interp, fn, args, st, site, frame):
    if len(args) == 2 and isinstance(args[0], Adt) and args[0].name.startswith("it:") and isinstance(args[1], Const):
        return [(Adt("it:take", 0, (args[0], args[1])), st)]
    return None


def m_iter_skip(interp, fn, args, st, site, frame):
    if len(args) == 2 and isinstance(args[0], Adt) and args[0].name.startswith("it:") and isinstance(args[1], Const):
        return [(Adt("it:skip", 0, (args[0], args[1])), st)]
    return None


def m_array_into_iter(interp, fn, args, st, site, frame):
    """[a, b, c].into_iter(): a by-value iterator over the elements of an array literal"""
    v = interp.concretize(args[0], st) if args else None
    if isinstance(v, Adt) and v.name == "array" and len(v.fields) <= 64:
        return [(Adt("it:array", 0, (v, Const(0, "usize"))), st)]
    return None


def m_iter_flatten(interp, fn, args, st, site, frame):
    if args and isinstance(args[0], Adt) and args[0].name.startswith("it:"):
        return [(Adt("it:flatten", 0, (args[0],)), st)]
    return None


def _drain(interp, it, st, site, k=0):
    """every way a concrete iterator can be run to exhaustion: [(items, state)]"""
    if k > 64:
        raise ValueError
    if it.name == "it:flatten":
        outs = _flatten_next(interp, it, st, "%s#%d" % (site, k))
    else:
        item, it2 = _it_next(it)
        outs = [(item, it2, st)]
    res = []
    for (item, it2, st2) in outs:
        if item is None:
            res.append(([], st2))
        else:
            for (rest, st3) in _drain(interp, it2, st2, site, k + 1):
                res.append(([item] + rest, st3))
    return res


def m_iter_for_each(interp, fn, args, st, site, frame):
    """<concrete iterator>.for_each(closure): the closure is run on every item, in order"""
    if len(args) != 2 or not (isinstance(args[0], Adt) and args[0].name.startswith("it:")):
        return None
    try:
        runs = _drain(interp, args[0], st, site)
    except ValueError:
        return None
    out = []
    for (items, st2) in runs:
        states = [st2]
        for x in items:
            nxt = []
            for s_ in states:
                r = _call_fnlike(interp, args[1], [x], s_, frame, site, "for_each")
                if r is None:
                    return None
                nxt.extend(s3 for (_v, s3) in r)
            states = nxt
            if len(states) > 64:
                return None
        out.extend((UNIT, s_) for s_ in states)
    return out


def m_iter_fold(interp, fn, args, st, site, frame):
    """<concrete iterator>.fold(init, closure): acc = closure(acc, item) for every item, in order"""
    if len(args) != 3 or not (isinstance(args[0], Adt) and args[0].name.startswith("it:")):
        return None
    try:
        runs = _drain(interp, args[0], st, site)
    except ValueError:
        return None
    out = []
    for (items, st2) in runs:
        states = [(args[1], st2)]
        for x in items:
            nxt = []
            for (acc, s_) in states:
                r = _call_fnlike(interp, args[2], [acc, x], s_, frame, site, "fold")
                if r is None:
                    return None
                nxt.extend(r)
            states = nxt
            if len(states) > 64:
                return None
        out.extend(states)
    return out


def m_vec_extend(interp, fn, args, st, site, frame):
    """vec.extend(<concrete iterator>) = vec.push(x) for every item, in order (logged as pushes)"""
    if len(args) != 2 or not (isinstance(args[1], Adt) and args[1].name.startswith("it:")):
        return None
    m = None
    for k in ("rfull", "full", "rpath", "path"):
        m = m or re.match(r"^<std::vec::Vec<(.*?)> as std::iter::Extend<", fn.get(k) or "")
    if not m:
        return None
    push = "std::vec::Vec::<%s>::push" % m.group(1)
    try:
        runs = _drain(interp, args[1], st, site)
    except ValueError:
        return None
    out = []
    for (items, st2) in runs:
        cur = st2
        for k, x in enumerate(items):
            r = interp.opaque_call(push, [args[0], x], cur, "%s#%d" % (site, k), frame)
            cur = r[0][1]
        out.append((UNIT, cur))
    return out


def m_into_iter_identity(interp, fn, args, st, site, frame):
    if args and isinstance(args[0], Adt) and args[0].name.startswith("it:"):
        return [(args[0], st)]
    return None


def _flatten_next(interp, it, st, site, depth=0):
    """next() of Flatten over an iterator of Options: [(item or None, iterator, state)], splitting on each element"""
    inner = it.fields[0]
    item, inner2 = _it_next(inner)
    it2 = Adt("it:flatten", 0, (inner2,))
    if item is None:
        return [(None, it2, st)]
    out = []
    for (v, st2) in opt_cases(interp, item, st, "flat@%s#%d" % (site, depth)):
        if v.variant == 1:
            out.append((v.fields[0], it2, st2))
        else:
            out.extend(_flatten_next(interp, it2, st2, site, depth + 1))
    return out


def _it_next(it):
    """(item or None, new iterator) for a concrete iterator value; raises ValueError when not concrete"""
    nm = it.name
    f = it.fields
    if nm == "it:slice":
        r, i, n = f
        if not (isinstance(i, Const) and isinstance(n, Const)):
            raise ValueError
        if i.v >= n.v:
            return None, it
        return Ref(r.addr, r.path + ("[%d]" % i.v,), r.mut), Adt(nm, 0, (r, Const(i.v + 1, "usize"), n))
    if nm == "it:array":
        arr, i = f
        if i.v >= len(arr.fields):
            return None, it
        return arr.fields[i.v], Adt(nm, 0, (arr, Const(i.v + 1, "usize")))
    if nm == "it:range":
        a, b = f
        if not (isinstance(a, Const) and isinstance(b, Const)):
            raise ValueError
        if a.v >= b.v:
            return None, it
        return a, Adt(nm, 0, (Const(a.v + 1, a.ty), b))
    if nm == "it:chain":
        a, b = f
        x, a2 = _it_next(a)
        if x is not None:
            return x, Adt(nm, 0, (a2, b))
        y, b2 = _it_next(b)
        return y, Adt(nm, 0, (a2, b2))
    if nm == "it:zip":
        a, b = f
        x, a2 = _it_next(a)
        if x is None:
            return None, Adt(nm, 0, (a2, b))
        y, b2 = _it_next(b)
        if y is None:
            return None, Adt(nm, 0, (a2, b2))
        return Adt("tuple", 0, (x, y)), Adt(nm, 0, (a2, b2))
    if nm == "it:enum":
        inner, c = f
        item, inner2 = _it_next(inner)
        if item is None:
            return None, Adt(nm, 0, (inner2, c))
        return Adt("tuple", 0, (c, item)), Adt(nm, 0, (inner2, Const(c.v + 1, "usize")))
    if nm == "it:take":
        inner, n = f
        if n.v <= 0:
            return None, it
        item, inner2 = _it_next(inner)
        return item, Adt(nm, 0, (inner2, Const(n.v - 1, "usize")))
    if nm == "it:skip":
        inner, n = f
        k = n.v
        while k > 0:
            item, inner = _it_next(inner)
            k -= 1
            if item is None:
                return None, Adt(nm, 0, (inner, Const(0, "usize")))
        item, inner2 = _it_next(inner)
        return item, Adt(nm, 0, (inner2, Const(0, "usize")))
    raise ValueError


def m_iter_next(interp, fn, args, st, site, frame):
    a = args[0] if args else None
    if not isinstance(a, Ref):
        return None
    base = st.heap.get(a.addr)
    if base is None:
        return None
    try:
        it = interp.get_at(base, a.path)
    except Exception:
        return None
    if isinstance(it, Adt) and re.search(r"(^|::)ops::(range::)?Range$", it.name) and len(it.fields) == 2 \
            and getattr(interp, "concrete_iters", False):
        a_, b_ = it.fields
        if not (isinstance(a_, Const) and isinstance(b_, Const) and isinstance(a_.v, int) and isinstance(b_.v, int) and b_.v - a_.v <= 64):
            return None
        st2 = st.fork()
        if a_.v >= b_.v:
            return [(NONE, st2)]
        st2.heap[a.addr] = interp.set_at(base, a.path, Adt(it.name, it.variant, (Const(a_.v + 1, a_.ty), b_), it.vname))
        return [(some(a_), st2)]
    if not (isinstance(it, Adt) and it.name.startswith("it:")):
        return None
    if it.name == "it:flatten":
        try:
            outs = _flatten_next(interp, it, st, site)
        except ValueError:
            return None
        res = []
        for (item, it2, st1) in outs:
            st2 = st1.fork()
            st2.heap[a.addr] = interp.set_at(st2.heap.get(a.addr, base), a.path, it2)
            res.append((NONE if item is None else some(item), st2))
        return res
    try:
        item, it2 = _it_next(it)
    except ValueError:
        return None
    st2 = st.fork()
    st2.heap[a.addr] = interp.set_at(base, a.path, it2)
    return [(NONE if item is None else some(item), st2)]


def m_range_into_iter(interp, fn, args, st, site, frame):
    return None

# ------------------------------------------------------------------------------------------------
# iterator adaptors with an internal loop, over iterators that are not concrete (`find`, `any`, `all`, `position`,
# `for_each`, `fold` over a symbolic sequence): the loop `while let Some(x) = it.next() { .. }` is run to a fixpoint over the
# abstract store, exactly like a MIR loop head, with the rule's own model of `next` supplying the elements

def _next_fn_of(fn):
    full = fn.get("rfull") or fn.get("full") or ""
    m = re.match(r"^<(.*) as std::iter::Iterator>::\w+(::<.*>)?$", full)
    if not m:
        return None
    return {"path": "std::iter::Iterator::next", "full": "<%s as std::iter::Iterator>::next" % m.group(1), "resolved": False,
            "key": "std::iter::Iterator::next", "dk": "AssocFn", "args": []}


def _adaptor_loop(interp, fn, it_arg, st, site, frame, step, on_end, head=None):
    """-> list of (value, state), or None when the iterator cannot be stepped abstractly.
    step(item, state) -> [("yield", value, state) | ("continue", state)];  on_end(state) -> value"""
    nfn = _next_fn_of(fn)
    if nfn is None:
        return None
    # a workspace iterator type: resolve its own next() (lifetimes are spelled differently at the call and at the impl)
    norm = lambda p_: re.sub(r"'\w+", "'_", p_)
    for b_ in interp.prog.bodies.values():
        if b_.path.endswith("as std::iter::Iterator>::next") and norm(b_.path) == norm(nfn["full"]):
            nfn.update({"resolved": True, "rkey": b_.key, "rpath": b_.path, "rfull": b_.path})
            break
    if not interp.find_models(nfn["full"]) and not nfn.get("resolved") and not getattr(interp, "adaptor_loops", False):
        return None                       # no model of next() for this iterator: only run it when the rule asks for it
    if isinstance(it_arg, Ref):
        itref = it_arg
    else:
        st = st.fork()
        cell = ("h", "adaptor-it", site, frame.depth)          # one cell per site: re-execution reproduces the same store
        st.heap[cell] = it_arg
        itref = Ref(cell, (), True)
    # from_fn(f): next() is f(), whose result may be an opaque Option (`from_fn(|| calc.next_rto())`): either outcome
    from_fn = re.match(r"^<std::iter::FromFn<", nfn["full"]) is not None
    results = []
    work = [st]
    visits = {}
    rounds = 0
    rt = getattr(interp, "_ret_ty", None)
    next_ty = rt if (rt is not None and adt_base_name(ty_s(rt) or "") == OPTION and re.search(r"Iterator>::find", fn.get("rfull") or fn.get("full") or "")) else None
    while work:
        s = work.pop()
        rounds += 1
        if rounds > 400:
            return None
        interp.widen_at_head(frame, ("adaptor", site), s)      # accumulators of the caller captured by the closures
        key = interp.state_key(frame, ("adaptor", site), s)
        if key in visits:
            continue
        visits[key] = 1
        if head is not None:
            s = s.fork()
            s.effect(head)
        interp._ret_ty = next_ty          # an opaque next() must come back as an Option, whatever ran in between
        outs = interp.call_fn(nfn, [itref], s, "%s#next" % site, frame)
        cases = []
        for (item, s2) in outs:
            item = interp.concretize(item, s2)
            if isinstance(item, Adt) and item.name == OPTION:
                cases.append((item, s2))
            elif isinstance(item, Top) and (getattr(interp, "adaptor_loops", False) or from_fn):
                cases.extend(opt_cases(interp, item, s2, "next@" + site))      # an opaque next(): either outcome
            else:
                return None
        for (item, s2) in cases:
            if item.variant == 0:
                results.append((on_end(s2), s2))
                continue
            for r in step(item.fields[0], s2):
                if r is None:
                    return None
                if r[0] == "continue":
                    work.append(r[1])
                else:
                    results.append((r[1], r[2]))
    return results


def _as_bool_cases(interp, b, st):
    b = interp.concretize(b, st)
    if isinstance(b, Const):
        return [(bool(b.v), st)]
    if isinstance(b, Sym):
        out = []
        for d in (0, 1):
            st2 = st.fork()
            st2.bind[b.name] = d
            st2.choose(b.name, d)
            out.append((bool(d), st2))
        return out
    if isinstance(b, Adt) and b.name == "!" and isinstance(b.fields[0], Sym):
        return [(not v, s_) for (v, s_) in _as_bool_cases(interp, b.fields[0], st)]
    return None


def m_iter_find_loop(interp, fn, args, st, site, frame):
    if len(args) != 2 or (isinstance(args[0], Adt) and args[0].name.startswith("it:")):
        return None
    what = re.search(r"Iterator>::(find|any|all|position)(::<.*>)?$", fn.get("rfull") or fn.get("full") or "")
    if not what:
        return None
    what = what.group(1)

    def step(item, s):
        arg = item
        if what == "find":                      # the predicate of find takes a reference to the item
            s = s.fork()
            cell = ("h", "find-item", site, frame.depth)
            s.heap[cell] = item
            arg = Ref(cell, (), False)
        r = _call_fnlike(interp, args[1], [arg], s, frame, site, what)
        if r is None:
            return [None]
        out = []
        for (b, s2) in r:
            cases = _as_bool_cases(interp, b, s2)
            if cases is None:
                return [None]
            for (v, s3) in cases:
                if what == "find":
                    out.append(("yield", some(item), s3) if v else ("continue", s3))
                elif what == "any":
                    out.append(("yield", Const(1, "bool"), s3) if v else ("continue", s3))
                elif what == "all":
                    out.append(("continue", s3) if v else ("yield", Const(0, "bool"), s3))
                else:
                    out.append(("yield", some(Top("position@" + site)), s3) if v else ("continue", s3))
        return out
    end = {"find": NONE, "position": NONE, "any": Const(0, "bool"), "all": Const(1, "bool")}[what]
    res = _adaptor_loop(interp, fn, args[0], st, site, frame, step, lambda s: end)
    if res is not None:
        for (_v, s_) in res:
            s_.heap.pop(("h", "find-item", site, frame.depth), None)
    return res


def m_iter_fold_loop(interp, fn, args, st, site, frame):
    """fold / for_each over a non-concrete iterator: the accumulator lives in a heap cell so that it is part of the
    abstract store the fixpoint compares"""
    full = fn.get("rfull") or fn.get("full") or ""
    is_fold = re.search(r"Iterator>::fold(::<.*>)?$", full) is not None
    if (isinstance(args[0], Adt) and args[0].name.startswith("it:")) or len(args) != (3 if is_fold else 2):
        return None
    st = st.fork()
    acc = ("h", "fold-acc", site, frame.depth)
    st.heap[acc] = args[1] if is_fold else UNIT
    f = args[2] if is_fold else args[1]

    def step(item, s):
        r = _call_fnlike(interp, f, ([s.heap[acc], item] if is_fold else [item]), s, frame, site, "fold")
        if r is None:
            return [None]
        out = []
        for (v, s2) in r:
            if is_fold:
                s2 = s2.fork()
                s2.heap[acc] = v
            out.append(("continue", s2))
        return out
    res = _adaptor_loop(interp, fn, args[0], st, site, frame, step, lambda s: s.heap.get(acc, UNIT))
    if res is not None:
        for (_v, s_) in res:
            s_.heap.pop(acc, None)
    return res



# ------------------------------------------------------------------------------------------------
# HashMap entry API, desugared into the map operations it stands for (the same call effects as the direct spelling):
#   map.entry(k)            = match map.get_mut(&k) { Some(v) => Occupied{map, k, v}, None => Vacant{map, k} }
#   occupied.get_mut() / get() / into_mut() = v ;  occupied.remove() = map.remove(&k).unwrap() ;  occupied.key() = &k
#   vacant.insert(x) = map.insert(k, x)
ENTRY = "std::collections::hash_map::Entry"


def _map_prefix(fn):
    full = fn.get("rfull") or fn.get("full") or ""
    m = re.match(r"^(std::collections::HashMap::<.*>)::entry$", full)
    if m:
        return m.group(1)
    m = re.match(r"^std::collections::hash_map::(?:OccupiedEntry|VacantEntry)::<'_, (.*)>::\w+(::<.*>)?$", full)
    if m:
        return "std::collections::HashMap::<%s>" % m.group(1)
    return None


def m_map_entry(interp, fn, args, st, site, frame):
    pre = _map_prefix(fn)
    if pre is None or len(args) != 2 or not isinstance(args[0], Ref):
        return None
    key_ty = pre[len("std::collections::HashMap::<"):-1].split(", ")[0]
    st = st.fork()
    kcell = ("h", "entry-key", site, frame.depth)
    st.heap[kcell] = args[1]
    rt = getattr(interp, "_ret_ty", None)
    interp._ret_ty = None
    try:
        (got, st1), = interp.opaque_call("%s::get_mut::<%s>" % (pre, key_ty), [args[0], Ref(kcell, (), False)], st, site, frame)
    finally:
        interp._ret_ty = rt
    # the payload type `&mut V`, from the type table of the crate (V = 2nd type argument of Entry<'_, K, V>)
    pty = None
    if isinstance(rt, TyRef):
        targs = [a for a in (rt.rec.get("args") or []) if isinstance(a, int)]
        if len(targs) >= 2:                     # K, V (, allocator)
            refs = [ix for ix, rec in enumerate(rt.types) if rec.get("k") == "ref" and rec.get("to") == targs[1]]
            refs.sort(key=lambda ix: 0 if rt.types[ix].get("mut") else 1)
            if refs:
                pty = TyRef(rt.types, refs[0])
    out = []
    for (o, st2) in opt_cases(interp, got, st1, "get_mut@" + site):
        if o.variant == 1:
            if pty is not None and isinstance(o.fields[0], Top) and o.fields[0].ty is None:
                o = some(_fresh(interp, st2, interp.symbolic(pty, o.fields[0].label)))
            out.append((Adt(ENTRY, 0, (Adt("OccupiedEntry", 0, (args[0], args[1], o.fields[0])),), "Occupied"), st2))
        else:
            out.append((Adt(ENTRY, 1, (Adt("VacantEntry", 0, (args[0], args[1])),), "Vacant"), st2))
    return out


def _entry_of(interp, a, st, name):
    e = deref(interp, a, st) if isinstance(a, Ref) else a
    e = interp.concretize(e, st)
    return e if isinstance(e, Adt) and e.name == name else None


def m_occupied_value(interp, fn, args, st, site, frame):
    e = _entry_of(interp, args[0], st, "OccupiedEntry") if args else None
    return None if e is None else [(e.fields[2], st)]


def m_occupied_key(interp, fn, args, st, site, frame):
    e = _entry_of(interp, args[0], st, "OccupiedEntry") or _entry_of(interp, args[0], st, "VacantEntry") if args else None
    if e is None:
        return None
    st = st.fork()
    kcell = ("h", "entry-key", site, frame.depth)
    st.heap[kcell] = e.fields[1]
    return [(Ref(kcell, (), False), st)]


def m_occupied_remove(interp, fn, args, st, site, frame):
    e = _entry_of(interp, args[0], st, "OccupiedEntry") if args else None
    pre = _map_prefix(fn)
    if e is None or pre is None:
        return None
    key_ty = pre[len("std::collections::HashMap::<"):-1].split(", ")[0]
    st = st.fork()
    kcell = ("h", "entry-key", site, frame.depth)
    st.heap[kcell] = e.fields[1]
    rt = getattr(interp, "_ret_ty", None)
    interp._ret_ty = None
    try:
        (got, st1), = interp.opaque_call("%s::remove::<%s>" % (pre, key_ty), [e.fields[0], Ref(kcell, (), False)], st, site, frame)
    finally:
        interp._ret_ty = rt
    # the entry is occupied: the removal yields its value
    return [(o.fields[0], st2) for (o, st2) in opt_cases(interp, got, st1, "remove@" + site) if o.variant == 1]


def m_vacant_insert(interp, fn, args, st, site, frame):
    e = _entry_of(interp, args[0], st, "VacantEntry") if args else None
    pre = _map_prefix(fn)
    if e is None or pre is None or len(args) != 2:
        return None
    rt = getattr(interp, "_ret_ty", None)
    interp._ret_ty = None
    try:
        (_old, st1), = interp.opaque_call("%s::insert" % pre, [e.fields[0], e.fields[1], args[1]], st, site, frame)
    finally:
        interp._ret_ty = rt
    return [(interp.symbolic(rt, "ret:insert.value@%s" % site), st1)]


def m_from_fn(interp, fn, args, st, site, frame):
    """std::iter::from_fn(f): an iterator whose next() is f()"""
    if len(args) != 1:
        return None
    return [(Adt("FromFn", 0, (args[0],)), st)]


def m_from_fn_next(interp, fn, args, st, site, frame):
    it = deref(interp, args[0], st) if isinstance(args[0], Ref) else args[0]
    it = interp.concretize(it, st)
    if not (isinstance(it, Adt) and it.name == "FromFn"):
        return None
    return _call_fnlike(interp, it.fields[0], [], st, frame, site, "from_fn")


def m_iter_find_map_loop(interp, fn, args, st, site, frame):
    """find_map: the first Some the closure returns, None at exhaustion (concrete iterators are stepped by their own next)"""
    if len(args) != 2:
        return None

    def step(item, s):
        r = _call_fnlike(interp, args[1], [item], s, frame, site, "find_map")
        if r is None:
            return [None]
        out = []
        for (v, s2) in r:
            for (o, s3) in opt_cases(interp, v, s2, "find_map@" + site):
                out.append(("continue", s3) if o.variant == 0 else ("yield", some(o.fields[0]), s3))
        return out
    return _adaptor_loop(interp, fn, args[0], st, site, frame, step, lambda s: NONE)


def m_iter_try_fold_loop(interp, fn, args, st, site, frame):
    """try_fold(init, f) with f returning ControlFlow: `let mut acc = init; for x in it { match f(acc, x) { Continue(a) => acc = a,
    Break(b) => return Break(b) } } Continue(acc)` - run as that loop; only the ControlFlow result type is modelled"""
    full = fn.get("rfull") or fn.get("full") or ""
    if len(args) != 3 or not re.search(r"Iterator>::try_fold::<.*std::ops::ControlFlow<", full):
        return None
    st = st.fork()
    acc = ("h", "tryfold-acc", site, frame.depth)
    st.heap[acc] = args[1]

    def step(item, s):
        r = _call_fnlike(interp, args[2], [s.heap[acc], item], s, frame, site, "try_fold")
        if r is None:
            return [None]
        out = []
        for (v, s2) in r:
            v = interp.concretize(v, s2)
            if not (isinstance(v, Adt) and v.name == CF):
                return [None]
            if v.variant == 0:
                s2 = s2.fork()
                s2.heap[acc] = v.fields[0]
                out.append(("continue", s2))
            else:
                out.append(("yield", v, s2))
        return out
    res = _adaptor_loop(interp, fn, args[0], st, site, frame, step, lambda s: Adt(CF, 0, (s.heap.get(acc, UNIT),), "Continue"))
    if res is not None:
        for (_v, s_) in res:
            s_.heap.pop(acc, None)
    return res


def m_from_fn_collect(interp, fn, args, st, site, frame):
    """from_fn(f).collect::<Vec<T>>(): `let mut v = Vec::new(); while let Some(x) = f() { v.push(x) }; v` - run as that loop, with
    the same call effects (Vec::new, Vec::push) and a loop-head effect per iteration, so that the rules see what they see in
    the hand-written loop"""
    full = fn.get("rfull") or fn.get("full") or ""
    m = re.search(r"Iterator>::collect::<(std::vec::Vec<(.*)>)>$", full)
    it = interp.concretize(args[0], st) if len(args) == 1 else None
    if not m or not (isinstance(it, Adt) and it.name == "FromFn"):
        return None
    vec_ty = "std::vec::Vec::<%s>" % m.group(2)
    acc = ("h", "collect-acc", site, frame.depth)
    (v0, st), = interp.opaque_call(vec_ty + "::new", [], st, site + "#new", frame)
    st.heap[acc] = v0
    rt = getattr(interp, "_ret_ty", None)

    def step(item, s):
        interp._ret_ty = None
        (_u, s2), = interp.opaque_call(vec_ty + "::push", [Ref(acc, (), True), item], s, site + "#push", frame)
        return [("continue", s2)]
    try:
        res = _adaptor_loop(interp, fn, it, st, site, frame, step, lambda s: s.heap.get(acc, v0),
                            head=("loop-head", frame.body.path, ("collect", site)))
    finally:
        interp._ret_ty = rt
    if res is not None:
        for (_v, s_) in res:
            s_.heap.pop(acc, None)
    return res


def m_fn_call(interp, fn, args, st, site, frame):
    """<F as FnOnce / FnMut / Fn>::call_once / call_mut / call (f, (a, b, ..)) with f a closure value or a function item: the
    call a generic helper makes through its `F: Fn(..)` parameter"""
    if len(args) != 2:
        return None
    f = args[0]
    guard = 0
    while isinstance(f, Ref) and guard < 4:
        base = st.heap.get(f.addr)
        if base is None:
            return None
        f = interp.concretize(interp.get_at(base, f.path), st)
        guard += 1
    tup = interp.concretize(args[1], st)
    if isinstance(tup, Adt) and tup.name == "tuple":
        argv = list(tup.fields)
    elif tup is UNIT:
        argv = []
    else:
        return None
    if not (isinstance(f, FnV) or (isinstance(f, Adt) and f.name.startswith("closure:"))):
        return None
    return _call_fnlike(interp, f, argv, st, frame, site, "call")


def m_identity(interp, fn, args, st, site, frame):
    return [(args[0], st)]


def m_clone(interp, fn, args, st, site, frame):
    # Clone of a value type: the abstract value is copied (no identity in the abstraction)
    v = deref(interp, args[0], st)
    return [(v, st)]


def m_noop_unit(interp, fn, args, st, site, frame):
    return [(UNIT, st)]


def m_log_disabled(interp, fn, args, st, site, frame):
    # logging is modelled as disabled: `lvl <= STATIC_MAX_LEVEL` is false, so the formatting
    # branch (which only takes shared references) is not explored
    return [(Const(0, "bool"), st)]


def m_log_max_level(interp, fn, args, st, site, frame):
    return [(Top("log-level"), st)]


def m_deref_vec(interp, fn, args, st, site, frame):
    # <Vec<T> as Deref>::deref(&self) -> &[T] : same abstract sequence
    return [(args[0], st)]


def m_partial_eq(interp, fn, args, st, site, frame):
    """PartialEq::eq / ne on field-less enum values and constants; undetermined -> atom"""
    a = deref(interp, args[0], st)
    b = deref(interp, args[1], st)
    ne = fn["path"].endswith("::ne")
    if isinstance(a, Adt) and isinstance(b, Adt) and a.name == b.name == OPTION and (a.fields or b.fields):
        # Option<T> == Option<T>: None never equals Some; two Some compare their payloads (an atom named after the site)
        if a.variant != b.variant:
            return [(Const(1 if ne else 0, "bool"), st)]
        res = interp.opaque_call(fn["path"], [a.fields[0], b.fields[0]], st, site, frame)
        return res
    if isinstance(a, Adt) and isinstance(b, Adt) and not a.fields and not b.fields and a.name == b.name:
        r = (a.variant == b.variant)
        return [(Const(1 if (r != ne) else 0, "bool"), st)]
    if isinstance(a, Const) and isinstance(b, Const):
        r = (a.v == b.v)
        return [(Const(1 if (r != ne) else 0, "bool"), st)]
    # unknown enum operand of a small field-less enum: case split so later tests agree
    for (x, y, idx) in ((a, b, 0), (b, a, 1)):
        if isinstance(x, Top) and isinstance(y, Adt) and not y.fields:
            variants = interp.variants_of(y.name)
            if variants is not None and all(not v["fields"] for v in variants) and isinstance(args[idx], Ref):
                out = []
                ref = args[idx]
                # find the innermost Ref pointing at the Top
                tgt = ref
                g = 0
                while g < 6:
                    base = st.heap.get(tgt.addr)
                    inner = interp.get_at(base, tgt.path) if base is not None else None
                    if isinstance(inner, Ref):
                        tgt = inner
                        g += 1
                        continue
                    break
                known = st.bind.get("v:%s" % x.label)
                for vix, var in enumerate(variants):
                    if known is not None and known != vix:
                        continue
                    st2 = st.fork()
                    st2.bind["v:%s" % x.label] = vix
                    val = Adt(y.name, vix, (), var["name"])
                    base = st2.heap.get(tgt.addr)
                    if base is None:
                        return None
                    st2.heap[tgt.addr] = interp.set_at(base, tgt.path, val)
                    if known is None:
                        st2.choose("variant(%s)" % x.label, var["name"])
                    r = (vix == y.variant)
                    out.append((Const(1 if (r != ne) else 0, "bool"), st2))
                return out
    return None


BASE_MODELS = [
    (r"^std::option::Option::<.*>::is_some$|^std::option::Option::<.*>::is_none$", m_opt_is_some),
    (r"^std::option::Option::<.*>::as_ref$|^std::option::Option::<.*>::as_mut$", m_opt_as_ref),
    (r"^std::option::Option::<.*>::take$", m_opt_take),
    (r"^std::option::Option::<.*>::take_if::<", m_opt_take_if),
    (r"^std::option::Option::<.*>::or$", m_opt_or),
    (r"^std::option::Option::<.*>::replace$", m_opt_replace),
    (r"^std::result::Result::<.*>::err$", m_res_err),
    (r"^std::time::Instant::checked_duration_since$", m_instant_checked_since),
    (r"^std::option::Option::<std::result::Result<.*>>::transpose$", m_opt_transpose),
    (r"^std::option::Option::<std::option::Option<.*>>::flatten$", m_opt_flatten),
    (r"^std::option::Option::<.*>::or_else", m_opt_or_else),
    (r"^std::iter::once::<.*>$|^std::iter::once$", m_iter_once),
    (r"^<std::option::Option<.*> as std::iter::IntoIterator>::into_iter$", m_opt_into_iter),
    (r"^std::option::Option::<&.*>::(cloned|copied)$", m_opt_cloned),
    (r"^std::option::Option::<.*>::ok_or_else", m_opt_ok_or_else),
    (r"^std::option::Option::<.*>::ok_or", m_opt_ok_or),
    (r"^std::option::Option::<.*>::is_some_and", m_opt_is_some_and),
    (r"^std::option::Option::<.*>::map_or_else", m_opt_map_or_else),
    (r"^std::option::Option::<.*>::map_or::", m_opt_map_or),
    (r"^std::option::Option::<.*>::unwrap_or_else", m_opt_unwrap_or_else),
    (r"^std::option::Option::<.*>::unwrap_or$", m_opt_unwrap_or),
    (r"^std::option::Option::<.*>::and_then", m_opt_and_then),
    (r"^std::option::Option::<.*>::filter", m_opt_filter),
    (r"^std::option::Option::<.*>::map::", m_opt_map),
    (r"^std::bool::<impl bool>::then_some|^core::bool::<impl bool>::then_some|bool>::then_some", m_bool_then_some),
    (r"bool>::then::<|bool>::then$", m_bool_then),
    (r"as std::ops::Try>::branch$", m_try_branch),
    (r"as std::ops::FromResidual<.*>>::from_residual$", m_from_residual),
    (r"^std::result::Result::<.*>::map_err", m_res_map_err),
    (r"^std::result::Result::<.*>::map::<", m_res_map),
    (r"^std::result::Result::<.*>::and_then", m_res_and_then),
    (r"^std::result::Result::<.*>::unwrap_or$", m_res_unwrap_or),
    (r"^std::result::Result::<.*>::ok$", m_res_ok),
    (r"^std::result::Result::<.*>::is_ok$|^std::result::Result::<.*>::is_err$", m_res_is_ok),
    (r"as std::clone::Clone>::clone$", m_clone),
    (r"^<std::time::(Instant|Duration) as std::ops::(Add|Sub|Mul)Assign<.*>>::(add|sub|mul)_assign$", m_op_assign),
    (r"^std::option::Option::<.*>::(unwrap|expect)$|^std::result::Result::<.*>::(unwrap|expect)$", m_unwrap),
    (r"^<(u8|u16|u32|u64|usize) as std::convert::TryInto<(u8|u16|u32|u64|usize)>>::try_into$|TryFrom<(u8|u16|u32|u64|usize)> for (u8|u16|u32|u64|usize)>::try_from$", m_int_try_from),
    (r"^<I as std::iter::IntoIterator>::into_iter$", m_identity),
    (r"^std::array::iter::<impl std::iter::IntoIterator for \[.*\]>::into_iter$", m_array_into_iter),
    (r"as std::iter::Iterator>::flatten$|^std::iter::Iterator::flatten$", m_iter_flatten),
    (r"as std::iter::IntoIterator>::into_iter$", m_into_iter_identity),
    (r"^<std::vec::Vec<.*> as std::iter::Extend<.*>>::extend::<", m_vec_extend),
    (r"^core::slice::<impl \[.*\]>::(iter|iter_mut)$", m_slice_iter),
    (r"^std::iter::Iterator::enumerate$|as std::iter::Iterator>::enumerate$", m_iter_enumerate),
    (r"^std::iter::Iterator::take$|as std::iter::Iterator>::take$", m_iter_take),
    (r"^std::iter::Iterator::zip$|as std::iter::Iterator>::zip(::<.*>)?$", m_iter_zip),
    (r"^std::iter::Iterator::for_each$|as std::iter::Iterator>::for_each(::<.*>)?$", m_iter_for_each),
    (r"as std::ops::Fn(Once|Mut)?<.*>>::call(_once|_mut)?$", m_fn_call),
    (r"^std::iter::Iterator::fold$|as std::iter::Iterator>::fold(::<.*>)?$", m_iter_fold),
    (r"as std::iter::Iterator>::(fold|for_each)(::<.*>)?$", m_iter_fold_loop),
    (r"as std::iter::Iterator>::try_fold::<", m_iter_try_fold_loop),
    (r"as std::iter::Iterator>::(find|any|all|position)(::<.*>)?$", m_iter_find_loop),
    (r"as std::iter::Iterator>::find_map(::<.*>)?$", m_iter_find_map_loop),
    (r"^std::collections::HashMap::<.*>::entry$", m_map_entry),
    (r"^std::collections::hash_map::OccupiedEntry::<.*>::(get_mut|get|into_mut)$", m_occupied_value),
    (r"^std::collections::hash_map::(OccupiedEntry|VacantEntry)::<.*>::key$", m_occupied_key),
    (r"^std::collections::hash_map::OccupiedEntry::<.*>::remove$", m_occupied_remove),
    (r"^std::collections::hash_map::VacantEntry::<.*>::insert$", m_vacant_insert),
    (r"^<std::iter::FromFn<.*> as std::iter::Iterator>::collect::<std::vec::Vec<.*>>$", m_from_fn_collect),
    (r"^std::iter::from_fn(::<.*>)?$|^core::iter::from_fn(::<.*>)?$", m_from_fn),
    (r"^<std::iter::FromFn<.*> as std::iter::Iterator>::next$", m_from_fn_next),
    (r"^std::iter::Iterator::chain$|as std::iter::Iterator>::chain(::<.*>)?$", m_iter_chain),
    (r"^core::slice::<impl \[.*\]>::split_at(_mut)?$", m_split_at_concrete),
    (r"^core::slice::<impl \[.*\]>::len$", m_view_len),
    (r"^core::num::<impl u\d+>::to_be_bytes$", m_to_be_bytes),
    (r"^core::num::<impl (usize|u8|u16|u32|u64)>::(min|max)$|^std::cmp::(min|max)$|as std::cmp::Ord>::(min|max)$", m_int_minmax),
    (r"^core::num::<impl (usize|u8|u16|u32|u64)>::(checked_sub|saturating_sub)$", m_int_checked_sub),
    (r"Bit(Xor|And|Or)Assign(<.*>)?>::bit(xor|and|or)_assign$", m_bitop_assign),
    (r"^core::num::<impl u\d+>::from_be_bytes$", m_from_be_bytes),
    (r"^std::iter::Iterator::skip$|as std::iter::Iterator>::skip$", m_iter_skip),
    (r"as std::iter::Iterator>::next$|^std::iter::Iterator::next$", m_iter_next),
    (r"^<std::string::String as std::ops::Deref>::deref$|^<std::vec::Vec<.*> as std::ops::Deref>::deref$", m_identity),
    (r"as std::cmp::PartialOrd<log::LevelFilter>>::le$", m_log_disabled),
    (r"^log::max_level$", m_log_max_level),
    (r"as std::ops::Deref>::deref$", None),
    (r"as std::cmp::PartialEq(<.*>)?>::(eq|ne)$", m_partial_eq),
    (r"as std::convert::Into<.*>>::into$|as std::convert::From<.*>>::from$", None),
]


def compile_models(extra=()):
    out = []
    for rx, fn in list(extra) + BASE_MODELS:
        if fn is None:
            continue
        out.append((re.compile(rx), fn))
    return out
