"""Control-flow utilities over one MIR body: successors with edge labels, dominators,
reachability with cut sets, back edges."""
from collections import defaultdict


class Cfg:
    def __init__(self, body):
        self.body = body
        n = len(body.blocks)
        self.n = n
        self.succ = [[] for _ in range(n)]     # normal (non-unwind) successors: (target, label)
        self.unwind = [None] * n
        for i, b in enumerate(body.blocks):
            t = b["term"]
            k = t["k"]
            if k == "goto":
                self.succ[i].append((t["target"], None))
            elif k == "switch":
                for val, tgt in t["targets"]:
                    self.succ[i].append((tgt, ("eq", int(val))))
                self.succ[i].append((t["otherwise"], ("otherwise", [int(v) for v, _ in t["targets"]])))
            elif k in ("call",):
                if t.get("target") is not None:
                    self.succ[i].append((t["target"], None))
                self.unwind[i] = t.get("unwind")
            elif k in ("drop", "assert"):
                self.succ[i].append((t["target"], None))
                self.unwind[i] = t.get("unwind")
            # return / unreachable / resume / abort / tailcall: no successors
        self.pred = [[] for _ in range(n)]
        for i in range(n):
            for (t, _l) in self.succ[i]:
                self.pred[t].append(i)
        self._dom = None
        self._back = None

    def targets(self, i):
        return [t for (t, _l) in self.succ[i]]

    def is_cleanup(self, i):
        return self.body.blocks[i]["cleanup"]

    def reachable(self, start=0, cut_blocks=(), cut_edges=()):
        """blocks reachable from `start` along normal edges, never entering a block in cut_blocks
        and never following an edge in cut_edges (set of (src, dst))."""
        cut_blocks = set(cut_blocks)
        cut_edges = set(cut_edges)
        if start in cut_blocks:
            return set()
        seen = {start}
        stack = [start]
        while stack:
            b = stack.pop()
            for (t, _l) in self.succ[b]:
                if t in seen or t in cut_blocks or (b, t) in cut_edges:
                    continue
                seen.add(t)
                stack.append(t)
        return seen

    def reachable_from_many(self, starts, cut_blocks=(), cut_edges=()):
        out = set()
        for s in starts:
            if s not in out:
                out |= self.reachable(s, cut_blocks, cut_edges)
        return out

    def find_path(self, start, goal_blocks, cut_blocks=(), cut_edges=()):
        """shortest block path from start to any goal (BFS) or None."""
        goal_blocks = set(goal_blocks)
        cut_blocks = set(cut_blocks)
        cut_edges = set(cut_edges)
        if start in cut_blocks:
            return None
        prev = {start: None}
        q = [start]
        qi = 0
        while qi < len(q):
            b = q[qi]
            qi += 1
            if b in goal_blocks:
                path = []
                while b is not None:
                    path.append(b)
                    b = prev[b]
                return path[::-1]
            for (t, _l) in self.succ[b]:
                if t in prev or t in cut_blocks or (b, t) in cut_edges:
                    continue
                prev[t] = b
                q.append(t)
        return None

    def back_edges(self):
        """edges (u, v) where v dominates u."""
        if self._back is None:
            dom = self.dominators()
            out = set()
            for u in range(self.n):
                if u not in dom:
                    continue
                for (v, _l) in self.succ[u]:
                    if v in dom[u]:
                        out.add((u, v))
            self._back = out
        return self._back

    def dominators(self):
        """dict block -> set of dominators (reachable blocks only)."""
        if self._dom is None:
            reach = self.reachable(0)
            order = self._rpo(reach)
            dom = {b: set(reach) for b in reach}
            dom[0] = {0}
            changed = True
            while changed:
                changed = False
                for b in order:
                    if b == 0:
                        continue
                    ps = [p for p in self.pred[b] if p in reach]
                    new = None
                    for p in ps:
                        new = set(dom[p]) if new is None else (new & dom[p])
                    new = (new or set()) | {b}
                    if new != dom[b]:
                        dom[b] = new
                        changed = True
            self._dom = dom
        return self._dom

    def dominates(self, a, b):
        d = self.dominators()
        return b in d and a in d[b]

    def _rpo(self, reach):
        seen = set()
        post = []
        stack = [(0, iter(self.targets(0)))]
        seen.add(0)
        while stack:
            b, it = stack[-1]
            adv = False
            for t in it:
                if t in reach and t not in seen:
                    seen.add(t)
                    stack.append((t, iter(self.targets(t))))
                    adv = True
                    break
            if not adv:
                post.append(b)
                stack.pop()
        return post[::-1]

    def loop_heads(self):
        return sorted({v for (_u, v) in self.back_edges()})

    def natural_loop(self, head):
        """blocks of the natural loop(s) with header `head`."""
        body = {head}
        stack = [u for (u, v) in self.back_edges() if v == head]
        while stack:
            b = stack.pop()
            if b in body:
                continue
            body.add(b)
            stack.extend(self.pred[b])
        return body


def cfg_of(body):
    if body._cfg is None:
        body._cfg = Cfg(body)
    return body._cfg


# ---------------------------------------------------------------------------------------------
# liveness of locals (used to keep dead temporaries out of loop-head state keys)

def _place_uses(place, out):
    out.add(place["l"])
    for e in place["p"]:
        if e["k"] == "index":
            out.add(e["local"])


def _op_uses(op, out):
    if op is not None and op["k"] in ("copy", "move"):
        _place_uses(op["place"], out)


def _rv_uses(rv, out, borrowed):
    k = rv["k"]
    if k in ("use", "cast", "repeat"):
        _op_uses(rv.get("op"), out)
    elif k == "binop":
        _op_uses(rv["a"], out)
        _op_uses(rv["b"], out)
    elif k == "unop":
        _op_uses(rv["a"], out)
    elif k == "aggregate":
        for o in rv["ops"]:
            _op_uses(o, out)
    elif k in ("ref", "rawptr"):
        _place_uses(rv["place"], out)
        if not any(e["k"] == "deref" for e in rv["place"]["p"]):
            borrowed.add(rv["place"]["l"])
    elif k == "discr":
        _place_uses(rv["place"], out)


def liveness(body):
    """block index -> set of locals live at block entry.  Locals whose address is taken are
    conservatively live everywhere (a reference may be read later)."""
    if getattr(body, "_live", None) is not None:
        return body._live
    cfg = cfg_of(body)
    n = cfg.n
    use = [set() for _ in range(n)]
    deff = [set() for _ in range(n)]
    borrowed = set()
    for bi, b in enumerate(body.blocks):
        u, d = use[bi], deff[bi]
        for s in b["stmts"]:
            if s["k"] != "assign":
                if s["k"] == "setdiscr":
                    tmp = set()
                    _place_uses(s["place"], tmp)
                    u |= (tmp - d)
                continue
            tmp = set()
            _rv_uses(s["rv"], tmp, borrowed)
            pl = s["place"]
            if pl["p"]:
                _place_uses(pl, tmp)      # partial write: the rest of the local stays
            u |= (tmp - d)
            if not pl["p"]:
                d.add(pl["l"])
        t = b["term"]
        tmp = set()
        k = t["k"]
        if k == "switch":
            _op_uses(t["discr"], tmp)
        elif k in ("call", "tailcall"):
            _op_uses(t["func"], tmp)
            for a in t["args"]:
                _op_uses(a, tmp)
            u |= (tmp - d)
            tmp = set()
            dst = t.get("dest")
            if dst is not None:
                if dst["p"]:
                    _place_uses(dst, tmp)
                else:
                    d.add(dst["l"])
        elif k == "drop":
            _place_uses(t["place"], tmp)
        elif k == "assert":
            _op_uses(t["cond"], tmp)
        elif k == "return":
            tmp.add(0)
        u |= (tmp - d)
    live_in = [set() for _ in range(n)]
    changed = True
    while changed:
        changed = False
        for bi in range(n - 1, -1, -1):
            out = set()
            for (tgt, _l) in cfg.succ[bi]:
                out |= live_in[tgt]
            new = use[bi] | (out - deff[bi])
            if new != live_in[bi]:
                live_in[bi] = new
                changed = True
    res = {bi: (live_in[bi] | borrowed) for bi in range(n)}
    try:
        body._live = res
    except AttributeError:
        pass
    return res
