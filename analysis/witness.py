"""E5 runner: compile-fail witnesses (+ compiling twins) of /verif/witness, thorough tier only."""
import os, shutil, subprocess, re
VERIF = os.path.dirname(os.path.dirname(os.path.abspath(__file__)))


def run(ctx, rule, names):
    """run the doc-tests of the witness crate; one obligation per witness and per twin named in `names`"""
    wdir = os.path.join(VERIF, "witness")
    shutil.copyfile("/repo/Cargo.lock", os.path.join(wdir, "Cargo.lock"))
    env = dict(os.environ, CARGO_TARGET_DIR=os.path.join(VERIF, ".cache", "witness-target"), CARGO_NET_OFFLINE="true")
    r = subprocess.run(["cargo", "+nightly", "test", "--doc", "--offline"], cwd=wdir, env=env,
                       stdout=subprocess.PIPE, stderr=subprocess.STDOUT, text=True)
    res = {}
    for line in r.stdout.splitlines():
        m = re.match(r"test src/lib.rs - (W\d+) \(line (\d+)\)( - compile fail)? \.\.\. (\w+)", line)
        if m:
            res.setdefault(m.group(1), []).append(("witness" if m.group(3) else "twin", m.group(4)))
    for n in names:
        got = res.get(n, [])
        kinds = dict(got)
        ctx.ob(rule, "witness:%s" % n, kinds.get("witness") == "ok",
               "compile-fail witness %s: %s (the offending program does not type-check, with the expected error code)" % (n, kinds.get("witness")))
        ctx.ob(rule, "twin:%s" % n, kinds.get("twin") == "ok",
               "compiling twin of %s: %s (the same program without the offending line builds and runs)" % (n, kinds.get("twin")))
    if not res:
        ctx.violation(rule, "witness-run", "witness crate did not run: %s" % r.stdout[-600:])
