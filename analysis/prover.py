"""E1 discharge: a small symbolic prover for panic sites inside one MIR body.

Values are normalised to linear forms  c + sum(k_i * v_i)  over *stable variables* (a local that is
assigned exactly once, a function argument, or - for a site and a fact that mention the same
multiply-assigned local - that local, provided it is not reassigned on any path between the fact
and the site).  All variables are unsigned, hence >= 0.  Facts come from dominating successful
`check_buffer_boundaries(s, n)?` calls (len(s) >= n), from array types and constant sub-ranges (exact
lengths) and from integer types / masks (upper bounds).  No solver: comparisons are syntactic on
the normal forms.
"""
import re
from .mirq import q_of, Origin
from .cfg import cfg_of
from .facts import const_int

U64 = (1 << 64) - 1
CHECK_RX = re.compile(r"^stun_rs::common::check_buffer_boundaries$")
# encoder contract (verified per impl by verify_encode_contract, C14 R14.4): Ok(n) => n <= len(output slice)
ENC_SLICE_RX = re.compile(r" as stun_rs::Encode>::encode$|impl stun_rs::Encode for .*>::encode$|^stun_rs::common::fill_padding_value$")
ENC_CTX_RX = re.compile(r" as stun_rs::attributes::EncodeAttributeValue>::encode$")
XOR_ENC_RX = re.compile(r"^stun_rs::common::xor_encode$")


def enc_slice_arg(path):
    """index of the output-slice argument of a contract encoder taking the slice directly, else None"""
    if XOR_ENC_RX.search(path):
        return 2
    if ENC_SLICE_RX.search(path) and not path.endswith("fill_padding_value"):
        return 1
    return None
CTX_NEW_RX = re.compile(r"AttributeEncoderContext::<'\w+>::new$")


class Lin:
    __slots__ = ("c", "t")

    def __init__(self, c=0, t=None):
        self.c = c
        self.t = dict(t or {})

    def add(self, o):
        t = dict(self.t)
        for k, v in o.t.items():
            t[k] = t.get(k, 0) + v
            if t[k] == 0:
                del t[k]
        return Lin(self.c + o.c, t)

    def sub(self, o):
        return self.add(o.scale(-1))

    def scale(self, k):
        return Lin(self.c * k, {a: b * k for a, b in self.t.items() if b * k != 0})

    def is_const(self):
        return not self.t

    def nonneg(self):
        """>= 0 for every valuation of the (unsigned) variables"""
        return self.c >= 0 and all(v >= 0 for v in self.t.values())

    def key(self):
        return (self.c, tuple(sorted(self.t.items(), key=repr)))

    def __repr__(self):
        s = [str(self.c)] if self.c or not self.t else []
        for k, v in sorted(self.t.items(), key=repr):
            s.append(("%d*" % v if v != 1 else "") + str(k))
        return " + ".join(s)


def le(a, b):
    """a <= b for all valuations"""
    return b.sub(a).nonneg()


_RET_LB = {}


def _cparam_of_call(c):
    """the value of the single const generic argument of a call (`f::<2>(..)`), or None"""
    fn = getattr(c, "fn", None) or {}
    vals = [int(m.group(1)) for m in (re.match(r"const (\d+)$", str(a)) for a in (fn.get("rargs") or fn.get("args") or [])) if m]
    return vals[0] if len(vals) == 1 else None


def fn_return_lb(body, depth=0, ok_payload=False, cparam=None):
    """a lower bound of the unsigned integer a workspace function returns (min over the values assigned
    to its return place; a multiply-assigned local contributes the min over its definitions); with
    ok_payload: of the usize inside the Ok(..) it returns (Err returns are ignored; forwarded results of
    other workspace functions are followed)"""
    ck = (body.key, ok_payload, cparam)
    if ck in _RET_LB:
        return _RET_LB[ck]
    _RET_LB[ck] = 0
    pr = Prover(body)
    if ok_payload:
        vals = []

        def ok_def(d, dd=0):
            if dd > 5:
                vals.append(0)
                return
            if d.kind == "assign":
                rv = d.rv
                if rv["k"] == "aggregate" and rv.get("adt", "").endswith("::Result"):
                    if rv["variant_name"] == "Ok":
                        op = rv["ops"][0]
                        if op["k"] == "const":
                            v = const_int(op)
                            if v is None and cparam is not None and not any(k_ in op for k_ in ("bits", "named", "fn", "str", "promoted")):
                                v = cparam              # `Ok(N)` in a function generic over N, called as f::<cparam>
                            vals.append(v if v is not None and v >= 0 else 0)
                        elif op["k"] == "const" or op["place"]["p"]:
                            vals.append(0)
                        else:
                            lin = pr.lin_local(op["place"]["l"])
                            vals.append(pr.lb_lin(lin, depth + 1) if lin is not None else 0)
                    return
                if rv["k"] == "use" and rv["op"]["k"] in ("copy", "move") and not rv["op"]["place"]["p"]:
                    for d2 in pr.q.whole_defs(rv["op"]["place"]["l"]):
                        ok_def(d2, dd + 1)
                    return
                vals.append(0)
            elif d.kind == "call":
                c = d.call
                if re.search(r"FromResidual<.*>>::from_residual$", c.full) or re.search(r"from_residual$", c.callee_path):
                    return
                cb = body.prog.bodies.get(c.callee_key) if c.resolved else None
                vals.append(fn_return_lb(cb, depth + 1, ok_payload=True, cparam=_cparam_of_call(c)) if cb is not None and depth < 4 else 0)
            else:
                vals.append(0)
        for d in pr.q.whole_defs(0):
            ok_def(d)
        r = min(vals) if vals else 0
        if r == 0 and body.crate == "stun_rs" and len(body.blocks) <= 40 and depth <= 1:
            # the MIR-level bound is lost when the size comes back from a helper (`Ok(bytes.len())` with
            # bytes = x.to_be_bytes()): evaluate the Ok values of the small function by abstract interpretation instead
            try:
                from . import client as C_, linproof as LP_
                paths, info = C_.explore_fn(body.prog, body.path, "x", [r"\{closure"], memo_shared=True, max_paths=200)
                cs = []
                for pa in paths:
                    rr = C_.expr_of(pa, pa.ret)
                    if isinstance(rr, tuple) and rr and rr[0] == "Result::Ok" and len(rr) > 1:
                        d_ = LP_.Lin().lin(rr[1])
                        cs.append(int(d_.get(1, 0)) if all(k_ == 1 for k_ in d_) else 0)
                if cs and not info["bounded"]:
                    r = max(r, min(cs))
            except Exception:
                pass
        _RET_LB[ck] = r
        return r

    def lb_local(l, seen):
        if l in seen:
            return 0
        seen = seen | {l}
        ds = pr.q.whole_defs(l)
        if not ds or any(d.kind != "assign" for d in ds):
            return 0
        vals = []
        for d in ds:
            vals.append(lb_rv(d.rv, seen))
        return min(vals)

    def lb_op(op, seen):
        if op["k"] == "const":
            v = const_int(op)
            return v if v is not None and v >= 0 else 0
        pl = op["place"]
        if pl["p"]:
            if len(pl["p"]) == 1 and pl["p"][0]["k"] == "field" and pl["p"][0]["i"] == 0:
                d = pr.q.single_def(pl["l"])
                if d is not None and d.kind == "assign" and d.rv["k"] == "binop" and d.rv["op"].endswith("WithOverflow"):
                    return lb_rv(d.rv, seen)
            return 0
        return lb_local(pl["l"], seen)

    def lb_rv(rv, seen):
        if rv["k"] == "use":
            return lb_op(rv["op"], seen)
        if rv["k"] == "binop":
            op = rv["op"].replace("WithOverflow", "").replace("Unchecked", "")
            if op == "Add":
                return lb_op(rv["a"], seen) + lb_op(rv["b"], seen)
            if op == "Mul":
                return lb_op(rv["a"], seen) * lb_op(rv["b"], seen)
        if rv["k"] == "cast" and rv["cast"] == "IntToInt":
            return lb_op(rv["op"], seen)
        return 0

    r = lb_local(0, frozenset())
    _RET_LB[ck] = r
    return r


class Prover:
    def __init__(self, body):
        self.body = body
        self.q = q_of(body)
        self.cfg = cfg_of(body)
        self._facts = None
        self._ub_cache = {}
        self.at = None

    # ------------------------------------------------------------------ integer normal forms
    @staticmethod
    def _idx(d):
        return d.idx if isinstance(d.idx, int) else 10 ** 6

    def _before(self, d, at):
        if d.block == at[0]:
            return self._idx(d) < at[1]
        return self.cfg.dominates(d.block, at[0])

    def reaching_def(self, l, at):
        """the unique definition of local l that reaches position at=(block, stmt index): it precedes the
        position on every path and no other definition can execute in between; else None"""
        ds = self.q.whole_defs(l)
        if any(d.kind == "arg" for d in ds):
            return None
        cands = [d for d in ds if self._before(d, at)]
        best = None
        for d in cands:
            if all(o is d or self._before(o, (d.block, self._idx(d))) for o in cands):
                best = d
        if best is None:
            return None
        bpos = (best.block, self._idx(best))
        if best.block == at[0]:
            # straight-line code between the definition and the use
            if any(o is not best and o.block == at[0] and bpos[1] < self._idx(o) < at[1] for o in ds):
                return None
            return best
        # a definition invalidates only if it can execute after `best` and before `at` without passing
        # through `best` again (a path that re-executes `best` re-establishes it)
        cut = {best.block} if best.block != at[0] else set()
        fwd = self.cfg.reachable_from_many(self.cfg.targets(best.block), cut_blocks=cut) if cut else self.cfg.reachable(best.block)
        cyc = (not cut) and any(at[0] in self.cfg.reachable(t) for t in self.cfg.targets(at[0]))
        for o in ds:
            if o is best:
                continue
            oi = self._idx(o)
            if o.block == best.block and o.block == at[0]:
                if bpos[1] < oi < at[1] or (cyc and (oi >= at[1] or oi < bpos[1])):
                    return None
            elif o.block == best.block:
                if oi > bpos[1]:
                    return None
            elif o.block == at[0]:
                if oi < at[1]:
                    return None
            else:
                if o.block in fwd and at[0] in self.cfg.reachable(o.block, cut_blocks=cut):
                    return None
        return best

    def lin_op(self, op, depth=0):
        if op["k"] == "const":
            v = const_int(op)
            if v is None:
                # an unevaluated integer constant (a const generic parameter of this function): one unknown, the same
                # everywhere in the body
                if not any(k_ in op for k_ in ("bits", "named", "fn", "str", "promoted", "fval")) and \
                        self.body.tystr(op["ty"]) in ("usize", "u8", "u16", "u32", "u64"):
                    return Lin(0, {("cparam", self.body.tystr(op["ty"])): 1})
                return None
            return Lin(v)
        pl = op["place"]
        if pl["p"]:
            # tuple field of a checked-arithmetic result: (_x.0)
            if len(pl["p"]) == 1 and pl["p"][0]["k"] == "field" and pl["p"][0]["i"] == 0:
                d = self.q.single_def(pl["l"])
                if d is not None and d.kind == "assign" and d.rv["k"] == "binop" and d.rv["op"].endswith("WithOverflow"):
                    save = self.at
                    if self.at is not None:
                        self.at = (d.block, self._idx(d))
                    try:
                        return self.lin_rv(d.rv, depth + 1)
                    finally:
                        self.at = save
            return Lin(0, {("place", repr(self.q.resolve_place(pl))): 1}) if self._stable_place(pl) else None
        return self.lin_local(pl["l"], depth)

    def _stable_place(self, pl):
        # a field of an argument-rooted place that is never written in this body
        root = self.q.resolve_place(pl)
        if root["l"] < 1 or root["l"] > self.body.arg_count:
            return False
        for ds in self.q.defs.get(root["l"], []):
            if ds.kind != "arg":
                return False
        # writes through the reference
        for bi, b in enumerate(self.body.blocks):
            for s in b["stmts"]:
                if s["k"] == "assign" and s["place"]["l"] == root["l"] and s["place"]["p"]:
                    return False
        return True

    def lin_local(self, l, depth=0):
        if depth > 12:
            return None
        d = self.q.single_def(l)
        if d is None and self.at is not None:
            rd = self.reaching_def(l, self.at)
            if rd is not None and rd.kind == "assign":
                save = self.at
                self.at = (rd.block, self._idx(rd))
                try:
                    r = self.lin_rv(rd.rv, depth + 1)
                finally:
                    self.at = save
                if r is not None:
                    return r
        if d is None:
            return Lin(0, {("multi", l, self.at): 1})
        if d.kind == "arg":
            return Lin(0, {("v", l): 1})
        if d.kind == "call":
            c = d.call
            if re.search(r"as std::convert::(Into|From)<.*>>::(into|from)$|<impl std::convert::From<\w+> for \w+>::from$", c.callee_path) and len(c.args) == 1:
                a = c.args[0]
                ta = self.body.ty(a["ty"]) if a["k"] == "const" else (self.body.local_ty(a["place"]["l"]) if not a["place"]["p"] else {})
                tr = self.body.local_ty(l)
                if ta.get("k") == "int" and tr.get("k") == "int" and not ta.get("signed") and not tr.get("signed") and tr["bits"] >= ta["bits"]:
                    save = self.at
                    if self.at is not None:
                        self.at = (d.block, 10 ** 6)
                    try:
                        r = self.lin_op(a, depth + 1)
                    finally:
                        self.at = save
                    if r is not None:
                        return r
            return Lin(0, {("v", l): 1})
        rv = d.rv
        save = self.at
        if self.at is not None:
            self.at = (d.block, self._idx(d))
        try:
            r = self.lin_rv(rv, depth + 1)
        finally:
            self.at = save
        if r is None or any(v[0] == "place" for v in r.t):
            return Lin(0, {("v", l): 1})
        return r

    def lin_rv(self, rv, depth=0):
        k = rv["k"]
        if k == "use":
            return self.lin_op(rv["op"], depth)
        if k == "cast" and rv["cast"] in ("IntToInt",):
            frm = self.body.ty(rv["from"])
            to = self.body.ty(rv["to"])
            if frm.get("k") == "int" and to.get("k") == "int" and not frm.get("signed") and to["bits"] >= frm["bits"]:
                return self.lin_op(rv["op"], depth)
            return None
        if k == "binop":
            op = rv["op"].replace("WithOverflow", "").replace("Unchecked", "")
            a = self.lin_op(rv["a"], depth)
            b = self.lin_op(rv["b"], depth)
            if a is None or b is None:
                return None
            if op == "Add":
                return a.add(b)
            if op == "Sub":
                return a.sub(b)       # value of a - b whenever the subtraction does not overflow (its own assert is a separate site)
            if op == "Mul":
                if a.is_const():
                    return b.scale(a.c)
                if b.is_const():
                    return a.scale(b.c)
            return None
        return None

    def fold_bool(self, op):
        if op["k"] == "const":
            v = const_int(op)
            return bool(v) if v is not None else None
        if op["place"]["p"]:
            return None
        d = self.q.single_def(op["place"]["l"])
        if d is None or d.kind != "assign":
            return None
        rv = d.rv
        if rv["k"] == "binop" and rv["op"] in ("Eq", "Ne", "Lt", "Le", "Gt", "Ge"):
            a, b = self.lin_op(rv["a"]), self.lin_op(rv["b"])
            if a is not None and b is not None and a.is_const() and b.is_const():
                x, y = a.c, b.c
                return {"Eq": x == y, "Ne": x != y, "Lt": x < y, "Le": x <= y, "Gt": x > y, "Ge": x >= y}[rv["op"]]
        if rv["k"] == "use":
            return self.fold_bool(rv["op"])
        return None

    def no_def_between(self, l, p1, p2):
        """p1 precedes p2 on every path and local l cannot be assigned between them (paths that pass p1
        again are cut there): then l has the same value at p2 as at the latest p1"""
        if p1 is None or p2 is None:
            return False
        if p1 == p2:
            return True
        b1, i1 = p1
        b2, i2 = p2
        if b1 == b2:
            if i1 > i2:
                return False
        elif not self.cfg.dominates(b1, b2):
            return False
        ds = self.q.whole_defs(l)
        if b1 == b2:
            return not any(d.block == b1 and i1 <= self._idx(d) < i2 for d in ds)
        fwd = self.cfg.reachable_from_many(self.cfg.targets(b1), cut_blocks={b1})
        for d in ds:
            di = self._idx(d)
            if d.block == b1:
                if di >= i1:
                    return False
            elif d.block == b2:
                if di < i2:
                    return False
            elif d.block in fwd and b2 in self.cfg.reachable(d.block, cut_blocks={b1}):
                return False
        return True

    def unify(self, a, b):
        """rename position-tagged multi variables of b to those of a when they denote the same value"""
        if a is None or b is None:
            return a, b
        ma = [v for v in a.t if v[0] == "multi"]
        mb = [v for v in b.t if v[0] == "multi"]
        ren = {}
        for vb in mb:
            for va in ma:
                if va[1] == vb[1] and va != vb and (self.no_def_between(vb[1], vb[2], va[2]) or self.no_def_between(va[1], va[2], vb[2])):
                    ren[vb] = va
        if not ren:
            return a, b
        t = {}
        for k, v in b.t.items():
            k2 = ren.get(k, k)
            t[k2] = t.get(k2, 0) + v
        return a, Lin(b.c, t)

    def le(self, a, b):
        a, b = self.unify(a, b)
        return le(a, b)

    # ------------------------------------------------------------------ upper bounds
    def ub_lin(self, lin):
        if lin is None:
            return None
        tot = lin.c
        for var, k in lin.t.items():
            if k < 0:
                return None
            u = self.ub_var(var)
            if u is None:
                return None
            tot += k * u
        return tot

    def ub_var(self, var):
        if var in self._ub_cache:
            return self._ub_cache[var]
        self._ub_cache[var] = None
        r = self._ub_var(var)
        self._ub_cache[var] = r
        return r

    def _ub_var(self, var):
        kind = var[0]
        if kind in ("v", "multi"):
            l = var[1]
            ty = self.body.local_ty(l)
            tyub = (1 << ty["bits"]) - 1 if ty.get("k") == "int" and not ty.get("signed") else None
            if kind == "multi":
                return tyub
            d = self.q.single_def(l)
            if d is None:
                return tyub
            if d.kind == "call":
                p = d.call.callee_path
                if re.search(r"slice::<impl \[.*\]>::len$|str::<impl str>::len$|Vec::<.*>::len$|String::len$", p):
                    return (1 << 63) - 1
                if re.search(r"^stun_rs::common::padding$", p):
                    return 3
                if re.search(r"as std::convert::(Into|From)<.*>>::(into|from)$|<impl std::convert::From<\w+> for \w+>::from$", p) and len(d.call.args) == 1 and tyub is not None:
                    # widening (or same-width) conversion between unsigned integers: value-preserving
                    a = d.call.args[0]
                    if a["k"] == "const":
                        ta = self.body.ty(a["ty"])
                    elif not a["place"]["p"]:
                        ta = self.body.local_ty(a["place"]["l"])
                    else:
                        last = a["place"]["p"][-1]
                        ta = self.body.ty(last["ty"]) if last.get("ty") is not None else {}
                    if ta.get("k") == "int" and not ta.get("signed") and ta["bits"] <= ty["bits"]:
                        u = self.ub_op(a)
                        tb = (1 << ta["bits"]) - 1
                        return min(u, tb) if u is not None else tb
                return tyub
            if d.kind == "assign":
                u = self.ub_rv(d.rv)
                if u is not None and (tyub is None or u < tyub):
                    return u
            return tyub
        return None

    def ub_op(self, op):
        if op["k"] == "const":
            return const_int(op)
        pl = op["place"]
        if pl["p"]:
            # the index of an item of `slice.iter().enumerate()` (`(next() as Some).0.0`): below the length of a slice
            pr = pl["p"]
            if len(pr) == 3 and pr[0]["k"] == "downcast" and pr[0].get("name") == "Some" and pr[1]["k"] == "field" and pr[1]["i"] == 0 \
                    and pr[2]["k"] == "field" and pr[2]["i"] == 0:
                d = self.q.single_def(pl["l"])
                if d is not None and d.kind == "call" and re.match(
                        r"^<std::iter::Enumerate<std::slice::(Iter|IterMut|ChunksExact|ChunksExactMut|Chunks|ChunksMut)<.*>> as std::iter::Iterator>::next$", d.call.full):
                    return (1 << 63) - 1
            # field of a struct: bound by its type
            last = pl["p"][-1]
            if last["k"] == "field" and "ty" in last:
                t = self.body.ty(last["ty"])
                if t.get("k") == "int" and not t.get("signed"):
                    return (1 << t["bits"]) - 1
            return None
        lin = self.lin_local(pl["l"])
        return self.ub_lin(lin)

    def ub_rv(self, rv):
        k = rv["k"]
        if k == "use":
            return self.ub_op(rv["op"])
        if k == "cast" and rv["cast"] == "IntToInt":
            frm = self.body.ty(rv["from"])
            u = self.ub_op(rv["op"])
            fb = (1 << frm["bits"]) - 1 if frm.get("k") == "int" and not frm.get("signed") else None
            to = self.body.ty(rv["to"])
            tb = (1 << to["bits"]) - 1 if to.get("k") == "int" and not to.get("signed") else None
            cands = [x for x in (u, fb) if x is not None]
            if not cands:
                return tb
            m = min(cands)
            if tb is not None and m > tb:
                return tb        # truncation
            return m
        if k == "binop":
            op = rv["op"].replace("WithOverflow", "").replace("Unchecked", "")
            a, b = self.ub_op(rv["a"]), self.ub_op(rv["b"])
            if op == "BitAnd":
                c = [x for x in (a, b) if x is not None]
                return min(c) if c else None
            if op == "Rem" and b is not None and b > 0:
                return b - 1
            if op == "Shr":
                sh = const_int(rv["b"])
                if a is not None and sh is not None:
                    return a >> sh
                return a
            if op in ("BitOr", "BitXor") and a is not None and b is not None:
                return (1 << max(a.bit_length(), b.bit_length())) - 1
            if op == "Add" and a is not None and b is not None:
                return a + b
            if op == "Mul" and a is not None and b is not None:
                return a * b
            if op == "Sub":
                return a
            if op == "Div":
                d = const_int(rv["b"])
                if a is not None and d:
                    return a // d
                return a
        if k == "unop" and rv["op"] == "PtrMetadata":
            return (1 << 63) - 1
        return None

    # ------------------------------------------------------------------ lower bounds
    def lb_lin(self, lin, depth=0):
        if lin is None:
            return 0
        tot = lin.c
        for var, k in lin.t.items():
            if k < 0:
                return 0
            tot += k * self.lb_var(var, depth)
        return max(tot, 0)

    def lb_var(self, var, depth=0):
        if depth > 4 or var[0] != "v":
            return 0
        d = self.q.single_def(var[1])
        if d is not None and d.kind == "assign" and d.rv["k"] == "use" and d.rv["op"]["k"] in ("copy", "move"):
            pl = d.rv["op"]["place"]
            if pl["p"] and pl["p"][0]["k"] == "downcast" and pl["p"][0].get("name") == "Continue":
                # payload of `callee(..)?`: lower bound of the callee's Ok payload
                bd = self.q.single_def(pl["l"])
                if bd is not None and bd.kind == "call" and re.search(r"as std::ops::Try>::branch$", bd.call.callee_path):
                    cur = bd.call.args[0]
                    for _ in range(3):
                        if cur["k"] == "const" or cur["place"]["p"]:
                            break
                        cd = self.q.single_def(cur["place"]["l"])
                        if cd is None or cd.kind != "call":
                            break
                        if re.search(r"Result::<.*>::map_err", cd.call.full):
                            cur = cd.call.args[0]
                            continue
                        body = self.body.prog.bodies.get(cd.call.callee_key) if cd.call.resolved else None
                        if body is not None:
                            return fn_return_lb(body, depth + 1, ok_payload=True)
                        break
            return 0
        if d is None or d.kind != "call":
            return 0
        body = self.body.prog.bodies.get(d.call.callee_key) if d.call.resolved else None
        if body is None:
            return 0
        return fn_return_lb(body, depth + 1)

    # ------------------------------------------------------------------ slices
    def slice_root(self, op):
        """identity of the slice a reference operand points to: ('place', repr) / ('call', block) / None,
        plus a constant offset description when it is a sub-range of another slice"""
        outs = self.q.origins(op)
        if len(outs) != 1:
            return None
        o = outs[0]
        if o.kind == "place":
            pl = self.q.resolve_place(o.place)
            if len(pl["p"]) == 1 and pl["p"][0]["k"] == "deref":
                d = self.q.single_def(pl["l"])
                if d is not None and d.kind == "call":
                    return self._call_root(d.call)
                if d is not None and d.kind == "assign" and d.rv["k"] == "use" and d.rv["op"]["k"] != "const":
                    return self.slice_root(d.rv["op"])
            return ("place", repr(pl))
        if o.kind == "arg":
            return ("place", repr({"l": o.local, "p": [{"k": "deref"}]})) if False else ("arg", o.local)
        if o.kind == "call":
            return self._call_root(o.call)
        return None

    def _call_root(self, c):
        if True:
            m = re.search(r"Attribute(Encoder|Decoder)Context::<'\w+>::(raw_value_mut|raw_value|encoded_message|decoded_message)$", c.callee_path)
            if m and c.args:
                recv = self.q.borrowed_root(c.args[0])
                if recv is not None:
                    fld = {"raw_value_mut": "raw_value", "raw_value": "raw_value"}.get(m.group(2), m.group(2))
                    return ("accessor", repr(self.q.resolve_place(recv)), fld)
            return ("call", c.block)
        return None

    def same_slice(self, a, b):
        ra, rb = self.slice_root(a), self.slice_root(b)
        if ra is None or rb is None:
            return False
        if ra == rb:
            return True
        # an argument local and the place (*arg) are the same slice
        norm = lambda r: ("arg", eval(r[1])["l"]) if r[0] == "place" and eval(r[1])["p"] == [{"k": "deref"}] and 1 <= eval(r[1])["l"] <= self.body.arg_count else r
        try:
            return norm(ra) == norm(rb)
        except Exception:
            return False

    def exact_len(self, op, depth=0):
        """exact length (Lin) of the slice/array a reference operand points to, if known"""
        if depth > 6 or op["k"] == "const":
            if op["k"] == "const":
                t = self.body.ty(op["ty"])
                return self._len_of_ref_type(t)
            return None
        pl = op["place"]
        if len(pl["p"]) == 1 and pl["p"][0]["k"] == "field" and pl["p"][0].get("index", pl["p"][0].get("i")) in (0, 1):
            # the halves of `s.split_at(mid)` / `s.split_at_mut(mid)`: len(.0) = mid, len(.1) = len(s) - mid
            d = self.q.single_def(pl["l"])
            if d is not None and d.kind == "call" and re.search(r"slice::<impl \[.*\]>::split_at(_mut)?$", d.call.callee_path):
                mid = self.lin_op(d.call.args[1])
                if mid is None:
                    return None
                if pl["p"][0].get("index", pl["p"][0].get("i")) == 0:
                    return mid
                whole = self.exact_len(d.call.args[0], depth + 1)
                return whole.sub(mid) if whole is not None else None
            return None
        if not pl["p"]:
            t = self.body.local_ty(pl["l"])
            n = self._len_of_ref_type(t)
            if n is not None:
                return n
            d = self.q.single_def(pl["l"])
            if d is None:
                return None
            if d.kind == "assign":
                rv = d.rv
                if rv["k"] == "use":
                    return self.exact_len(rv["op"], depth + 1)
                if rv["k"] == "cast" and rv["cast"].startswith("PointerCoercion"):
                    n = self._len_of_ref_type(self.body.ty(rv["from"]))
                    if n is not None:
                        return n
                    return self.exact_len(rv["op"], depth + 1)
                if rv["k"] == "ref":
                    p = rv["place"]
                    if not p["p"]:
                        t = self.body.local_ty(p["l"])
                        if t.get("k") == "array" and t.get("len") is not None:
                            return Lin(t["len"])
                        if t.get("k") == "ref":
                            return self.exact_len({"k": "copy", "place": {"l": p["l"], "p": []}}, depth + 1)
                        if t.get("k") == "adt" and t.get("name", "").endswith("::Vec"):
                            dv = self.q.whole_defs(p["l"])
                            if len(dv) == 1 and dv[0].kind == "call" and re.search(r"slice::<impl \[.*\]>::to_vec$", dv[0].call.callee_path):
                                return self.exact_len(dv[0].call.args[0], depth + 1)
                    if len(p["p"]) == 1 and p["p"][0]["k"] == "deref":
                        return self.exact_len({"k": "copy", "place": {"l": p["l"], "p": []}}, depth + 1)
                    return None
            if d.kind == "call":
                c = d.call
                p = c.callee_path
                if re.search(r"slice::index::<impl std::ops::Index(Mut)?<.*> for \[.*\]>::index(_mut)?$|^<std::vec::Vec<.*> as std::ops::Index(Mut)?<.*>>::index(_mut)?$", p):
                    rng = self.range_of(c.args[1])
                    if rng is not None:
                        kind, a, b = rng
                        if kind == "Range" and a is not None and b is not None:
                            return b.sub(a)
                        if kind == "RangeTo" and b is not None:
                            return b
                        if kind == "RangeFrom" and a is not None:
                            base = self.exact_len(c.args[0], depth + 1)
                            if base is not None:
                                return base.sub(a)
                    return None
                if re.search(r"slice::<impl \[.*\]>::to_vec$|as std::ops::Deref(Mut)?>::deref(_mut)?$|Vec::<.*>::as_slice$|as std::convert::AsRef<\[.*\]>>::as_ref$", p):
                    return self.exact_len(c.args[0], depth + 1)
                # functions returning fixed-size arrays by reference are typed: handled by _len_of_ref_type
                return None
        return None

    def _len_of_ref_type(self, t):
        if t.get("k") == "ref":
            inner = self.body.types[t["to"]]
            if inner.get("k") == "array" and inner.get("len") is not None:
                return Lin(inner["len"])
        if t.get("k") == "array" and t.get("len") is not None:
            return Lin(t["len"])
        return None

    def range_of(self, op):
        """('Range'|'RangeTo'|'RangeFrom'|'RangeInclusive'.., start Lin|None, end Lin|None) of a range operand"""
        outs = self.q.origins(op)
        if len(outs) == 1 and outs[0].kind == "call" and re.search(r"RangeInclusive::<.*>::new$", outs[0].call.callee_path):
            c = outs[0].call
            a, b = self.lin_op(c.args[0]), self.lin_op(c.args[1])
            return ("Range", a, b.add(Lin(1)) if b is not None else None)
        if len(outs) != 1 or outs[0].kind != "agg":
            return None
        rv = outs[0].rv
        name = rv.get("adt", "").split("::")[-1]
        ops = rv["ops"]
        if name == "Range" and len(ops) == 2:
            return ("Range", self.lin_op(ops[0]), self.lin_op(ops[1]))
        if name == "RangeTo" and len(ops) == 1:
            return ("RangeTo", None, self.lin_op(ops[0]))
        if name == "RangeToInclusive" and len(ops) == 1:
            e = self.lin_op(ops[0])
            return ("RangeTo", None, e.add(Lin(1)) if e is not None else None)
        if name == "RangeFrom" and len(ops) == 1:
            return ("RangeFrom", self.lin_op(ops[0]), None)
        if name == "RangeFull":
            return ("RangeFull", None, None)
        return None

    # ------------------------------------------------------------------ facts from dominating checks
    def ok_block(self, cs):
        """the block entered when the Result returned by call site `cs` was Ok (through map_err / ?)"""
        cur = cs
        for _ in range(4):
            d = cur.dest
            if d is None or d["p"]:
                return None
            users = [c for c in self.q._calls if any(a["k"] in ("copy", "move") and a["place"]["l"] == d["l"] and not a["place"]["p"] for a in c.args)]
            if len(users) != 1:
                return None
            u = users[0]
            if re.search(r"Result::<.*>::map_err", u.full) or re.search(r"Result::<.*>::map_err", u.callee_path):
                cur = u
                continue
            if re.search(r"^std::option::Option::<.*>::ok_or(_else)?(::<.*>)?$", u.full) and u.args and u.args[0]["k"] in ("copy", "move") \
                    and u.args[0]["place"]["l"] == d["l"]:
                cur = u               # `opt.ok_or_else(err)?`: Ok iff the option was Some
                continue
            if re.search(r"as std::ops::Try>::branch$", u.callee_path):
                bd = u.dest
                if bd is None:
                    return None
                sw = u.target
                for _ in range(3):
                    t = self.body.blocks[sw]["term"]
                    if t["k"] == "switch":
                        info = self.q.switch_on(sw)
                        if info and info["discr_of"] is not None and info["discr_of"]["l"] == bd["l"]:
                            for v, tgt in t["targets"]:
                                if int(v) == 0:
                                    return tgt
                        return None
                    if t["k"] == "goto":
                        sw = t["target"]
                        continue
                    return None
                return None
            return None
        return None

    def facts(self):
        """list of (ok_block, slice operand, Lin n, check block): len(slice) >= n in blocks dominated by ok_block"""
        if self._facts is None:
            out = []
            for c in self.q._calls:
                if CHECK_RX.search(c.callee_path):
                    okb = self.ok_block(c)
                    self.at = (c.block, 10 ** 6)
                    n = self.lin_op(c.args[1])
                    self.at = None
                    if okb is not None and n is not None:
                        out.append((okb, c.args[0], n, c.block))
                    else:
                        # tail position: `check(..)` returned directly or via `?` we could not follow
                        pass
            # `s.get(..n)` / `s.get_mut(..n)` / `get(a..b)` that turned out Some (through ok_or(_else) and `?`): len(s) >= n
            for c in self.q._calls:
                if re.search(r"slice::<impl \[.*\]>::get(_mut)?(::<.*>)?$", c.callee_path) and len(c.args) == 2:
                    okb = self.ok_block(c)
                    if okb is None:
                        continue
                    self.at = (c.block, 10 ** 6)
                    try:
                        rng = self.range_of(c.args[1])
                    finally:
                        self.at = None
                    if rng is not None and rng[0] in ("Range", "RangeTo") and rng[2] is not None:
                        out.append((okb, c.args[0], rng[2], c.block))
            out.extend(self.contract_facts())
            out.extend(self.compare_facts())
            # a fact about a sub-slice s = &root[k..] is also a fact about root: len(root) >= k + n
            extra = []
            for (okb, sop, n, cb) in out:
                if sop["k"] == "const" or sop["place"]["p"]:
                    continue
                cur = sop
                for _ in range(3):
                    d = self.q.single_def(cur["place"]["l"]) if cur["k"] != "const" and not cur["place"]["p"] else None
                    if d is None:
                        break
                    if d.kind == "assign" and d.rv["k"] == "use" and d.rv["op"]["k"] != "const":
                        cur = d.rv["op"]
                        continue
                    if d.kind == "assign" and d.rv["k"] == "ref" and len(d.rv["place"]["p"]) == 1 and d.rv["place"]["p"][0]["k"] == "deref":
                        cur = {"k": "copy", "place": {"l": d.rv["place"]["l"], "p": []}}
                        continue
                    if d.kind == "call" and re.search(r"Index(Mut)?<.*> for \[.*\]>::index(_mut)?$", d.call.callee_path):
                        rng = self.range_of(d.call.args[1])
                        if rng is not None and rng[0] == "RangeFrom" and rng[1] is not None:
                            self.at = (d.block, 10 ** 6)
                            k = self.range_of(d.call.args[1])[1]
                            self.at = None
                            if k is not None:
                                extra.append((okb, d.call.args[0], n.add(k), cb))
                    break
            out.extend(extra)
            self._facts = out
        return self._facts

    def _payload_var(self, okb, cs):
        """the local holding the Ok payload in the Continue arm of `cs(..)?`"""
        cur = cs
        for _ in range(4):
            d = cur.dest
            users = [c for c in self.q._calls if any(a["k"] in ("copy", "move") and a["place"]["l"] == d["l"] and not a["place"]["p"] for a in c.args)]
            if len(users) != 1:
                return None
            u = users[0]
            if re.search(r"Result::<.*>::map_err", u.full):
                cur = u
                continue
            if re.search(r"as std::ops::Try>::branch$", u.callee_path):
                bl = u.dest["l"]
                for s_ in self.body.blocks[okb]["stmts"]:
                    if s_["k"] == "assign" and s_["rv"]["k"] == "use" and s_["rv"]["op"]["k"] in ("copy", "move"):
                        pl = s_["rv"]["op"]["place"]
                        if pl["l"] == bl and pl["p"] and pl["p"][0]["k"] == "downcast" and not s_["place"]["p"]:
                            return s_["place"]["l"]
                return None
            return None
        return None

    def _len_source(self, op):
        """if the operand is the length of a slice / Vec / str: the reference operand it was taken from"""
        if op["k"] == "const" or op["place"]["p"]:
            return None
        d = self.q.single_def(op["place"]["l"])
        if d is None:
            return None
        if d.kind == "call" and re.search(r"slice::<impl \[.*\]>::len$|Vec::<.*>::len$|str::<impl str>::len$|String::len$", d.call.callee_path):
            return d.call.args[0]
        if d.kind == "assign" and d.rv["k"] == "unop" and d.rv["op"] == "PtrMetadata":
            return d.rv["a"]
        if d.kind == "assign" and d.rv["k"] == "use" and d.rv["op"]["k"] != "const":
            return self._len_source(d.rv["op"])
        return None

    def compare_facts(self):
        """len(s) >= e on the edge of a branch that compares len(s) with e"""
        out = []
        for bi, blk in enumerate(self.body.blocks):
            if blk["cleanup"]:
                continue
            t = blk["term"]
            if t["k"] != "switch" or len(t["targets"]) != 1 or int(t["targets"][0][0]) != 0:
                continue
            false_t, true_t = t["targets"][0][1], t["otherwise"]
            dop = t["discr"]
            if dop["k"] == "const" or dop["place"]["p"]:
                continue
            d = self.q.single_def(dop["place"]["l"])
            neg = False
            guard = 0
            while d is not None and d.kind == "assign" and guard < 4:
                guard += 1
                if d.rv["k"] == "unop" and d.rv["op"] == "Not" and d.rv["a"]["k"] != "const" and not d.rv["a"]["place"]["p"]:
                    neg = not neg
                    d = self.q.single_def(d.rv["a"]["place"]["l"])
                    continue
                if d.rv["k"] == "use" and d.rv["op"]["k"] != "const" and not d.rv["op"]["place"]["p"]:
                    d = self.q.single_def(d.rv["op"]["place"]["l"])
                    continue
                break
            if d is None or d.kind != "assign" or d.rv["k"] != "binop" or d.rv["op"] not in ("Ge", "Gt", "Le", "Lt", "Eq"):
                continue
            if neg:
                false_t, true_t = true_t, false_t
            op = d.rv["op"]
            a, b = d.rv["a"], d.rv["b"]
            sa, sb = self._len_source(a), self._len_source(b)
            self.at = (d.block, self._idx(d))
            try:
                if sa is not None and sb is None:
                    e = self.lin_op(b)
                    src = sa
                    # len OP e
                    table = {"Ge": (true_t, 0), "Gt": (true_t, 1), "Lt": (false_t, 0), "Le": (false_t, 1), "Eq": (true_t, 0)}
                elif sb is not None and sa is None:
                    e = self.lin_op(a)
                    src = sb
                    # e OP len
                    table = {"Le": (true_t, 0), "Lt": (true_t, 1), "Gt": (false_t, 0), "Ge": (false_t, 1), "Eq": (true_t, 0)}
                else:
                    continue
            finally:
                self.at = None
            if e is None:
                continue
            tgt, plus = table[op]
            # the fact holds in blocks dominated by the edge target only if that target has no other predecessor
            if len(set(self.cfg.pred[tgt])) != 1:
                continue
            out.append((tgt, src, e.add(Lin(plus)) if plus else e, bi))
        return out

    def contract_facts(self):
        out = []
        for c in self.q._calls:
            slice_op = None
            si = enc_slice_arg(c.callee_path)
            if si is not None and len(c.args) > si:
                slice_op = c.args[si]
            elif ENC_CTX_RX.search(c.callee_path) and len(c.args) >= 2:
                # the slice handed to AttributeEncoderContext::new for this context
                outs = self.q.origins(c.args[1])
                if len(outs) == 1 and outs[0].kind == "call" and CTX_NEW_RX.search(outs[0].call.callee_path):
                    slice_op = outs[0].call.args[2]
            if slice_op is None:
                continue
            okb = self.ok_block(c)
            if okb is None:
                continue
            pv = self._payload_var(okb, c)
            if pv is None:
                continue
            out.append((okb, slice_op, Lin(0, {("v", pv): 1}), c.block))
        return out

    def multi_ok(self, lin, fact_block, site_block, check_block=None):
        """multiply-assigned locals mentioned by `lin` must not be reassigned between fact and site"""
        ms = [v[1] for v in lin.t if v[0] == "multi"]
        if not ms:
            return True
        # blocks on some path fact_block -> site_block
        # paths that run through the check again re-establish the fact with fresh values: cut there
        cut = {check_block} if check_block is not None and check_block not in (fact_block, site_block) else set()
        fwd = self.cfg.reachable(fact_block, cut_blocks=cut)
        if site_block not in fwd:
            return False
        between = set()
        for b in fwd:
            if b == site_block or site_block in self.cfg.reachable(b, cut_blocks=cut):
                between.add(b)
        # blocks only reachable *after* the site (on the way back to the check) do not lie between
        after = self.cfg.reachable_from_many([t for t in self.cfg.targets(site_block)], cut_blocks=cut | {site_block})
        between = {b for b in between if b == site_block or b == fact_block or b not in after
                   or site_block in self.cfg.reachable(b, cut_blocks=cut | {fact_block})}
        for b in between:
            if b == site_block:
                continue       # definitions in the site block after the site are irrelevant; before it: be strict below
            blk = self.body.blocks[b]
            for s in blk["stmts"]:
                if s["k"] == "assign" and s["place"]["l"] in ms and (b != fact_block or True):
                    if b == fact_block:
                        continue
                    return False
            t = blk["term"]
            if t["k"] == "call" and t["dest"]["l"] in ms and b != fact_block:
                return False
        # definitions inside the site block (before the terminator) also invalidate
        for s in self.body.blocks[site_block]["stmts"]:
            if s["k"] == "assign" and s["place"]["l"] in ms and site_block != fact_block:
                return False
        return True

    def min_len(self, slice_op, site_block, depth=0):
        """list of Lin lower bounds on len(slice) valid at site_block"""
        out = []
        ex = self.exact_len(slice_op)
        if ex is not None:
            out.append(ex)
        for (okb, sop, n, cb) in self.facts():
            if self.cfg.dominates(okb, site_block) and self.same_slice(sop, slice_op):
                out.append(n)
        # a sub-slice s = &root[a..] inherits root's bounds minus a
        if depth < 3 and slice_op["k"] != "const" and not slice_op["place"]["p"]:
            d = self.q.single_def(slice_op["place"]["l"])
            if d is not None and d.kind == "assign" and d.rv["k"] in ("use",) and d.rv["op"]["k"] != "const":
                out.extend(self.min_len(d.rv["op"], site_block, depth + 1))
            if d is not None and d.kind == "assign" and d.rv["k"] == "ref" and len(d.rv["place"]["p"]) == 1 and d.rv["place"]["p"][0]["k"] == "deref":
                out.extend(self.min_len({"k": "copy", "place": {"l": d.rv["place"]["l"], "p": []}}, site_block, depth + 1))
            if d is not None and d.kind == "call" and re.search(r"Index(Mut)?<.*> for \[.*\]>::index(_mut)?$", d.call.callee_path):
                rng = self.range_of(d.call.args[1])
                if rng is not None and rng[0] == "RangeFrom" and rng[1] is not None:
                    for b in self.min_len(d.call.args[0], site_block, depth + 1):
                        out.append(b.sub(rng[1]))
        return out

    # ------------------------------------------------------------------ site discharge
    def discharge(self, site):
        """-> (True, reason) | (False, why not)"""
        t = site.term
        bi = site.block
        self.at = (bi, 10 ** 6)
        try:
            return self._discharge(site)
        finally:
            self.at = None

    def _discharge(self, site):
        t = site.term
        bi = site.block
        if site.kind == "assert":
            return self.discharge_assert(site)
        c = None
        for cs in self.q._calls:
            if cs.block == bi:
                c = cs
        if c is None:
            return False, "call site not found"
        if site.kind in ("slice-index", "vec-index"):
            rng = self.range_of(c.args[1])
            if rng is None:
                # usize index
                idx = self.lin_op(c.args[1])
                if idx is None:
                    return False, "index expression not linear"
                for lb in self.min_len(c.args[0], bi):
                    if self.le(idx.add(Lin(1)), lb):
                        return True, "index %r < len >= %r" % (idx, lb)
                return False, "no length fact covers index %r" % (idx,)
            kind, a, b = rng
            if kind == "RangeFull":
                return True, "full range"
            lbs = self.min_len(c.args[0], bi)
            if kind in ("Range", "RangeTo"):
                if b is None:
                    return False, "range end not linear"
                if kind == "Range":
                    if a is None or not self.le(a, b):
                        return False, "cannot show start %r <= end %r" % (a, b)
                for lb in lbs:
                    if self.le(b, lb) or (b.is_const() and b.c <= self.lb_lin(lb)):
                        return True, "end %r <= len >= %r" % (b, lb)
                return False, "no length fact covers range end %r (facts: %s)" % (b, lbs)
            if kind == "RangeFrom":
                if a is None:
                    return False, "range start not linear"
                for lb in lbs:
                    if self.le(a, lb):
                        return True, "start %r <= len >= %r" % (a, lb)
                return False, "no length fact covers range start %r (facts: %s)" % (a, lbs)
            return False, "unsupported range " + kind
        if site.kind == "byteorder":
            m = re.search(r"_(u16|u24|u32|u48|u64|u128|i16|i32|i64)$", c.callee_path)
            need = {"u16": 2, "i16": 2, "u24": 3, "u32": 4, "i32": 4, "u48": 6, "u64": 8, "i64": 8, "u128": 16}.get(m.group(1)) if m else None
            if need is None:
                return False, "unknown width"
            for lb in self.min_len(c.args[0], bi):
                if self.le(Lin(need), lb) or need <= self.lb_lin(lb):
                    return True, "len >= %r >= %d" % (lb, need)
            return False, "no length fact >= %d" % need
        if site.kind == "slice-op":
            name = c.callee_path.rsplit("::", 1)[-1]
            if name in ("copy_from_slice", "clone_from_slice"):
                a, b = self.exact_len(c.args[0]), self.exact_len(c.args[1])
                if a is not None and b is not None and a.key() == b.key():
                    return True, "both lengths are %r" % (a,)
                return False, "lengths not provably equal (%r vs %r)" % (a, b)
            if name in ("split_at", "split_at_mut"):
                mid = self.lin_op(c.args[1])
                if mid is not None:
                    for lb in self.min_len(c.args[0], bi):
                        if self.le(mid, lb):
                            return True, "mid %r <= len >= %r" % (mid, lb)
                return False, "no length fact covers mid %r" % (mid,)
        return False, "no discharge rule for " + site.kind

    def discharge_assert(self, site):
        t = site.term
        msg = t["msg"]
        ops = t["ops"]
        cv = self.fold_bool(t["cond"])
        if cv is not None and cv == bool(t["expected"]):
            return True, "condition folds to the expected constant"
        if msg == "BoundsCheck":
            ln, idx = ops
            i = self.lin_op(idx)
            # the len operand: array length constant or PtrMetadata of the slice
            lc = const_int(ln)
            if ln["k"] != "const" and i is not None and i.is_const():
                outs0 = self.q.origins(ln)
                if len(outs0) == 1 and outs0[0].kind == "rv" and outs0[0].rv is not None and outs0[0].rv["k"] == "unop":
                    for lb in self.min_len(outs0[0].rv["a"], site.block):
                        if i.c + 1 <= self.lb_lin(lb):
                            return True, "index %d < len >= %r" % (i.c, lb)
            if lc is not None and i is not None and i.is_const() and i.c < lc:
                return True, "index %d < array length %d" % (i.c, lc)
            if i is None:
                return False, "index not linear"
            ub = self.ub_lin(i)
            if lc is not None and ub is not None and ub < lc:
                return True, "index <= %d < array length %d" % (ub, lc)
            if ln["k"] != "const":
                outs = self.q.origins(ln)
                if len(outs) == 1 and outs[0].kind == "rv" and outs[0].rv is not None and outs[0].rv["k"] == "unop" and outs[0].rv["op"] == "PtrMetadata":
                    sop = outs[0].rv["a"]
                    for lb in self.min_len(sop, site.block):
                        if self.le(i.add(Lin(1)), lb):
                            return True, "index %r < len >= %r" % (i, lb)
                    if ub is not None:
                        for lb in self.min_len(sop, site.block):
                            if lb.is_const() and ub < lb.c:
                                return True, "index <= %d < len >= %d" % (ub, lb.c)
            return False, "no length fact covers index %r" % (i,)
        if msg == "Overflow":
            op = t.get("binop", "")
            a, b = ops
            # result type = type of the first operand
            tya = None
            if a["k"] == "const":
                tya = self.body.ty(a["ty"])
            else:
                pl = a["place"]
                if not pl["p"]:
                    tya = self.body.local_ty(pl["l"])
                elif pl["p"][-1]["k"] == "field" and "ty" in pl["p"][-1]:
                    tya = self.body.ty(pl["p"][-1]["ty"])
            if tya is None or tya.get("k") != "int" or tya.get("signed"):
                return False, "operand type unknown/signed"
            maxv = (1 << tya["bits"]) - 1
            ua, ub = self.ub_op(a), self.ub_op(b)
            if op in ("Shl", "Shr"):
                if ub is not None and ub < tya["bits"]:
                    return True, "shift amount <= %d < %d bits" % (ub, tya["bits"])
                return False, "shift amount not bounded"
            if op == "Add":
                if ua is not None and ub is not None and ua + ub <= maxv:
                    return True, "%d + %d fits %s" % (ua, ub, tya["s"])
                return False, "sum not bounded (ub %s + %s) for %s" % (ua, ub, tya["s"])
            if op == "Mul":
                if ua is not None and ub is not None and ua * ub <= maxv:
                    return True, "%d * %d fits %s" % (ua, ub, tya["s"])
                return False, "product not bounded for %s" % tya["s"]
            if op == "Sub":
                la, lb = self.lin_op(a), self.lin_op(b)
                if la is not None and lb is not None and self.le(lb, la):
                    return True, "%r <= %r" % (lb, la)
                if la is not None and la.is_const() and ub is not None and ub <= la.c:
                    return True, "subtrahend <= %d <= %d" % (ub, la.c)
                return False, "cannot show %r <= %r" % (lb, la)
            return False, "no rule for overflow of " + op
        if msg in ("DivisionByZero", "RemainderByZero"):
            d = const_int(ops[0])
            if d is not None and d != 0:
                return True, "constant divisor %d" % d
            return False, "divisor not a non-zero constant"
        return False, "no rule for assert " + msg


def verify_encode_contract(body, slice_param=None, depth0=0):
    """C14 R14.4: every Ok(n) an encoder returns has n <= a proven lower bound of its output slice (or is the
    result of another contract encoder applied to (a sub-slice of) the same output).  -> list of problems
    slice_param: for a helper a refactoring split off an encoder, the parameter (1-based local) holding the output slice"""
    pr = Prover(body)
    q = pr.q
    is_ctx = bool(ENC_CTX_RX.search(body.path)) and slice_param is None
    if body.arg_count < (1 if slice_param else 2):
        return ["unexpected signature"]
    if slice_param is not None:
        my_root = ("arg", slice_param)
    elif is_ctx:
        my_root = ("accessor", repr({"l": 2, "p": []}), "raw_value")
    else:
        si = enc_slice_arg(body.path)
        my_root = ("arg", (si if si is not None else 1) + 1)

    def root_of(op):
        r = pr.slice_root(op)
        if r is None:
            return None
        if r[0] == "place":
            try:
                pl = eval(r[1])
                if pl["p"] == [{"k": "deref"}] and 1 <= pl["l"] <= body.arg_count:
                    return ("arg", pl["l"])
            except Exception:
                pass
        return r

    def derives_from_mine(op, depth=0):
        """op is my slice or a sub-slice of it"""
        if depth > 4:
            return False
        r = root_of(op)
        if r == my_root:
            return True
        if op["k"] == "const" or op["place"]["p"]:
            return False
        d = q.single_def(op["place"]["l"])
        if d is None:
            return False
        if d.kind == "assign" and d.rv["k"] == "use" and d.rv["op"]["k"] != "const":
            return derives_from_mine(d.rv["op"], depth + 1)
        if d.kind == "assign" and d.rv["k"] == "ref" and len(d.rv["place"]["p"]) == 1:
            return derives_from_mine({"k": "copy", "place": {"l": d.rv["place"]["l"], "p": []}}, depth + 1)
        if d.kind == "call" and re.search(r"Index(Mut)?<.*> for \[.*\]>::index(_mut)?$", d.call.callee_path):
            return derives_from_mine(d.call.args[0], depth + 1)
        return False

    problems = []
    seen = set()

    def check_def(d, depth=0):
        if depth > 6:
            problems.append("return value flow too deep")
            return
        if d.kind == "assign":
            rv = d.rv
            if rv["k"] == "aggregate" and rv.get("agg") == "adt" and rv["adt"].endswith("::Result"):
                if rv["variant_name"] == "Err":
                    return
                pr.at = (d.block, pr._idx(d))
                try:
                    x = pr.lin_op(rv["ops"][0])
                finally:
                    pr.at = None
                if x is None:
                    problems.append("Ok(n) with non-linear n at line %s" % body.blocks[d.block]["stmts"][d.idx].get("line"))
                    return
                if x.is_const() and x.c == 0:
                    return
                ok = False
                for (okb, sop, n, cb) in pr.facts():
                    if (okb == d.block or pr.cfg.dominates(okb, d.block)) and root_of(sop) == my_root:
                        pr.at = (d.block, pr._idx(d))
                        try:
                            if pr.le(x, n) or (x.is_const() and x.c <= pr.lb_lin(n)):
                                ok = True
                        finally:
                            pr.at = None
                        if ok:
                            break
                if not ok:
                    problems.append("Ok(%r) is not bounded by a checked length of the output slice (line %s)"
                                    % (x, body.blocks[d.block]["stmts"][d.idx].get("line")))
                return
            if rv["k"] == "use" and rv["op"]["k"] in ("copy", "move") and not rv["op"]["place"]["p"]:
                l = rv["op"]["place"]["l"]
                if l in seen:
                    return
                seen.add(l)
                for d2 in q.whole_defs(l):
                    check_def(d2, depth + 1)
                return
            problems.append("return value built by %s" % rv["k"])
            return
        if d.kind == "call":
            c = d.call
            p = c.callee_path
            if re.search(r"FromResidual<.*>>::from_residual$", p) or re.search(r"FromResidual<.*>>::from_residual$", c.full):
                return      # error propagation
            si2 = enc_slice_arg(p)
            if si2 is not None and len(c.args) > si2:
                if derives_from_mine(c.args[si2]):
                    return
                problems.append("forwards the result of %s on a different slice" % p)
                return
            if ENC_CTX_RX.search(p) and len(c.args) >= 2:
                a = c.args[1]
                outs = q.origins(a)
                if len(outs) == 1 and outs[0].kind == "arg" and outs[0].local == 2 and is_ctx:
                    return
                if len(outs) == 1 and outs[0].kind == "place" and is_ctx and outs[0].place["l"] == 2:
                    return
                if len(outs) == 1 and outs[0].kind == "call" and CTX_NEW_RX.search(outs[0].call.callee_path) and derives_from_mine(outs[0].call.args[2]):
                    return
                problems.append("forwards the result of %s on a different context" % p)
                return
            # a non-public helper that is not in the reference tree (split off by a refactoring) and receives my output
            # slice: the contract is checked on the helper, for that parameter
            from .absint import _known_functions
            known = _known_functions()
            hb = body.prog.bodies.get(c.callee_key) if getattr(c, "callee_key", None) else None
            if hb is not None and known and hb.path not in known and not hb.is_public and depth0 < 3:
                idx = [i_ for i_, a_ in enumerate(c.args) if a_["k"] != "const" and derives_from_mine(a_)]
                if len(idx) == 1:
                    sub = verify_encode_contract(hb, slice_param=idx[0] + 1, depth0=depth0 + 1)
                    problems.extend("in %s: %s" % (hb.path.split("::")[-1], x_) for x_ in sub)
                    return
            problems.append("returns the result of %s" % p)
            return
        problems.append("unsupported definition of the return value")

    for d in q.whole_defs(0):
        check_def(d)
    return problems
