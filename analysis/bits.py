"""E3: bit-provenance evaluation of integer expression trees (as extracted by client.expr_of).

Each bit of a value is 0, 1, ('in', leaf, i) = input bit i of the symbolic leaf, or None (unknown).
& | ^ with constants or bit vectors, << >> by constants and value-preserving conversions are exact."""
W = 64


def const_bits(v):
    return [(v >> i) & 1 for i in range(W)]


def leaf_bits(name, width):
    return [("in", name, i) if i < width else 0 for i in range(W)]


def band(a, b):
    out = []
    for x, y in zip(a, b):
        if x == 0 or y == 0:
            out.append(0)
        elif x == 1:
            out.append(y)
        elif y == 1:
            out.append(x)
        elif x == y:
            out.append(x)
        else:
            out.append(None)
    return out


def bor(a, b):
    out = []
    for x, y in zip(a, b):
        if x == 1 or y == 1:
            out.append(1)
        elif x == 0:
            out.append(y)
        elif y == 0:
            out.append(x)
        elif x == y:
            out.append(x)
        else:
            out.append(None)
    return out


def bxor(a, b):
    out = []
    for x, y in zip(a, b):
        if x == 0:
            out.append(y)
        elif y == 0:
            out.append(x)
        elif x in (0, 1) and y in (0, 1):
            out.append(x ^ y)
        else:
            out.append(None)
    return out


def shl(a, n, width=W):
    return ([0] * n + a)[:W]


def shr(a, n):
    return a[n:] + [0] * n


def trunc(a, width):
    return a[:width] + [0] * (W - width)


def evaluate(tree, leaves, width=16):
    """leaves: {leaf string: bit width}.  returns a list of W bit descriptors."""
    if isinstance(tree, bool):
        return const_bits(int(tree))
    if isinstance(tree, int):
        return const_bits(tree)
    if isinstance(tree, str):
        if tree in leaves:
            return leaf_bits(tree, leaves[tree])
        return [None] * W
    if isinstance(tree, tuple) and tree:
        op = tree[0]
        if isinstance(op, tuple):
            # (node, suffix) projection of a call result: value-preserving for the Ok/Some payload
            return evaluate(op, leaves, width)
        if op == "op:BitAnd":
            return band(evaluate(tree[1], leaves, width), evaluate(tree[2], leaves, width))
        if op == "op:BitOr":
            return bor(evaluate(tree[1], leaves, width), evaluate(tree[2], leaves, width))
        if op == "op:BitXor":
            return bxor(evaluate(tree[1], leaves, width), evaluate(tree[2], leaves, width))
        if op in ("op:Shl", "op:Shr") and isinstance(tree[2], int):
            a = evaluate(tree[1], leaves, width)
            return trunc(shl(a, tree[2]), width) if op == "op:Shl" else shr(a, tree[2])
        if op in ("op:Add",):
            a, b = evaluate(tree[1], leaves, width), evaluate(tree[2], leaves, width)
            # addition of values with disjoint possibly-set bits is an OR
            if all(x == 0 or y == 0 for x, y in zip(a, b)):
                return bor(a, b)
            return [None] * W
        if op == "op:Mul" and isinstance(tree[2], int) and tree[2] & (tree[2] - 1) == 0 and tree[2] > 0:
            return trunc(shl(evaluate(tree[1], leaves, width), tree[2].bit_length() - 1), width)
    return [None] * W


def describe(bits, n=16):
    out = []
    for i in range(n):
        b = bits[i]
        if b in (0, 1):
            out.append(str(b))
        elif b is None:
            out.append("?")
        else:
            out.append("%s[%d]" % (b[1].split(".")[-1].split(":")[-1], b[2]))
    return out
